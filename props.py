"""Registry: property -> obligations (Verus units, Kani harnesses), bounded stand-ins, named-unverified surroundings.
`deps` are found automatically: every contract a unit assumes names its discharger in specs/contracts.py."""

PROPS = {}


def prop(pid, **kw):
    kw.setdefault('verus', [])
    kw.setdefault('kani', [])
    kw.setdefault('bounded', [])
    kw.setdefault('uncovered', [])
    kw.setdefault('kani_extra', [])
    PROPS[pid] = kw


prop('C01',
     title='Calendar, ordinal, ISO-week and day-count forms of a date agree',
     verus=['date'],
     kani=['vk_year_flags_table', 'vk_year_flags_derived', 'vk_mdf_tables', 'vk_mdf_from_ol_with', 'vk_date_bits', 'vk_date_consts',
           'vk_date_from_ordinal_and_flags', 'vk_date_from_yo_opt', 'vk_date_from_ymd_opt', 'vk_date_accessors', 'vk_date_weekday',
           'vk_date_forms_unique', 'vk_date_iso_week', 'vk_date_isoywd_sound', 'vk_date_isoywd_complete', 'vk_isoweek_ord',
           'vk_date_succ_pred', 'vk_date_ord_lex', 'vk_date_quarter_ce_dim', 'vk_date_deprecated_ctors'],
     uncovered=['Date<Tz> (deprecated)', 'Datelike::num_days_from_ce provided method for types other than NaiveDate'],
     text='Kani proves, over full i32/u32 argument domains and every valid packed date, the bit-packed/table kernel '
          '(YEAR_TO_FLAGS, MDL_TO_OL, OL_TO_MDL, from_ymd_opt, from_yo_opt, from_isoywd_opt both directions, accessors, weekday, iso_week, '
          'succ/pred, derived Ord) against an independent proleptic-Gregorian spec; Verus proves the day-count arithmetic '
          '(from_num_days_from_ce_opt, num_days_from_ce, YEAR_DELTAS, cycle conversions) against days_before_year and the lemmas that join them '
          '(day number strictly monotone in (year, ordinal), 400-year weekday periodicity, successor = next day).')

prop('C02',
     title='Unix timestamps and UTC date-times correspond one-to-one',
     verus=['datetime'],
     kani=['vk_dt_from_system_time', 'vk_dt_to_system_time'],
     twin=['datetime'],
     uncovered=[
                'deprecated panicking forms NaiveDateTime::from_timestamp, TimeZone::timestamp / timestamp_millis (unwrap/expect wrappers)'],
     text='Verus proves DateTime::<Utc>::from_timestamp/_millis/_micros/_nanos and timestamp/_millis/_micros/_nanos_opt/_subsec_* on the real text '
          'against day_number - 719163 (floor semantics for sub-second units, construction fails exactly outside the date range or for an invalid '
          'nanosecond field, nanosecond accessor None exactly when the count does not fit i64), over the proved contracts of the date, time and TimeDelta units. Also proved: the zone-generic '
          'provided methods TimeZone::timestamp_opt / timestamp_millis_opt / timestamp_micros / timestamp_nanos on their default bodies (generic in the zone; a scan checks no impl overrides them), '
          'and the NaiveDateTime forms from_timestamp_opt/_millis/_micros/_nanos (two of which redo the Euclidean split themselves) and timestamp*. '
          'System clock conversions (Kani, modular): From<SystemTime> hands exactly floor seconds + non-negative nanoseconds to the calendar constructor on both sides of the epoch; '
          'From<DateTime<Tz>> for SystemTime yields the epoch plus timestamp() seconds plus the full nanosecond field (also inside a leap second, also before 1970) - the calendar side (from_timestamp, timestamp) through its Verus contracts.')

prop('C03',
     title='Adding and subtracting elapsed time is exact or refused, never wrapped',
     verus=['datetime', 'date', 'iters'],
     twin=['datetime', 'date', 'iters', 'zoned'],
     uncovered=['AddAssign/SubAssign<core::time::Duration> for NaiveDateTime', 'Add/Sub<Days>, <Months> operator forms on DateTime<Tz> (their checked forms: C04/C08)'],
     text='Verus proves NaiveDateTime::checked_add_signed/checked_sub_signed/signed_duration_since (exact instant or refusal exactly when not representable), '
          'NaiveDate::add_days/checked_add_days/checked_sub_days/checked_add_signed/checked_sub_signed/signed_duration_since for every u64/i32/TimeDelta argument, '
          'the operator forms (= checked form + expect), the day/week iterators (step 1/7, end at the limit, exact size_hint), and the zone-aware forms DateTime<Tz>::checked_add_signed / '
          'checked_sub_signed / with_timezone / to_utc generically in Tz (same instants whatever the offset: the provided method TimeZone::from_utc_datetime keeps the UTC field, proved on its default body; '
          'a scan checks that no impl overrides it) on the real text. Also proved: the operator forms on every type (NaiveDate +/- TimeDelta, +/- Days, date - date; '
          'NaiveDateTime +/- TimeDelta; DateTime<Tz> +/- TimeDelta, DateTime<Tz> - DateTime<Tz>, DateTime<Tz>::signed_duration_since across two zones) as checked form + expect with the documented '
          'panic condition as precondition, and every AddAssign/SubAssign<TimeDelta>; the core::time::Duration forms (+, -) of NaiveDateTime and (+, -, +=, -=) of DateTime<Tz> over TimeDelta::from_std.')

prop('C07',
     title='Time-of-day arithmetic wraps by whole days and honours leap-second operands',
     verus=['time', 'datetime'],
     twin=['time', 'datetime'],
     uncovered=[],
     text='Verus proves every NaiveTime constructor (accepted exactly for h<24, m<60, s<60, nano<1e9 or <2e9 on second 59), accessor, single-field replacement, '
          'overflowing_add_signed/sub_signed against the documented leap-line model (stay in / leave / skip the leap second as if it were the only one), '
          'signed_duration_since on the joint leap line (antisymmetric), offset shifts, and the date-time forms with the carry applied to the date.')

prop('C04',
     title='Zone-aware date-times: one instant, many wall clocks',
     verus=['datetime', 'time'],
     kani=['vk_fixed_offset_ctor', 'vk_dt_eq_ord_hash', 'vk_dt_from_utc_conversions', 'vk_dt_from_local', 'vk_dt_wallclock_date_getters', 'vk_dt_wallclock_time_getters', 'vk_dt_map_local_any_zone',
           'vk_dt_with_year_any_zone', 'vk_dt_with_month_day_any_zone', 'vk_dt_with_day0_ordinal_any_zone', 'vk_dt_with_clock_any_zone', 'vk_dt_months_any_zone', 'vk_dt_days_any_zone', 'vk_dt_with_time_any_zone_light'],
     kani_thorough=['vk_dt_wallclock_week_getters', 'vk_dt_with_time', 'vk_dt_with_time_fields', 'vk_dt_months', 'vk_dt_with_year', 'vk_dt_with_month', 'vk_dt_with_day', 'vk_dt_with_ordinal',
                    'vk_dt_with_time_any_zone'],
     kani_timeout=3000,
     twin=['zoned', 'datetime'],
     uncovered=[                'formatting of DateTime (core::fmt)', 'time zones other than Utc / FixedOffset (Local is C05)', 'DateTime::naive_local/date_naive (documented to panic out of range)'],
     text='Verus proves the offset shifts on the real text: NaiveTime::overflowing_add/sub_offset (sub-second field kept, day carry in {-1,0,1}), '
          'NaiveDateTime::checked_add/sub_offset (Some exactly when the other reading stays in range, wall = utc +/- offset exactly) and overflowing_add/sub_offset '
          '(always exact thanks to the one-day sentinels). Kani proves for every UTC date-time x every offset in (-24h, 24h): FixedOffset::east_opt/west_opt, '
          'from_utc_datetime/from_local_datetime round trips and their failure condition, Eq/Ord/Hash depend only on the instant, with_timezone/fixed_offset/to_utc '
          'keep the instant, and all Datelike/Timelike getters read the wall clock (also one day beyond the nominal range). map_local - the engine of every with_* on DateTime<Tz> - is proved for EVERY zone and '
          'EVERY closure: the harness instantiates it with a TimeZone whose answers are arbitrary (None / Single / Ambiguous with any offsets) and a closure with an arbitrary result; the wrappers themselves '
          '(with_*, checked_add/sub_months, checked_add/sub_days) are proved for every zone with the NaiveDateTime operation and the two offset shifts taken through their contracts; thorough adds with_time.')

prop('C05',
     title='Local time follows the zone data: offsets, gaps and folds',
     verus=['tz', 'tzrule'],
     kani=['vk_tzstring_offset', 'vk_tzstring_rule_time', 'vk_tzstring_rule_time_extended', 'vk_tzrule_window_logic', 'vk_tzrule_local_classification'],
     bounded=['vk_tz_find_type_bounded', 'vk_tz_from_local_classify_bounded', 'vk_tz_validate_bounded', 'vk_tzstring_rule_day_bounded'],
     twin=['tz'],
     uncovered=['POSIX TZ rule, instant lookup: the three-year interval logic is proved for every table of transition instants under the data hypothesis that starts and ends alternate (vk_tzrule_window_logic); rules whose start/end order flips between neighbouring years are outside it',
                'POSIX TZ rule, wall-clock lookup: the exact None/Single/Ambiguous classification is proved for every table of transition instants under the data hypothesis that the two transitions of the year are separated and in the order their months say (vk_tzrule_local_classification); the two boundary seconds are excepted (as in the property text)',
                'Local / Cache::offset glue (reads environment and file system)', 'zones with leap-second records', 'zoneinfo database enumeration (configurations)',
                'validate() accepts every well-formed table (the converse direction) is only bounded (<= 2 transitions)'],
     text='Verus proves, for transition tables of ANY length (validate() returning Ok implies the well-formedness used below -- proved on its real text; hypothesis tz_ordered on the zone data: the wall-clock windows disturbed by '
          'consecutive transitions are disjoint and ordered), on the real text: find_local_time_type returns the type of the last transition at or before the instant (first type before the first, '
          'last type after the last; std binary search through its documented contract); find_local_time_type_from_local returns only sound candidates (wall -> instant -> wall is the identity), '
          'Ambiguous lists the earlier instant first with distinct offsets, and the classification is EXACT: None only when no interval produces the wall-clock time, Single when exactly one does, '
          'Ambiguous when exactly two do (the documented boundary second excepted); no file-supplied transition time can overflow the arithmetic. '
          'POSIX-rule code (Verus unit tzrule): is_leap_year, days_since_unix_epoch = day number - 719163 for every i32 year, RuleDay::transition_date for Jn / n / Mm.w.d (incl. last week) against the calendar, '
          'unix_time, constructors, AlternateTime::new; UtcDateTime::from_timespec returns exactly the civil date and time of the instant (Err exactly outside the i32 year range); both rule lookups never overflow, and the wall-clock lookup returns Ambiguous earliest first. '
          'Bounded stand-ins: Kani <= 2 transitions (same statements + validate); tz twin (15 POSIX rules, 10 synthetic TZif files through the public Local route).')

prop('C06',
     title='Durations are exact signed nanosecond counts within a closed range',
     verus=['timedelta'],
     kani=['vk_td_derived_ord'],
     twin=['timedelta'],
     uncovered=['impl Display for TimeDelta (core::fmt)', 'TimeDelta::as_seconds_f32/f64 (floating point)',
                'impl Sum for TimeDelta (iterator fold)', 'AddAssign/SubAssign (same body as Add/Sub + assignment)',
                'deprecated min_value/max_value'],
     claim='proof',
     text='Every constructor, accessor, checked_* operation, abs/neg, from_std/to_std, MIN/MAX and the operator forms of '
          'TimeDelta are extracted from src/time_delta.rs on every run and proved by Verus against the integer-nanosecond view '
          '(exact result or refusal exactly when out of +/-(2^63-1) ms; result invariant on every path; truncation toward zero; '
          'division within 2 ns); the derived ordering is proved equal to numeric order by Kani + a Verus lemma.')

prop('C08',
     title='Month stepping, field replacement and week helpers follow calendar rules',
     verus=['week', 'time'],
     kani=['vk_date_with_month', 'vk_date_with_day', 'vk_date_with_ordinal', 'vk_date_with_year', 'vk_date_add_months', 'vk_date_sub_months',
           'vk_date_weekday_of_month', 'vk_date_years_since', 'vk_date_quarter_ce_dim', 'vk_month_num_days',
           'vk_ndt_accessors', 'vk_ndt_with_date_fields', 'vk_ndt_with_time_fields', 'vk_ndt_months', 'vk_mdf_from_ol_with', 'vk_dt_map_local_any_zone',
           'vk_dt_with_year_any_zone', 'vk_dt_with_month_day_any_zone', 'vk_dt_with_day0_ordinal_any_zone', 'vk_dt_with_clock_any_zone', 'vk_dt_months_any_zone', 'vk_dt_days_any_zone', 'vk_dt_with_time_any_zone_light', 'vk_dt_years_since', 'vk_week_checked_days'],
     kani_thorough=['vk_dt_with_time_any_zone'],
     kani_timeout=3000,
     twin=['week', 'zoned'],
     uncovered=[],
     text='Kani proves, for every valid date and every u32/i32 replacement value, with_year/month/month0/day/day0/ordinal/ordinal0 (exactly the named field changes, '
          'None exactly when no such date exists), checked_add/sub_months (year-month moves by N, day clamped, fails only out of range, Months(0) identity), '
          'from_weekday_of_month_opt, years_since, quarter, year_ce, num_days_in_month, weeks_from, Month::num_days, and the NaiveDateTime forms (other part kept). '
          'Verus proves NaiveTime::with_* and NaiveWeek::checked_first_day/checked_last_day (starts on the chosen weekday, at most six days earlier, spans seven days).')

prop('C10',
     title='RFC 3339 output is conformant and input acceptance is exact',
     kani=['vk_fmt_rfc3339_secs', 'vk_fmt_offset'],
     bounded=['vk_rfc3339_parse_bounded'],
     kani_timeout=3000,
     twin=['fmt'],
     uncovered=['acceptance of exactly the RFC 3339 grammar by parse_rfc3339 beyond the bounded family (strings longer than 28 bytes, non-ASCII text such as the U+2212 minus)',
                'fractional-second renderings Millis/Micros/Nanos/AutoSi (go through core::fmt write!)', 'years outside 0..=9999 (core::fmt path)',
                'to_rfc3339 / to_rfc3339_opts String wrappers around write_rfc3339'],
     text='Kernel only. Kani proves write_rfc3339 with SecondsFormat::Secs for every date-time with wall-clock year 0..=9999 x every whole-minute offset x use_z: '
          'the 19 date/time bytes are the wall-clock fields (second 60 for a leap second), then Z (only on request and only for offset zero) or +hh:mm; and OffsetFormat::format '
          'for every offset x precision x colon x padding x Z option against an independent byte-level rendering. Bounded (complete within the bound): the strict reader parse_rfc3339 accepts EXACTLY the RFC 3339 grammar with chrono\'s documented latitude, with in-range field values and an offset within +/-23:59, '
          'for every ASCII string of at most 28 bytes, stores exactly the digits written (fraction truncated to nanoseconds) and consumes exactly the date-time (independent byte-level recogniser in the harness). '
          'Longer strings and non-ASCII text are covered by the twin only.')

prop('C12',
     title='Every strftime specifier renders the documented field',
     kani=['vk_fmt_numeric_years', 'vk_fmt_numeric_iso_years', 'vk_fmt_numeric_month_day', 'vk_fmt_numeric_weeks', 'vk_fmt_numeric_isoweek', 'vk_fmt_numeric_time', 'vk_fmt_offset'],
     twin=['fmt'],
     uncovered=['%Y %G %j %f %s and fraction specifiers (core::fmt write!)', '%C / ISO century outside 0..=99 (core::fmt path)', 'weekday/month names and locales', 'composite specifiers and the StrftimeItems format-string parser',
                'literal copying'],
     text='Kernel only. Kani proves DelayedFormat::format_numeric for the items that avoid core::fmt (%C %y %g %m %d %e %U %W %V %q %w %u %H %k %I %l %M %S) x Pad::{None,Zero,Space} '
          'over all dates / times (week numbers per the documented first-Sunday / first-Monday rule, 12-hour clock at 0 and 12, second 60), missing fields make formatting fail, '
          'and the offset specifiers via OffsetFormat::format for every offset with seconds.')

prop('C14',
     title='Field resolution never returns a value that contradicts a supplied field',
     kani=['vk_parsed_set_year', 'vk_parsed_set_year_div_100', 'vk_parsed_set_year_mod_100', 'vk_parsed_set_isoyear', 'vk_parsed_set_isoyear_div_100', 'vk_parsed_set_isoyear_mod_100', 'vk_parsed_set_quarter', 'vk_parsed_set_month', 'vk_parsed_set_week_from_sun', 'vk_parsed_set_week_from_mon', 'vk_parsed_set_isoweek', 'vk_parsed_set_ordinal', 'vk_parsed_set_day', 'vk_parsed_set_minute', 'vk_parsed_set_second', 'vk_parsed_set_nanosecond', 'vk_parsed_set_timestamp', 'vk_parsed_set_offset', 'vk_parsed_set_clock', 'vk_parsed_date_agrees', 'vk_parsed_complete_ymd', 'vk_parsed_complete_yo',
           'vk_parsed_complete_wsun', 'vk_parsed_complete_wmon', 'vk_parsed_complete_iso', 'vk_parsed_year_groups', 'vk_parsed_insufficient', 'vk_parsed_time', 'vk_parsed_offset', 'vk_parsed_ndt_with_offset_direct', 'vk_parsed_ndt_with_offset_from_timestamp', 'vk_parsed_to_datetime', 'vk_parsed_to_datetime_with_timezone', 'vk_parsed_recorder_sound'],
     kani_timeout=2400,
     twin=['parsed'],
     uncovered=[                'date fields other than year/month/day/ordinal are not re-asserted at the date-time level (they are the callee contract of to_naive_date)'],
     text='Kani proves, with all 14 date fields fully symbolic (Option<any i32/u32>), that a successful Parsed::to_naive_date agrees with every supplied field; completeness for each '
          'documented sufficient combination with every other derived field optionally present; year-group rules (century + two-digit year, 1970-2069 pivot); insufficient sets are NOT_ENOUGH; '
          'to_naive_time with all clock fields symbolic (second 60, missing seconds, nanosecond without second, exact error kinds); to_fixed_offset; every setter for every i64 '
          '(accepted exactly in range, stored exactly, second set accepted exactly when equal). Parsed::to_naive_datetime_with_offset and to_datetime are proved modularly: '
          'their callees (to_naive_date, to_naive_time, DateTime::from_timestamp, DateTime::timestamp, NaiveDateTime::checked_sub_signed / checked_sub_offset; resp. to_naive_datetime_with_offset) are replaced by stubs that return any '
          'result their proved contracts allow, and the harness checks what the function itself adds (which result is returned, timestamp cross-check, error-kind order, leap-second step, '
          'offset choice, no panic for every input). Parsed::to_datetime_with_timezone is proved for EVERY zone: the harness instantiates it with a TimeZone whose answers are arbitrary '
          '(any offset at an instant; None / Single / Ambiguous with any offsets for a local value) and checks the candidate selection against the offset field and the timestamp.')

prop('C15',
     title='Fallible operations fail by value, not by panic or hang',
     verus=['timedelta', 'date', 'time', 'datetime', 'iters', 'round', 'week', 'tz', 'tzrule'],
     kani=['vk_date_from_ymd_opt', 'vk_date_from_yo_opt', 'vk_date_from_ordinal_and_flags', 'vk_date_isoywd_sound', 'vk_date_with_month', 'vk_date_with_day',
           'vk_date_with_ordinal', 'vk_date_with_year', 'vk_date_add_months', 'vk_date_sub_months', 'vk_date_weekday_of_month', 'vk_date_succ_pred',
           'vk_month_num_days', 'vk_month_from_u64', 'vk_month_from_i64', 'vk_weekday_from_primitive',
           'vk_parsed_set_year', 'vk_parsed_set_timestamp', 'vk_parsed_set_clock', 'vk_parsed_time', 'vk_parsed_offset',
           'vk_fixed_offset_ctor', 'vk_dt_from_local', 'vk_dt_wallclock_date_getters', 'vk_dt_wallclock_time_getters', 'vk_fmt_rfc3339_secs', 'vk_fmt_offset',
           'vk_ndt_with_date_fields', 'vk_ndt_with_time_fields'],
     kani_thorough=['vk_parsed_date_agrees', 'vk_dt_wallclock_week_getters', 'vk_ndt_months'],
     bounded=['vk_weekday_from_str_bounded12', 'vk_month_from_str_bounded10', 'vk_weekday_from_str_multibyte', 'vk_month_from_str_multibyte', 'vk_tz_find_type_bounded', 'vk_tz_from_local_classify_bounded'],
     twin=['strings', 'zoned', 'parsed', 'fmt', 'timedelta', 'date', 'time', 'datetime', 'round'],
     kani_timeout=2400,
     uncovered=['all string-taking entry points (parsers, StrftimeItems, Display/format): only the bounded native `strings` sweep; no contract within reach of either engine',
                'serde deserialisers (feature not in the default build)', 'to_rfc3339 / to_rfc3339_opts / to_rfc2822 String wrappers (only their write_* callees)',
                'Local / TimeZone-generic wrappers', 'termination is proved by Verus (decreases) but not by Kani'],
     text='Absence of panic / overflow / out-of-bounds / failed expect / failed debug_assert is an obligation of every function under contract: this check aggregates '
          'all Verus units (every arithmetic operation, index, expect and debug_assert inside the extracted real functions is a proof obligation under the type invariants only; loops carry decreases) '
          'and the Kani harnesses that drive the public fallible entry points with unconstrained integer arguments, both range ends and the one-day sentinels. '
          'String-taking entry points are covered only by a bounded native sweep (labelled so).')

prop('C16',
     title='The TZif and TZ-rule readers accept well-formed data and survive everything else',
     verus=['tz', 'tzrule'],
     kani=['vk_tzif_header', 'vk_tzif_header_truncated', 'vk_tzif_read_be', 'vk_tzstring_offset', 'vk_tzstring_rule_time', 'vk_tzstring_rule_time_extended'],
     bounded=['vk_tz_validate_bounded', 'vk_tz_find_type_bounded', 'vk_tz_from_local_classify_bounded', 'vk_tzif_state_layout_bounded', 'vk_tzstring_rule_day_bounded'],
     twin=['tz'],
     uncovered=['the record loops of the TZif parser (transitions, local time types, leap seconds, indicator pairs, footer) and the TZ-string grammar (iterator adapters, Vec, str::from_utf8): CBMC did not finish on 52-byte / 12-byte symbolic inputs in 20 min, so only the native sweep covers them',
                'acceptance of every file a conforming writer emits (a statement over generated files, not a contract); only the 10 synthetic files + 15 rules of the twin',
                'that the POSIX rule lookups select the prescribed type (only safety / shape / ordering proved)', 'leap-second records'],
     text='Proved (Verus, unbounded, real text): validate() returning Ok implies well-formedness; LocalTimeType::new / with_offset accept only offsets inside (-24h, 24h); TimeZoneName::new accepts exactly 3..7 '
          'characters from [0-9A-Za-z+-] and stores them; RuleDay constructors and AlternateTime::new accept exactly the documented ranges; on a validated zone both lookups (table and POSIX rule, incl. from_timespec) never overflow or index '
          'out of bounds for any file-supplied 64-bit transition time, every instant and every wall-clock time, and every candidate they return is sound. Kani (complete, loop-free): Header::new over every 44-byte header (accepted exactly with the magic, a known version and consistent counts; the six counts are the big-endian fields; 44 bytes consumed), every truncated header refused, read_be_i32/i64; parse_offset / parse_rule_time / parse_rule_time_extended for every outcome of the digit scanner (sign on the whole of h:m:s, exact ranges, no overflow); bounded: RuleDay::parse over the contract of the integer scanner (which constructor gets which number in which order, separators, default 02:00:00, the time parser of the format version); State::new lays out the seven fields with exactly the announced lengths and refuses a block shorter than announced (blocks up to 52 bytes). Bounded Kani stand-ins: validate() accepts exactly well-formed tables; instant lookup. Bounded native stand-in (tz twin, through the public '
          'TZ=:/file and TZ=rule route on fresh threads): files written by an independent TZif writer and POSIX rules yield exactly the modelled offsets, gaps and folds; ~700 structured '
          'mutations (truncations, header-count and 64-bit-time extremes, random bytes, mutated TZ strings) never panic.')

prop('C17',
     title='Rounding and truncation land on the right multiple',
     verus=['round'],
     twin=['round'],
     uncovered=['DurationRound for DateTime<Tz> when the wall-clock reading lies in the one-day headroom outside the nominal range (twin only)',
                'SubsecRound at types other than NaiveDateTime; leap-second inputs (only absence of overflow is proved for them)',
                'Display for RoundingError'],
     text='Verus proves duration_trunc/duration_round/duration_round_up (generic text monomorphised at NaiveDateTime) against floor / ceiling / nearest-with-ties-up '
          'multiples of the span counted from the Unix epoch, the exact error cases (non-positive span, span or timestamp not expressible in i64 nanoseconds), '
          'no overflow of the final +/- (the i64 window lies inside the date range), span_for_digits = 10^(9-min(9,d)) for every u16, round_subsecs/trunc_subsecs '
          'with carry into the next second; idempotence / less-than-one-span / fixed points as lemmas. The same three generic functions are proved a second time at T = DateTime<Tz>, '
          'generically in the zone (the stamp is taken on the wall-clock reading utc + offset, the instant moves by exactly the rounding distance, `original +/- delta` cannot overflow), '
          'and so is impl DurationRound for DateTime<Tz> over DateTime::overflowing_naive_local (Offset::fix through its type-invariant contract |offset| < 24 h).')

prop('C19',
     title='Weekday, Month and weekday-set algebra is consistent',
     kani=['vk_weekday_cycle', 'vk_weekday_numbering', 'vk_weekday_try_from_u8', 'vk_weekday_from_primitive',
           'vk_month_cycle', 'vk_month_try_from_u8', 'vk_month_from_u64', 'vk_month_from_i64',
           'vk_month_from_primitive_provided', 'vk_months_newtype', 'vk_month_name_roundtrip',
           'vk_wset_set_algebra', 'vk_wset_first_last_single', 'vk_wset_iter_forward', 'vk_wset_iter_backward',
           'vk_wset_iter_mixed', 'vk_wset_from_array'],
     bounded=['vk_weekday_from_str_bounded12', 'vk_month_from_str_bounded10', 'vk_weekday_from_str_multibyte', 'vk_month_from_str_multibyte'],
     uncovered=['Display for Weekday/Month/WeekdaySet (core::fmt)', 'FromIterator for WeekdaySet (iterator adapters)',
                'FromStr for strings longer than the stated bound'],
     claim='proof',
     text='Loop-free (or constant-bounded, unwinding assertions on) Kani harnesses over the full domains: 7 weekdays, 12 months, '
          'all 128x128 set pairs x 7 start days, every u8/u32/u64/i64/usize/isize for the numeric conversions. '
          'Text parsing is only a bounded stand-in (ASCII strings up to 12/10 bytes).')

# properties not (or not yet) claimed: every id of properties.jsonl is either in PROPS or here
NOT_APPLICABLE = {

    'C09': 'print->parse round trip lives in core::fmt and &str scanning with iterator adapters: no function contract within reach of Verus (no str bytes) and only bounded exploration in Kani, which is another technique',
    'C11': 'RFC 2822 reader/writer is a hand-written scanner over arbitrary strings (comments, name tables, String building): only bounded string exploration is possible',
    'C13': 'format/parse inverse over a family of format strings: same reason as C09',
    'C18': 'quantifies over histories of TZ changes, waits and threads; mechanism reads process environment, file system, SystemTime::now and a thread_local cache: nothing a function contract can be stated against',
    'C20': 'feature-gated serde glue (not in the default build) through external generic Serializer/Deserializer traits and two external data formats',
}
