// @append: src/naive/datetime/mod.rs
// C08 (date-time level): Datelike/Timelike accessors and single-field replacement of NaiveDateTime act on the date resp. time
// part and keep the other part; month stepping delegates to the date.
#[cfg(kani)]
mod verif_kani_ndt {
    use super::*;
    use crate::Months;

    fn any_ndt() -> NaiveDateTime {
        let d = NaiveDate::from_yo_opt(kani::any(), kani::any());      // every valid date (vk_date_from_yo_opt)
        kani::assume(d.is_some());
        let t = NaiveTime::from_num_seconds_from_midnight_opt(kani::any(), kani::any());
        kani::assume(t.is_some());
        NaiveDateTime::new(d.unwrap(), t.unwrap())
    }

    // fns: Datelike::{year, month, month0, day, day0, ordinal, ordinal0, weekday, iso_week} and Timelike::{hour, minute, second, nanosecond} for NaiveDateTime
    #[kani::proof]
    fn vk_ndt_accessors() {
        let x = any_ndt();
        let (d, t) = (x.date(), x.time());
        assert!(x.year() == d.year() && x.month() == d.month() && x.month0() == d.month0() && x.day() == d.day() && x.day0() == d.day0(), "x.year() == d.year() && x.month() == d.month() && x.month0() == d.mont");
        assert!(x.ordinal() == d.ordinal() && x.ordinal0() == d.ordinal0() && x.weekday() == d.weekday() && x.iso_week() == d.iso_week(), "x.ordinal() == d.ordinal() && x.ordinal0() == d.ordinal0() && x.weekda");
        assert!(x.hour() == t.hour() && x.minute() == t.minute() && x.second() == t.second() && x.nanosecond() == t.nanosecond(), "x.hour() == t.hour() && x.minute() == t.minute() && x.second() == t.se");
    }

    // fns: Datelike::{with_year, with_month, with_month0, with_day, with_day0, with_ordinal, with_ordinal0} for NaiveDateTime
    #[kani::proof]
    fn vk_ndt_with_date_fields() {
        let x = any_ndt();
        let (d, t) = (x.date(), x.time());
        let v: u32 = kani::any(); let y: i32 = kani::any();
        let which: u8 = kani::any();
        kani::assume(which < 7);
        let (got, want) = match which {
            0 => (x.with_year(y), d.with_year(y)),
            1 => (x.with_month(v), d.with_month(v)),
            2 => (x.with_month0(v), d.with_month0(v)),
            3 => (x.with_day(v), d.with_day(v)),
            4 => (x.with_day0(v), d.with_day0(v)),
            5 => (x.with_ordinal(v), d.with_ordinal(v)),
            _ => (x.with_ordinal0(v), d.with_ordinal0(v)),
        };
        kani::cover!(got.is_some() && which == 0); kani::cover!(got.is_none() && which == 3);
        match (got, want) {
            (Some(g), Some(w)) => assert!(g.date() == w && g.time() == t, "date field replaced on the date part, time kept"),
            (None, None) => {}
            _ => assert!(false, "date-time field replacement succeeds exactly when the date replacement does"),
        }
    }

    // fns: Timelike::{with_hour, with_minute, with_second, with_nanosecond} for NaiveDateTime
    #[kani::proof]
    fn vk_ndt_with_time_fields() {
        let x = any_ndt();
        let (d, t) = (x.date(), x.time());
        let v: u32 = kani::any();
        let which: u8 = kani::any();
        kani::assume(which < 4);
        let (got, want) = match which {
            0 => (x.with_hour(v), t.with_hour(v)),
            1 => (x.with_minute(v), t.with_minute(v)),
            2 => (x.with_second(v), t.with_second(v)),
            _ => (x.with_nanosecond(v), t.with_nanosecond(v)),
        };
        kani::cover!(got.is_some() && which == 3 && v >= 1_000_000_000);
        match (got, want) {
            (Some(g), Some(w)) => assert!(g.time() == w && g.date() == d, "time field replaced on the time part, date kept"),
            (None, None) => {}
            _ => assert!(false, "date-time field replacement succeeds exactly when the time replacement does"),
        }
    }

    // fns: NaiveDateTime::checked_add_months, NaiveDateTime::checked_sub_months
    #[kani::proof]
    fn vk_ndt_months() {
        let x = any_ndt();
        let n: u32 = kani::any();
        let add: bool = kani::any();
        let (got, want) = if add { (x.checked_add_months(Months::new(n)), x.date().checked_add_months(Months::new(n))) }
                          else { (x.checked_sub_months(Months::new(n)), x.date().checked_sub_months(Months::new(n))) };
        kani::cover!(got.is_some() && n > 12);
        match (got, want) {
            (Some(g), Some(w)) => assert!(g.date() == w && g.time() == x.time(), "month stepping moves the date, keeps the time"),
            (None, None) => {}
            _ => assert!(false, "month stepping of a date-time succeeds exactly when it does for the date"),
        }
    }
}
