// @append: src/naive/date/mod.rs
// C01 (and the date parts of C08/C15): packed-date kernel of NaiveDate against the calendar spec; full i32/u32 domains
#[cfg(kani)]
mod verif_kani_date {
    use super::*;
//@@COMMON@@
    use xs::*;

    /// Any value satisfying the representation invariant of NaiveDate (DESIGN 2.3 `wf`), and nothing more.
    pub(crate) fn any_date() -> NaiveDate {
        let year: i32 = kani::any();
        let ord: u32 = kani::any();
        kani::assume(year as i64 >= MIN_Y && year as i64 <= MAX_Y);
        kani::assume(ord >= 1 && ord as i64 <= year_len(year as i64));
        let flags = YearFlags::from_year(year);          // table proved by vk_year_flags_table
        NaiveDate { yof: NonZeroI32::new((year << 13) | ((ord as i32) << 4) | flags.0 as i32).unwrap() }
    }
    fn wf(d: NaiveDate) -> bool {
        let yof = d.yof.get();
        let (y, o, f) = (yof.div_euclid(8192), yof.rem_euclid(8192) / 16, yof.rem_euclid(16));
        y as i64 >= MIN_Y && y as i64 <= MAX_Y && o >= 1 && o as i64 <= year_len(y as i64) && f == YearFlags::from_year(y).0 as i32
    }

    // fns: NaiveDate::yof, NaiveDate::from_yof, NaiveDate::year, NaiveDate::ordinal, NaiveDate::year_flags, NaiveDate::leap_year (bit level, every non-zero i32)
    #[kani::proof]
    fn vk_date_bits() {
        let yof: i32 = kani::any();
        kani::assume(yof != 0);
        let d = NaiveDate { yof: NonZeroI32::new(yof).unwrap() };
        kani::cover!(yof < 0);
        assert!(d.yof() == yof, "d.yof() == yof");
        assert!(d.year() == yof.div_euclid(8192), "year() = floor(yof / 2^13)");
        assert!(d.ordinal() as i32 == yof.rem_euclid(8192) / 16, "ordinal() = bits 4..13");
        assert!(d.year_flags().0 as i32 == yof.rem_euclid(16), "year_flags() = low 4 bits");
        assert!(d.leap_year() == (yof.rem_euclid(16) & 8 == 0), "d.leap_year() == (yof.rem_euclid(16) & 8 == 0)");
        // from_yof is the identity on the bits whenever its debug assertions hold
        let o = yof.rem_euclid(8192) / 16;
        if o >= 1 && o <= 366 && !(o == 366 && yof & 8 != 0) && yof & 7 != 0 {
            assert!(NaiveDate::from_yof(yof).yof() == yof, "from_yof(y).yof() == y");
        }
    }

    // fns: NaiveDate::MIN, NaiveDate::MAX, NaiveDate::BEFORE_MIN, NaiveDate::AFTER_MAX
    #[kani::proof]
    fn vk_date_consts() {
        assert!(MIN_YEAR as i64 == MIN_Y && MAX_YEAR as i64 == MAX_Y, "year range of the property text");
        assert!(wf(NaiveDate::MIN) && NaiveDate::MIN.year() as i64 == MIN_Y && NaiveDate::MIN.ordinal() == 1, "wf(NaiveDate::MIN) && NaiveDate::MIN.year() as i64 == MIN_Y && NaiveDa");
        assert!(wf(NaiveDate::MAX) && NaiveDate::MAX.year() as i64 == MAX_Y && NaiveDate::MAX.ordinal() as i64 == year_len(MAX_Y), "wf(NaiveDate::MAX) && NaiveDate::MAX.year() as i64 == MAX_Y && NaiveDa");
        let b = NaiveDate::BEFORE_MIN; let a = NaiveDate::AFTER_MAX;
        assert!(b.year() as i64 == MIN_Y - 1 && b.ordinal() as i64 == year_len(MIN_Y - 1) && b.year_flags().0 == YearFlags::from_year(b.year()).0, "BEFORE_MIN is the day before MIN");
        assert!(a.year() as i64 == MAX_Y + 1 && a.ordinal() == 1 && a.year_flags().0 == YearFlags::from_year(a.year()).0, "AFTER_MAX is the day after MAX");
    }

    // fns: NaiveDate::from_ordinal_and_flags
    #[kani::proof]
    fn vk_date_from_ordinal_and_flags() {
        let y: i32 = kani::any(); let o: u32 = kani::any();
        let r = NaiveDate::from_ordinal_and_flags(y, o, YearFlags::from_year(y));
        let valid = y as i64 >= MIN_Y && y as i64 <= MAX_Y && o >= 1 && o as i64 <= year_len(y as i64);
        kani::cover!(o == 366 && r.is_some()); kani::cover!(o == 366 && r.is_none() && y == 2023);
        assert!(r.is_some() == valid, "from_ordinal_and_flags: Some exactly for an existing ordinal of an in-range year");
        if let Some(d) = r { assert!(wf(d) && d.year() == y && d.ordinal() == o, "wf(d) && d.year() == y && d.ordinal() == o"); }
    }

    // fns: NaiveDate::from_yo_opt
    #[kani::proof]
    fn vk_date_from_yo_opt() {
        let y: i32 = kani::any(); let o: u32 = kani::any();
        let r = NaiveDate::from_yo_opt(y, o);
        let valid = y as i64 >= MIN_Y && y as i64 <= MAX_Y && o >= 1 && o as i64 <= year_len(y as i64);
        kani::cover!(o == 366 && r.is_some());
        assert!(r.is_some() == valid, "from_yo_opt: Some exactly for the (year, ordinal) pairs that denote a date in range");
        if let Some(d) = r { assert!(wf(d) && d.year() == y && d.ordinal() == o, "wf(d) && d.year() == y && d.ordinal() == o"); }
    }

    // fns: NaiveDate::from_ymd_opt, NaiveDate::from_mdf, NaiveDate::month, NaiveDate::day, NaiveDate::mdf
    #[kani::proof]
    fn vk_date_from_ymd_opt() {
        let y: i32 = kani::any(); let m: u32 = kani::any(); let d: u32 = kani::any();
        let r = NaiveDate::from_ymd_opt(y, m, d);
        let valid = y as i64 >= MIN_Y && y as i64 <= MAX_Y && ymd_valid(y as i64, m as i64, d as i64);
        kani::cover!(m == 2 && d == 29 && r.is_some()); kani::cover!(m == 2 && d == 29 && r.is_none() && y == 1900);
        assert!(r.is_some() == valid, "from_ymd_opt: Some exactly for existing calendar dates in range");
        if let Some(dt) = r {
            assert!(wf(dt) && dt.year() == y && dt.month() == m && dt.day() == d, "fields read back");
            assert!(dt.ordinal() as i64 == cum_days(y as i64, m as i64) + d as i64, "calendar and ordinal forms agree");
        }
    }

    // fns: NaiveDate::month, NaiveDate::day, NaiveDate::leap_year, Datelike::{year, month, month0, day, day0, ordinal, ordinal0} for NaiveDate
    #[kani::proof]
    fn vk_date_accessors() {
        let d = any_date();
        let (y, o) = (d.year() as i64, d.ordinal() as i64);
        let (m, dd) = (d.month() as i64, d.day() as i64);
        kani::cover!(o == 366); kani::cover!(y < 0);
        assert!(ymd_valid(y, m, dd) && cum_days(y, m) + dd == o, "month()/day() are the calendar form of the ordinal");
        assert!(Datelike::year(&d) as i64 == y && Datelike::month(&d) as i64 == m && Datelike::day(&d) as i64 == dd && Datelike::ordinal(&d) as i64 == o, "Datelike::year(&d) as i64 == y && Datelike::month(&d) as i64 == m && D");
        assert!(d.month0() as i64 == m - 1 && d.day0() as i64 == dd - 1 && d.ordinal0() as i64 == o - 1, "d.month0() as i64 == m - 1 && d.day0() as i64 == dd - 1 && d.ordinal0(");
        assert!(d.leap_year() == is_leap(y), "d.leap_year() == is_leap(y)");
    }

    // fns: NaiveDate::weekday, Datelike::weekday for NaiveDate
    #[kani::proof]
    fn vk_date_weekday() {
        let d = any_date();
        let (y, o) = (d.year() as i64, d.ordinal() as i64);
        kani::cover!(d.weekday() == Weekday::Sun);
        assert!(wd_idx(d.weekday()) as i64 == weekday_yo(y, o), "weekday() agrees with the day count (reduced mod 400 years)");
        assert!(Datelike::weekday(&d) == d.weekday(), "Datelike::weekday(&d) == d.weekday()");
    }

    // fns: NaiveDate::from_ymd_opt, NaiveDate::from_yo_opt (uniqueness: the accessors of a date rebuild exactly that date)
    #[kani::proof]
    fn vk_date_forms_unique() {
        let d = any_date();
        assert!(NaiveDate::from_ymd_opt(d.year(), d.month(), d.day()) == Some(d), "one calendar form per date");
        assert!(NaiveDate::from_yo_opt(d.year(), d.ordinal()) == Some(d), "one ordinal form per date");
    }

    // fns: Datelike::iso_week for NaiveDate, IsoWeek::from_yof, IsoWeek::year, IsoWeek::week, IsoWeek::week0
    #[kani::proof]
    fn vk_date_iso_week() {
        let d = any_date();
        let w = d.iso_week();
        let (sy, sw) = iso(d.year() as i64, d.ordinal() as i64);
        kani::cover!(sw == 53); kani::cover!(sy != d.year() as i64);
        assert!(w.year() as i64 == sy && w.week() as i64 == sw, "iso_week() follows the Thursday rule (week 1 contains 4 January)");
        assert!(w.week0() + 1 == w.week(), "w.week0() + 1 == w.week()");
    }

    // fns: NaiveDate::from_isoywd_opt (soundness, every i32 year / u32 week; iso_week() is the contract proved by vk_date_iso_week)
    #[kani::proof]
    fn vk_date_isoywd_sound() {
        let y: i32 = kani::any(); let w: u32 = kani::any(); let wd = any_wd();
        kani::cover!(w == 53); kani::cover!(y == i32::MIN);
        match NaiveDate::from_isoywd_opt(y, w, wd) {
            Some(d) => {
                assert!(wf(d), "result is a valid date");
                let iw = d.iso_week();
                assert!(iw.year() == y && iw.week() == w && d.weekday() == wd, "from_isoywd_opt returns the date with that ISO year, week and weekday");
            }
            None => {}
        }
    }

    // fns: NaiveDate::from_isoywd_opt (completeness: every date is reachable from its own ISO week date => None only when no date in range)
    #[kani::proof]
    fn vk_date_isoywd_complete() {
        let d = any_date();
        let w = d.iso_week();
        assert!(NaiveDate::from_isoywd_opt(w.year(), w.week(), d.weekday()) == Some(d), "from_isoywd_opt(iso_week(d), weekday(d)) == d");
    }

    // fns: derived Ord/PartialOrd/Eq for IsoWeek
    #[kani::proof]
    fn vk_isoweek_ord() {
        let a = any_date(); let b = any_date();
        let (wa, wb) = (a.iso_week(), b.iso_week());
        let ka = (wa.year(), wa.week()); let kb = (wb.year(), wb.week());
        kani::cover!(ka < kb);
        assert!((wa < wb) == (ka < kb) && (wa == wb) == (ka == kb), "IsoWeek compares as (iso year, week)");
        // chronological: an earlier date never has a later ISO week
        if (a.year(), a.ordinal()) <= (b.year(), b.ordinal()) { assert!(wa <= wb, "ISO weeks compare in chronological order"); }
    }

    // fns: NaiveDate::succ_opt, NaiveDate::pred_opt
    #[kani::proof]
    fn vk_date_succ_pred() {
        let d = any_date();
        kani::cover!(d.ordinal() == 366); kani::cover!(d == NaiveDate::MAX);
        match d.succ_opt() {
            Some(e) => {
                assert!(wf(e), "wf(e)");
                if (d.ordinal() as i64) < year_len(d.year() as i64) { assert!(e.year() == d.year() && e.ordinal() == d.ordinal() + 1, "next ordinal"); }
                else { assert!(e.year() == d.year() + 1 && e.ordinal() == 1, "1 January of the next year"); }
                assert!(e.weekday() == d.weekday().succ(), "the successor has the next weekday");
                assert!(e.pred_opt() == Some(d), "pred_opt inverts succ_opt");
                assert!(d < e, "d < e");
            }
            None => assert!(d.year() as i64 == MAX_Y && d.ordinal() as i64 == year_len(MAX_Y), "succ_opt is None only at MAX"),
        }
        match d.pred_opt() {
            Some(p) => { assert!(wf(p) && p.succ_opt() == Some(d), "succ_opt inverts pred_opt"); }
            None => assert!(d.year() as i64 == MIN_Y && d.ordinal() == 1, "pred_opt is None only at MIN"),
        }
    }

    // fns: derived Ord/PartialOrd/Eq/PartialEq for NaiveDate
    #[kani::proof]
    fn vk_date_ord_lex() {
        let a = any_date(); let b = any_date();
        let ka = (a.year(), a.ordinal()); let kb = (b.year(), b.ordinal());
        kani::cover!(a.year() < 0 && b.year() > 0);
        assert!((a < b) == (ka < kb) && (a == b) == (ka == kb) && (a <= b) == (ka <= kb), "date order is lexicographic (year, ordinal) = day-number order (Verus lemma dn_lex_mono)");
        assert!(a.cmp(&b) == ka.cmp(&kb), "a.cmp(&b) == ka.cmp(&kb)");
    }

    // ------------------------------------------------------------------------------------------
    // C08: field replacement, month stepping, n-th weekday, years elapsed, quarter / CE year / days in month

    // fns: Datelike::{with_month, with_month0} for NaiveDate, NaiveDate::with_mdf
    #[kani::proof]
    fn vk_date_with_month() {
        let d = any_date();
        let (y, dd) = (d.year(), d.day());
        let v: u32 = kani::any();
        kani::cover!(v == u32::MAX); kani::cover!(d.month() == 1 && dd == 31 && v == 2);
        match d.with_month(v) {
            Some(r) => assert!(wf(r) && r.year() == y && r.month() == v && r.day() == dd, "with_month changes only the month"),
            None => assert!(!ymd_valid(y as i64, v as i64, dd as i64), "with_month is None only if no such date exists"),
        }
        match d.with_month0(v) {
            Some(r) => assert!(wf(r) && r.year() == y && r.month0() == v && r.day() == dd, "with_month0 changes only the month"),
            None => assert!(v == u32::MAX || !ymd_valid(y as i64, v as i64 + 1, dd as i64), "with_month0 is None only if no such date exists"),
        }
    }

    // fns: Datelike::{with_day, with_day0} for NaiveDate
    #[kani::proof]
    fn vk_date_with_day() {
        let d = any_date();
        let (y, m) = (d.year(), d.month());
        let v: u32 = kani::any();
        kani::cover!(v == u32::MAX); kani::cover!(m == 2 && v == 29);
        match d.with_day(v) {
            Some(r) => assert!(wf(r) && r.year() == y && r.month() == m && r.day() == v, "with_day changes only the day"),
            None => assert!(!ymd_valid(y as i64, m as i64, v as i64), "with_day is None only if no such date exists"),
        }
        match d.with_day0(v) {
            Some(r) => assert!(wf(r) && r.year() == y && r.month() == m && r.day0() == v, "with_day0 changes only the day"),
            None => assert!(v == u32::MAX || !ymd_valid(y as i64, m as i64, v as i64 + 1), "with_day0 is None only if no such date exists"),
        }
    }

    // fns: Datelike::{with_ordinal, with_ordinal0} for NaiveDate
    #[kani::proof]
    fn vk_date_with_ordinal() {
        let d = any_date();
        let y = d.year();
        let v: u32 = kani::any();
        kani::cover!(v == 366); kani::cover!(v == u32::MAX);
        match d.with_ordinal(v) {
            Some(r) => assert!(wf(r) && r.year() == y && r.ordinal() == v, "with_ordinal changes only the ordinal"),
            None => assert!(v == 0 || v as i64 > year_len(y as i64), "with_ordinal is None only if no such day exists"),
        }
        match d.with_ordinal0(v) {
            Some(r) => assert!(wf(r) && r.year() == y && r.ordinal0() == v, "with_ordinal0 changes only the ordinal"),
            None => assert!(v as i64 >= year_len(y as i64), "with_ordinal0 is None only if no such day exists"),
        }
    }

    // fns: Datelike::with_year for NaiveDate, NaiveDate::from_mdf, Mdf::with_flags
    #[kani::proof]
    fn vk_date_with_year() {
        let d = any_date();
        let ny: i32 = kani::any();
        kani::cover!(d.month() == 2 && d.day() == 29);
        match d.with_year(ny) {
            Some(r) => assert!(wf(r) && r.year() == ny && r.month() == d.month() && r.day() == d.day(), "with_year keeps month and day"),
            None => assert!((ny as i64) < MIN_Y || (ny as i64) > MAX_Y || !ymd_valid(ny as i64, d.month() as i64, d.day() as i64), "with_year is None only out of range or for 29 Feb in a common year"),
        }
    }

    fn months_target(y: i32, m: u32, delta: i64) -> (i64, i64) {
        let t = y as i64 * 12 + m as i64 - 1 + delta;
        // floor division by 12 in 32-bit arithmetic where possible
        let q = if t >= i32::MIN as i64 && t <= i32::MAX as i64 { (t as i32).div_euclid(12) as i64 } else { t.div_euclid(12) };
        (q, t - q * 12 + 1)
    }

    fn check_months(d: NaiveDate, n: u32, add: bool) {
        let r = if add { d.checked_add_months(Months::new(n)) } else { d.checked_sub_months(Months::new(n)) };
        let (ty, tm) = months_target(d.year(), d.month(), if add { n as i64 } else { -(n as i64) });
        kani::cover!(r.is_some() && d.day() == 31 && tm == 2); kani::cover!(n > i32::MAX as u32); kani::cover!(n == 0);
        match r {
            Some(e) => {
                assert!(wf(e) && e.year() as i64 == ty && e.month() as i64 == tm, "year-month moves by exactly N");
                let ml = month_len(ty, tm);
                assert!(e.day() as i64 == if d.day() as i64 <= ml { d.day() as i64 } else { ml }, "day kept, clamped to the last day of the target month");
            }
            None => assert!(ty < MIN_Y || ty > MAX_Y, "fails only when the target year is out of range"),
        }
        if n == 0 { assert!(r == Some(d), "Months(0) is the identity"); }
    }

    // fns: NaiveDate::checked_add_months, NaiveDate::diff_months
    #[kani::proof]
    fn vk_date_add_months() { check_months(any_date(), kani::any(), true); }

    // fns: NaiveDate::checked_sub_months, NaiveDate::diff_months
    #[kani::proof]
    fn vk_date_sub_months() { check_months(any_date(), kani::any(), false); }

    // fns: NaiveDate::from_weekday_of_month_opt
    #[kani::proof]
    fn vk_date_weekday_of_month() {
        let y: i32 = kani::any(); let m: u32 = kani::any(); let n: u8 = kani::any(); let wd = any_wd();
        let r = NaiveDate::from_weekday_of_month_opt(y, m, wd, n);
        kani::cover!(r.is_some() && n == 5); kani::cover!(r.is_none() && n == 5 && m == 2);
        let in_range = (y as i64) >= MIN_Y && (y as i64) <= MAX_Y && m >= 1 && m <= 12;
        match r {
            Some(d) => {
                assert!(wf(d) && d.year() == y && d.month() == m && d.weekday() == wd, "n-th weekday lies in that month and has that weekday");
                assert!(n >= 1 && d.day() as i64 >= 7 * (n as i64 - 1) + 1 && d.day() as i64 <= 7 * n as i64, "it is the n-th one");
            }
            None => {
                // None only if there is no n-th such weekday: n = 0, bad year/month, or the n-th falls past the end of the month
                if in_range && n >= 1 && n <= 4 { assert!(false, "the first four occurrences always exist"); }
                if in_range && n == 5 {
                    // the 5th exists iff some day d in 29..=len has that weekday
                    let len = month_len(y as i64, m as i64);
                    let first_wd = weekday_yo(y as i64, cum_days(y as i64, m as i64) + 1);
                    let off = (7 + wd_idx(wd) as i64 - first_wd) % 7;         // day-1 of the first occurrence
                    assert!(off + 29 > len, "a fifth occurrence that exists is returned");
                }
            }
        }
    }

    // fns: NaiveDate::years_since
    #[kani::proof]
    fn vk_date_years_since() {
        let a = any_date(); let b = any_date();
        let r = a.years_since(b);
        let before = (a.month(), a.day()) < (b.month(), b.day());
        let whole = a.year() as i64 - b.year() as i64 - if before { 1 } else { 0 };
        kani::cover!(whole == 0 && before == false && a.year() == b.year()); kani::cover!(r.is_none());
        match r { Some(n) => assert!(whole >= 0 && n as i64 == whole, "whole years elapsed"), None => assert!(whole < 0, "None only when self is before base") }
    }

    // fns: Datelike::quarter, Datelike::year_ce, Datelike::num_days_in_month (provided methods at NaiveDate), NaiveDate::weeks_from
    #[kani::proof]
    fn vk_date_quarter_ce_dim() {
        let d = any_date();
        kani::cover!(d.year() <= 0);
        assert!(d.quarter() == (d.month() + 2) / 3, "quarter");
        let (ce, yy) = d.year_ce();
        assert!(ce == (d.year() >= 1) && yy as i64 == if d.year() >= 1 { d.year() as i64 } else { 1 - d.year() as i64 }, "year 0 = 1 BCE");
        assert!(d.num_days_in_month() as i64 == month_len(d.year() as i64, d.month() as i64), "days in month");
        let s = any_wd();
        // weeks_from(s): number of the week (weeks starting on s; days before the first s are week 0)
        let first_s = (7 + wd_idx(s) as i64 - weekday_yo(d.year() as i64, 1)) % 7 + 1;     // ordinal of the first `s` of the year
        let want = if (d.ordinal() as i64) < first_s { 0 } else { (d.ordinal() as i64 - first_s) / 7 + 1 };
        assert!(d.weeks_from(s) as i64 == want, "weeks_from counts weeks starting on the given weekday");
    }

    // fns: NaiveDate::from_ymd, NaiveDate::from_yo, NaiveDate::from_isoywd, NaiveDate::succ, NaiveDate::pred (deprecated panicking forms: the value of the checked form whenever that exists)
    #[kani::proof]
    #[allow(deprecated)]
    fn vk_date_deprecated_ctors() {
        let which: u8 = kani::any();
        kani::assume(which < 5);
        let (y, a, b): (i32, u32, u32) = (kani::any(), kani::any(), kani::any());
        match which {
            0 => if let Some(d) = NaiveDate::from_ymd_opt(y, a, b) { assert!(NaiveDate::from_ymd(y, a, b) == d, "from_ymd = from_ymd_opt"); },
            1 => if let Some(d) = NaiveDate::from_yo_opt(y, a) { assert!(NaiveDate::from_yo(y, a) == d, "from_yo = from_yo_opt"); },
            2 => { let w = any_wd(); if let Some(d) = NaiveDate::from_isoywd_opt(y, a, w) { assert!(NaiveDate::from_isoywd(y, a, w) == d, "from_isoywd = from_isoywd_opt"); } },
            3 => { let d = any_date(); if let Some(n) = d.succ_opt() { assert!(d.succ() == n, "succ = succ_opt"); } },
            _ => { let d = any_date(); if let Some(n) = d.pred_opt() { assert!(d.pred() == n, "pred = pred_opt"); } },
        }
    }

    // ---- NaiveWeek::checked_days / days over the contracts of the two ends (Verus unit week) -------------------------------------------
    // one recorder static that begins with a magic word (Kani 0.68 aliases a `static mut` with any constant of equal bytes)
    struct WkRec { magic: u64, first: Option<NaiveDate>, last: Option<NaiveDate> }
    static mut WKREC: WkRec = WkRec { magic: 0xC0DE_5EED_D15C_000A, first: None, last: None };
    fn st_first_day(_w: &crate::naive::NaiveWeek) -> Option<NaiveDate> { unsafe { WKREC.first } }
    fn st_last_day(_w: &crate::naive::NaiveWeek) -> Option<NaiveDate> { unsafe { WKREC.last } }

    // fns: NaiveWeek::checked_days, NaiveWeek::days (the inclusive range between the two ends, None exactly when an end is out of range)
    // assumes: NaiveWeek::checked_first_day, NaiveWeek::checked_last_day
    #[kani::proof]
    #[kani::stub(crate::naive::NaiveWeek::checked_first_day, st_first_day)]
    #[kani::stub(crate::naive::NaiveWeek::checked_last_day, st_last_day)]
    fn vk_week_checked_days() {
        let f = if kani::any() { Some(any_date()) } else { None };
        let l = if kani::any() { Some(any_date()) } else { None };
        unsafe { WKREC.first = f; WKREC.last = l; }
        let w = any_date().week(any_wd());
        kani::cover!(f.is_none()); kani::cover!(f.is_some() && l.is_some());
        match w.checked_days() {
            Some(r) => { assert!(Some(*r.start()) == f && Some(*r.end()) == l, "from the first to the last day of the week, inclusive"); let r2 = w.days(); assert!(r2.start() == r.start() && r2.end() == r.end(), "days() = checked_days()"); }
            None => assert!(f.is_none() || l.is_none(), "None only when an end of the week is out of range"),
        }
    }
}
