// @append: src/naive/date/mod.rs
// C01 (and the date parts of C08/C15): packed-date kernel of NaiveDate against the calendar spec; full i32/u32 domains
#[cfg(kani)]
mod verif_kani_date {
    use super::*;
//@@COMMON@@
    use xs::*;

    /// Any value satisfying the representation invariant of NaiveDate (DESIGN 2.3 `wf`), and nothing more.
    pub(crate) fn any_date() -> NaiveDate {
        let year: i32 = kani::any();
        let ord: u32 = kani::any();
        kani::assume(year as i64 >= MIN_Y && year as i64 <= MAX_Y);
        kani::assume(ord >= 1 && ord as i64 <= year_len(year as i64));
        let flags = YearFlags::from_year(year);          // table proved by vk_year_flags_table
        NaiveDate { yof: NonZeroI32::new((year << 13) | ((ord as i32) << 4) | flags.0 as i32).unwrap() }
    }
    fn wf(d: NaiveDate) -> bool {
        let yof = d.yof.get();
        let (y, o, f) = (yof.div_euclid(8192), yof.rem_euclid(8192) / 16, yof.rem_euclid(16));
        y as i64 >= MIN_Y && y as i64 <= MAX_Y && o >= 1 && o as i64 <= year_len(y as i64) && f == YearFlags::from_year(y).0 as i32
    }

    // fns: NaiveDate::yof, NaiveDate::from_yof, NaiveDate::year, NaiveDate::ordinal, NaiveDate::year_flags, NaiveDate::leap_year (bit level, every non-zero i32)
    #[kani::proof]
    fn vk_date_bits() {
        let yof: i32 = kani::any();
        kani::assume(yof != 0);
        let d = NaiveDate { yof: NonZeroI32::new(yof).unwrap() };
        kani::cover!(yof < 0);
        assert!(d.yof() == yof);
        assert!(d.year() == yof.div_euclid(8192), "year() = floor(yof / 2^13)");
        assert!(d.ordinal() as i32 == yof.rem_euclid(8192) / 16, "ordinal() = bits 4..13");
        assert!(d.year_flags().0 as i32 == yof.rem_euclid(16), "year_flags() = low 4 bits");
        assert!(d.leap_year() == (yof.rem_euclid(16) & 8 == 0));
        // from_yof is the identity on the bits whenever its debug assertions hold
        let o = yof.rem_euclid(8192) / 16;
        if o >= 1 && o <= 366 && !(o == 366 && yof & 8 != 0) && yof & 7 != 0 {
            assert!(NaiveDate::from_yof(yof).yof() == yof, "from_yof(y).yof() == y");
        }
    }

    // fns: NaiveDate::MIN, NaiveDate::MAX, NaiveDate::BEFORE_MIN, NaiveDate::AFTER_MAX
    #[kani::proof]
    fn vk_date_consts() {
        assert!(MIN_YEAR as i64 == MIN_Y && MAX_YEAR as i64 == MAX_Y, "year range of the property text");
        assert!(wf(NaiveDate::MIN) && NaiveDate::MIN.year() as i64 == MIN_Y && NaiveDate::MIN.ordinal() == 1);
        assert!(wf(NaiveDate::MAX) && NaiveDate::MAX.year() as i64 == MAX_Y && NaiveDate::MAX.ordinal() as i64 == year_len(MAX_Y));
        let b = NaiveDate::BEFORE_MIN; let a = NaiveDate::AFTER_MAX;
        assert!(b.year() as i64 == MIN_Y - 1 && b.ordinal() as i64 == year_len(MIN_Y - 1) && b.year_flags().0 == YearFlags::from_year(b.year()).0, "BEFORE_MIN is the day before MIN");
        assert!(a.year() as i64 == MAX_Y + 1 && a.ordinal() == 1 && a.year_flags().0 == YearFlags::from_year(a.year()).0, "AFTER_MAX is the day after MAX");
    }

    // fns: NaiveDate::from_ordinal_and_flags
    #[kani::proof]
    fn vk_date_from_ordinal_and_flags() {
        let y: i32 = kani::any(); let o: u32 = kani::any();
        let r = NaiveDate::from_ordinal_and_flags(y, o, YearFlags::from_year(y));
        let valid = y as i64 >= MIN_Y && y as i64 <= MAX_Y && o >= 1 && o as i64 <= year_len(y as i64);
        kani::cover!(o == 366 && r.is_some()); kani::cover!(o == 366 && r.is_none() && y == 2023);
        assert!(r.is_some() == valid, "from_ordinal_and_flags: Some exactly for an existing ordinal of an in-range year");
        if let Some(d) = r { assert!(wf(d) && d.year() == y && d.ordinal() == o); }
    }

    // fns: NaiveDate::from_yo_opt
    #[kani::proof]
    fn vk_date_from_yo_opt() {
        let y: i32 = kani::any(); let o: u32 = kani::any();
        let r = NaiveDate::from_yo_opt(y, o);
        let valid = y as i64 >= MIN_Y && y as i64 <= MAX_Y && o >= 1 && o as i64 <= year_len(y as i64);
        kani::cover!(o == 366 && r.is_some());
        assert!(r.is_some() == valid, "from_yo_opt: Some exactly for the (year, ordinal) pairs that denote a date in range");
        if let Some(d) = r { assert!(wf(d) && d.year() == y && d.ordinal() == o); }
    }

    // fns: NaiveDate::from_ymd_opt, NaiveDate::from_mdf, NaiveDate::month, NaiveDate::day, NaiveDate::mdf
    #[kani::proof]
    fn vk_date_from_ymd_opt() {
        let y: i32 = kani::any(); let m: u32 = kani::any(); let d: u32 = kani::any();
        let r = NaiveDate::from_ymd_opt(y, m, d);
        let valid = y as i64 >= MIN_Y && y as i64 <= MAX_Y && ymd_valid(y as i64, m as i64, d as i64);
        kani::cover!(m == 2 && d == 29 && r.is_some()); kani::cover!(m == 2 && d == 29 && r.is_none() && y == 1900);
        assert!(r.is_some() == valid, "from_ymd_opt: Some exactly for existing calendar dates in range");
        if let Some(dt) = r {
            assert!(wf(dt) && dt.year() == y && dt.month() == m && dt.day() == d, "fields read back");
            assert!(dt.ordinal() as i64 == cum_days(y as i64, m as i64) + d as i64, "calendar and ordinal forms agree");
        }
    }

    // fns: NaiveDate::month, NaiveDate::day, NaiveDate::leap_year, Datelike::{year, month, month0, day, day0, ordinal, ordinal0} for NaiveDate
    #[kani::proof]
    fn vk_date_accessors() {
        let d = any_date();
        let (y, o) = (d.year() as i64, d.ordinal() as i64);
        let (m, dd) = (d.month() as i64, d.day() as i64);
        kani::cover!(o == 366); kani::cover!(y < 0);
        assert!(ymd_valid(y, m, dd) && cum_days(y, m) + dd == o, "month()/day() are the calendar form of the ordinal");
        assert!(Datelike::year(&d) as i64 == y && Datelike::month(&d) as i64 == m && Datelike::day(&d) as i64 == dd && Datelike::ordinal(&d) as i64 == o);
        assert!(d.month0() as i64 == m - 1 && d.day0() as i64 == dd - 1 && d.ordinal0() as i64 == o - 1);
        assert!(d.leap_year() == is_leap(y));
    }

    // fns: NaiveDate::weekday, Datelike::weekday for NaiveDate
    #[kani::proof]
    fn vk_date_weekday() {
        let d = any_date();
        let (y, o) = (d.year() as i64, d.ordinal() as i64);
        kani::cover!(d.weekday() == Weekday::Sun);
        assert!(wd_idx(d.weekday()) as i64 == weekday_yo(y, o), "weekday() agrees with the day count (reduced mod 400 years)");
        assert!(Datelike::weekday(&d) == d.weekday());
    }

    // fns: NaiveDate::from_ymd_opt, NaiveDate::from_yo_opt (uniqueness: the accessors of a date rebuild exactly that date)
    #[kani::proof]
    fn vk_date_forms_unique() {
        let d = any_date();
        assert!(NaiveDate::from_ymd_opt(d.year(), d.month(), d.day()) == Some(d), "one calendar form per date");
        assert!(NaiveDate::from_yo_opt(d.year(), d.ordinal()) == Some(d), "one ordinal form per date");
    }

    // fns: Datelike::iso_week for NaiveDate, IsoWeek::from_yof, IsoWeek::year, IsoWeek::week, IsoWeek::week0
    #[kani::proof]
    fn vk_date_iso_week() {
        let d = any_date();
        let w = d.iso_week();
        let (sy, sw) = iso(d.year() as i64, d.ordinal() as i64);
        kani::cover!(sw == 53); kani::cover!(sy != d.year() as i64);
        assert!(w.year() as i64 == sy && w.week() as i64 == sw, "iso_week() follows the Thursday rule (week 1 contains 4 January)");
        assert!(w.week0() + 1 == w.week());
    }

    // fns: NaiveDate::from_isoywd_opt (soundness, every i32 year / u32 week; iso_week() is the contract proved by vk_date_iso_week)
    #[kani::proof]
    fn vk_date_isoywd_sound() {
        let y: i32 = kani::any(); let w: u32 = kani::any(); let wd = any_wd();
        kani::cover!(w == 53); kani::cover!(y == i32::MIN);
        match NaiveDate::from_isoywd_opt(y, w, wd) {
            Some(d) => {
                assert!(wf(d), "result is a valid date");
                let iw = d.iso_week();
                assert!(iw.year() == y && iw.week() == w && d.weekday() == wd, "from_isoywd_opt returns the date with that ISO year, week and weekday");
            }
            None => {}
        }
    }

    // fns: NaiveDate::from_isoywd_opt (completeness: every date is reachable from its own ISO week date => None only when no date in range)
    #[kani::proof]
    fn vk_date_isoywd_complete() {
        let d = any_date();
        let w = d.iso_week();
        assert!(NaiveDate::from_isoywd_opt(w.year(), w.week(), d.weekday()) == Some(d), "from_isoywd_opt(iso_week(d), weekday(d)) == d");
    }

    // fns: derived Ord/PartialOrd/Eq for IsoWeek
    #[kani::proof]
    fn vk_isoweek_ord() {
        let a = any_date(); let b = any_date();
        let (wa, wb) = (a.iso_week(), b.iso_week());
        let ka = (wa.year(), wa.week()); let kb = (wb.year(), wb.week());
        kani::cover!(ka < kb);
        assert!((wa < wb) == (ka < kb) && (wa == wb) == (ka == kb), "IsoWeek compares as (iso year, week)");
        // chronological: an earlier date never has a later ISO week
        if (a.year(), a.ordinal()) <= (b.year(), b.ordinal()) { assert!(wa <= wb, "ISO weeks compare in chronological order"); }
    }

    // fns: NaiveDate::succ_opt, NaiveDate::pred_opt
    #[kani::proof]
    fn vk_date_succ_pred() {
        let d = any_date();
        kani::cover!(d.ordinal() == 366); kani::cover!(d == NaiveDate::MAX);
        match d.succ_opt() {
            Some(e) => {
                assert!(wf(e));
                if (d.ordinal() as i64) < year_len(d.year() as i64) { assert!(e.year() == d.year() && e.ordinal() == d.ordinal() + 1, "next ordinal"); }
                else { assert!(e.year() == d.year() + 1 && e.ordinal() == 1, "1 January of the next year"); }
                assert!(e.weekday() == d.weekday().succ(), "the successor has the next weekday");
                assert!(e.pred_opt() == Some(d), "pred_opt inverts succ_opt");
                assert!(d < e);
            }
            None => assert!(d.year() as i64 == MAX_Y && d.ordinal() as i64 == year_len(MAX_Y), "succ_opt is None only at MAX"),
        }
        match d.pred_opt() {
            Some(p) => { assert!(wf(p) && p.succ_opt() == Some(d), "succ_opt inverts pred_opt"); }
            None => assert!(d.year() as i64 == MIN_Y && d.ordinal() == 1, "pred_opt is None only at MIN"),
        }
    }

    // fns: derived Ord/PartialOrd/Eq/PartialEq for NaiveDate
    #[kani::proof]
    fn vk_date_ord_lex() {
        let a = any_date(); let b = any_date();
        let ka = (a.year(), a.ordinal()); let kb = (b.year(), b.ordinal());
        kani::cover!(a.year() < 0 && b.year() > 0);
        assert!((a < b) == (ka < kb) && (a == b) == (ka == kb) && (a <= b) == (ka <= kb), "date order is lexicographic (year, ordinal) = day-number order (Verus lemma dn_lex_mono)");
        assert!(a.cmp(&b) == ka.cmp(&kb));
    }
}
