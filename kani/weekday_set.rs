// @append: src/weekday_set.rs
// C19: WeekdaySet behaves like a mathematical set of at most seven weekdays (exhaustive-symbolic over all 128 masks)
#[cfg(kani)]
mod verif_kani_weekday_set {
    use super::*;
//@@COMMON@@
    use xs::*;

    fn any_set() -> WeekdaySet { let m: u8 = kani::any(); kani::assume(m < 128); WeekdaySet(m) }
    fn bit(d: Weekday) -> u8 { 1u8 << wd_idx(d) }
    fn popcount(m: u8) -> u8 { let mut c = 0; let mut i = 0; while i < 8 { if m & (1 << i) != 0 { c += 1; } i += 1; } c }

    // fns: WeekdaySet::{contains, single, union, intersection, difference, symmetric_difference, is_subset, len, is_empty, insert, remove, EMPTY, ALL}
    #[kani::proof]
    #[kani::unwind(9)]
    fn vk_wset_set_algebra() {
        let a = any_set(); let b = any_set(); let d = any_wd();
        kani::cover!(a.0 == 127); kani::cover!(a.0 == 0);
        // membership model: contains(d) <=> bit d
        assert!(a.contains(d) == (a.0 & bit(d) != 0), "contains");
        assert!(WeekdaySet::single(d).0 == bit(d), "single");
        assert!(a.union(b).0 == a.0 | b.0 && a.intersection(b).0 == a.0 & b.0, "union/intersection");
        assert!(a.difference(b).0 == a.0 & !b.0 && a.symmetric_difference(b).0 == a.0 ^ b.0, "difference/symmetric_difference");
        assert!(a.is_subset(b) == (a.0 & !b.0 == 0), "is_subset");
        assert!(a.len() == popcount(a.0) && a.is_empty() == (a.0 == 0), "len/is_empty");
        assert!(a.union(b).0 < 128 && a.difference(b).0 < 128 && a.symmetric_difference(b).0 < 128, "8th bit stays clear");
        let mut c = a; let was = c.insert(d);
        assert!(c.0 == a.0 | bit(d) && was == (a.0 & bit(d) == 0), "insert: set grows by d, reports whether it was new");
        let mut e = a; let had = e.remove(d);
        assert!(e.0 == a.0 & !bit(d) && had == (a.0 & bit(d) != 0), "remove: set shrinks by d, reports whether it was there");
        assert!(WeekdaySet::EMPTY.0 == 0 && WeekdaySet::ALL.0 == 127, "WeekdaySet::EMPTY.0 == 0 && WeekdaySet::ALL.0 == 127");
        assert!((a == b) == (a.0 == b.0), "(a == b) == (a.0 == b.0)");
    }

    // fns: WeekdaySet::{first, last, single_day, split_at}
    #[kani::proof]
    #[kani::unwind(9)]
    fn vk_wset_first_last_single() {
        let a = any_set(); let d = any_wd();
        kani::cover!(a.0 == 64);
        match a.first() {
            None => assert!(a.0 == 0, "a.0 == 0"),
            Some(f) => { assert!(a.0 & bit(f) != 0 && a.0 & (bit(f) - 1) == 0, "first is the lowest member from Monday"); }
        }
        match a.last() {
            None => assert!(a.0 == 0, "a.0 == 0"),
            Some(l) => { assert!(a.0 & bit(l) != 0 && (a.0 as u16) < (bit(l) as u16) << 1, "last is the highest member"); }
        }
        match a.single_day() {
            Some(s) => assert!(a.0 == bit(s), "single_day returns the only member"),
            None => assert!(popcount(a.0) != 1, "single_day is None unless exactly one member"),
        }
        let (before, after) = a.split_at(d);
        assert!(before.0 == a.0 & (bit(d) - 1) && after.0 == a.0 & !(bit(d) - 1) & 127, "split_at partitions at d");
    }

    // fns: WeekdaySet::iter, WeekdaySetIter::next, ExactSizeIterator::len
    #[kani::proof]
    #[kani::unwind(9)]
    fn vk_wset_iter_forward() {
        let a = any_set(); let start = any_wd();
        kani::cover!(a.0 == 127 && wd_idx(start) == 3);
        let mut it = a.iter(start);
        let mut k: u8 = 0;                       // offset from start of the next candidate
        let mut steps = 0;
        while steps < 8 {
            assert!(ExactSizeIterator::len(&it) as u8 == popcount(it.days.0), "len is exact");
            match it.next() {
                Some(w) => {
                    // w is the first member at cyclic offset >= k from start
                    let off = (wd_idx(w) + 7 - wd_idx(start)) % 7;
                    assert!(a.0 & bit(w) != 0 && off >= k, "yields members in cyclic order from start");
                    let mut j = k;
                    while j < off { assert!(a.0 & (1 << ((wd_idx(start) + j) % 7)) == 0, "skips no member"); j += 1; }
                    k = off + 1;
                }
                None => {
                    let mut j = k;
                    while j < 7 { assert!(a.0 & (1 << ((wd_idx(start) + j) % 7)) == 0, "ends only when exhausted"); j += 1; }
                    assert!(it.next().is_none(), "fused");
                    return;
                }
            }
            steps += 1;
        }
        assert!(false, "at most 7 items");
    }

    // fns: WeekdaySetIter::next_back
    #[kani::proof]
    #[kani::unwind(9)]
    fn vk_wset_iter_backward() {
        let a = any_set(); let start = any_wd();
        kani::cover!(a.0 == 127 && wd_idx(start) == 3);
        let mut it = a.iter(start);
        let mut k: u8 = 0;                       // offsets start+6-k .. have been passed
        let mut steps = 0;
        while steps < 8 {
            match it.next_back() {
                Some(w) => {
                    let off = (wd_idx(w) + 7 - wd_idx(start)) % 7;     // 0..=6, we come down from 6
                    let back = 6 - off;
                    assert!(a.0 & bit(w) != 0 && back >= k, "next_back yields members in reverse cyclic order");
                    let mut j = k;
                    while j < back { assert!(a.0 & (1 << ((wd_idx(start) + 6 - j) % 7)) == 0, "skips no member"); j += 1; }
                    k = back + 1;
                }
                None => {
                    let mut j = k;
                    while j < 7 { assert!(a.0 & (1 << ((wd_idx(start) + 6 - j) % 7)) == 0, "ends only when exhausted"); j += 1; }
                    return;
                }
            }
            steps += 1;
        }
        assert!(false, "at most 7 items");
    }

    // fns: WeekdaySetIter::next + next_back interleaved
    #[kani::proof]
    #[kani::unwind(9)]
    fn vk_wset_iter_mixed() {
        let a = any_set(); let start = any_wd();
        let mut it = a.iter(start);
        let mut seen: u8 = 0;
        let mut lo: i8 = -1;      // largest offset yielded from the front
        let mut hi: i8 = 7;       // smallest offset yielded from the back
        let mut steps = 0;
        while steps < 8 {
            let front: bool = kani::any();
            let r = if front { it.next() } else { it.next_back() };
            match r {
                Some(w) => {
                    let off = ((wd_idx(w) + 7 - wd_idx(start)) % 7) as i8;
                    assert!(a.0 & bit(w) != 0, "yields only members");
                    assert!(seen & bit(w) == 0, "never yields a day twice");
                    assert!(off > lo && off < hi, "front and back cursors never cross");
                    if front { lo = off; } else { hi = off; }
                    seen |= bit(w);
                }
                None => { assert!(seen == a.0, "visits each member exactly once"); return; }
            }
            steps += 1;
        }
        assert!(false, "at most 7 items");
    }

    // fns: WeekdaySet::from_array
    #[kani::proof]
    #[kani::unwind(9)]
    fn vk_wset_from_array() {
        let d = [any_wd(), any_wd(), any_wd(), any_wd(), any_wd(), any_wd(), any_wd()];
        let s7 = WeekdaySet::from_array(d);
        assert!(s7.0 == bit(d[0]) | bit(d[1]) | bit(d[2]) | bit(d[3]) | bit(d[4]) | bit(d[5]) | bit(d[6]), "from_array is the union of its elements");
        let s2 = WeekdaySet::from_array([d[0], d[1]]);
        assert!(s2.0 == bit(d[0]) | bit(d[1]), "s2.0 == bit(d[0]) | bit(d[1])");
        assert!(WeekdaySet::from_array([]).0 == 0, "WeekdaySet::from_array([]).0 == 0");
    }
}
