// @append: src/time_delta.rs
// C06: the derived PartialOrd/Ord/PartialEq on TimeDelta is lexicographic (secs, nanos); together with the Verus lemma
// td_ord_is_numeric (units/timedelta.py) this is "comparison agrees with numeric order".
#[cfg(kani)]
mod verif_kani_time_delta {
    use super::*;

    // fns: TimeDelta::cmp, TimeDelta::partial_cmp, TimeDelta::eq
    #[kani::proof]
    fn vk_td_derived_ord() {
        let a = TimeDelta { secs: kani::any(), nanos: kani::any() };
        let b = TimeDelta { secs: kani::any(), nanos: kani::any() };
        kani::cover!(a.secs == b.secs && a.nanos < b.nanos, "tie on seconds");
        let lex_lt = a.secs < b.secs || (a.secs == b.secs && a.nanos < b.nanos);
        let lex_eq = a.secs == b.secs && a.nanos == b.nanos;
        assert!((a < b) == lex_lt, "derived < is lexicographic on (secs, nanos)");
        assert!((a == b) == lex_eq, "derived == compares both fields");
        assert!((a.cmp(&b) == core::cmp::Ordering::Less) == lex_lt && (a.cmp(&b) == core::cmp::Ordering::Equal) == lex_eq, "(a.cmp(&b) == core::cmp::Ordering::Less) == lex_lt && (a.cmp(&b) == co");
        assert!(a.partial_cmp(&b) == Some(a.cmp(&b)), "a.partial_cmp(&b) == Some(a.cmp(&b))");
    }
}
