// @append: src/offset/local/tz_info/timezone.rs
// C05/C16 (BOUNDED stand-ins, tables of at most 2 transitions / 3 types): instant -> type lookup, exact gap/fold classification
// of wall-clock times, validate() => well-formedness.  The unbounded soundness proof of the table scan is in units/tz.py (Verus).
#[cfg(kani)]
mod verif_kani_tz {
    use super::*;
    use crate::{MappedLocalTime, NaiveDate, NaiveTime};

    const N: usize = 2;
    fn any_ltt() -> LocalTimeType {
        let o: i32 = kani::any();
        kani::assume(o > -90000 && o < 90000);
        LocalTimeType { ut_offset: o, is_dst: kani::any(), name: None }
    }
    struct Z { tr: [Transition; N], n: usize, lt: [LocalTimeType; 3] }
    fn any_table(lo: i64, hi: i64) -> Z {
        let t0: i64 = kani::any(); let t1: i64 = kani::any();
        kani::assume(t0 >= lo && t0 <= hi && t1 >= lo && t1 <= hi);
        let i0: usize = kani::any(); let i1: usize = kani::any();
        let n: usize = kani::any();
        kani::assume(n <= N);
        Z { tr: [Transition { unix_leap_time: t0, local_time_type_index: i0 }, Transition { unix_leap_time: t1, local_time_type_index: i1 }], n, lt: [any_ltt(), any_ltt(), any_ltt()] }
    }
    fn wf(z: &Z) -> bool {
        let mut ok = true;
        let mut i = 0;
        while i < z.n { if z.tr[i].local_time_type_index >= 3 { ok = false; } if i + 1 < z.n && z.tr[i].unix_leap_time >= z.tr[i + 1].unix_leap_time { ok = false; } i += 1; }
        ok
    }
    fn ty(z: &Z, k: usize) -> LocalTimeType { if k == 0 { z.lt[0] } else { z.lt[z.tr[k - 1].local_time_type_index] } }

    // fns: TimeZoneRef::validate (bounded: <= 2 transitions, 3 types, no leap seconds, no footer rule)
    #[kani::proof]
    #[kani::unwind(4)]
    fn vk_tz_validate_bounded() {
        let z = any_table(i64::MIN, i64::MAX);
        let nt: usize = kani::any();
        kani::assume(nt <= 3);
        let r = TimeZoneRef { transitions: &z.tr[..z.n], local_time_types: &z.lt[..nt], leap_seconds: &[], extra_rule: &None }.validate();
        let mut want = nt > 0;
        let mut i = 0;
        while i < z.n { if z.tr[i].local_time_type_index >= nt { want = false; } if i + 1 < z.n && z.tr[i].unix_leap_time >= z.tr[i + 1].unix_leap_time { want = false; } i += 1; }
        kani::cover!(r.is_ok() && z.n == 2); kani::cover!(r.is_err() && nt > 0);
        assert!(r.is_ok() == want, "validate accepts exactly non-empty types, in-bounds type indices and strictly increasing transition times");
    }

    // fns: TimeZoneRef::find_local_time_type, TimeZoneRef::unix_time_to_unix_leap_time (bounded: <= 2 transitions, no leap seconds, no footer rule; every i64 instant)
    #[kani::proof]
    #[kani::unwind(5)]
    fn vk_tz_find_type_bounded() {
        let z = any_table(i64::MIN, i64::MAX);
        kani::assume(wf(&z));
        let t: i64 = kani::any();
        let zr = TimeZoneRef { transitions: &z.tr[..z.n], local_time_types: &z.lt[..], leap_seconds: &[], extra_rule: &None };
        let mut k = 0;
        let mut i = 0;
        while i < z.n { if z.tr[i].unix_leap_time <= t { k = i + 1; } i += 1; }
        kani::cover!(z.n == 2 && k == 1); kani::cover!(z.n == 2 && k == 2); kani::cover!(k == 0 && z.n > 0);
        match zr.find_local_time_type(t) {
            Ok(l) => assert!(*l == ty(&z, k), "offset for an instant = type of the last transition at or before it (first type before the first transition)"),
            Err(_) => assert!(false, "a lookup on an accepted zone does not fail"),
        }
    }

    // fns: TimeZoneRef::find_local_time_type_from_local (bounded: <= 2 transitions within +/- 3 days of the epoch, wall-clock times on 1970-01-01..03; exact classification)
    #[kani::proof]
    #[kani::unwind(5)]
    fn vk_tz_from_local_classify_bounded() {
        let z = any_table(-300_000, 300_000);
        kani::assume(wf(&z));
        // separation hypothesis of the property's zone models: a repeated/skipped hour ends before the next transition
        if z.n == 2 { kani::assume(z.tr[0].unix_leap_time + 200_000 < z.tr[1].unix_leap_time); }
        let day: u32 = kani::any(); let secs: u32 = kani::any();
        kani::assume(day >= 1 && day <= 3 && secs < 86400);
        let local_dt = NaiveDate::from_ymd_opt(1970, 1, day).unwrap().and_time(NaiveTime::from_num_seconds_from_midnight_opt(secs, 0).unwrap());
        let local: i64 = (day as i64 - 1) * 86400 + secs as i64;
        let zr = TimeZoneRef { transitions: &z.tr[..z.n], local_time_types: &z.lt[..], leap_seconds: &[], extra_rule: &None };
        // which intervals k (0..=n) make `local` a wall-clock reading of an instant they govern; is `local` a boundary second?
        let mut cnt = 0; let mut first: usize = 9; let mut second: usize = 9; let mut boundary = false;
        let mut k = 0;
        while k <= z.n {
            let o = ty(&z, k).ut_offset as i64;
            let u = local - o;
            let lo_ok = k == 0 || z.tr[k - 1].unix_leap_time <= u;
            let hi_ok = k == z.n || u < z.tr[k].unix_leap_time;
            if lo_ok && hi_ok { if cnt == 0 { first = k; } else { second = k; } cnt += 1; }
            // the single boundary second that ends a skipped or repeated interval (only transitions that change the offset have one)
            if k < z.n && o != ty(&z, k + 1).ut_offset as i64 && local == z.tr[k].unix_leap_time + o { boundary = true; }      // transition time read with the offset in effect before it
            k += 1;
        }
        let r = zr.find_local_time_type_from_local(local_dt);
        kani::cover!(cnt == 0 && !boundary); kani::cover!(cnt == 2 && !boundary); kani::cover!(cnt == 1 && z.n == 2); kani::cover!(z.n >= 1 && ty(&z, 0).ut_offset == ty(&z, 1).ut_offset && local == z.tr[0].unix_leap_time + ty(&z, 0).ut_offset as i64, "same-offset transition second");
        match r {
            Err(_) => assert!(false, "a lookup on an accepted zone does not fail"),
            Ok(m) => if !boundary {
                match m {
                    MappedLocalTime::None => assert!(cnt == 0, "None only strictly inside a skipped interval"),
                    MappedLocalTime::Single(a) => assert!(cnt == 1 && a == ty(&z, first), "a wall-clock time that occurs once yields that single result"),
                    MappedLocalTime::Ambiguous(a, b) => assert!(cnt == 2 && a == ty(&z, first) && b == ty(&z, second) && a.ut_offset > b.ut_offset, "a repeated wall-clock time yields both instants, earliest first"),
                }
            },
        }
    }
}
