// @append: src/datetime/mod.rs
// C04: zone-aware date-times (FixedOffset / Utc): one instant, many wall clocks.  The exactness of the offset shift itself
// (wall = utc + offset, including the one-day headroom at the range ends) is proved by Verus in units/datetime.py.
#[cfg(kani)]
mod verif_kani_datetime {
    use super::*;
    use crate::{FixedOffset, NaiveDate, NaiveDateTime, NaiveTime, TimeZone, Datelike, Timelike, MappedLocalTime, Utc, Offset};
    use core::hash::{Hash, Hasher};

    fn any_offset() -> FixedOffset {
        let s: i32 = kani::any();
        kani::assume(s > -86400 && s < 86400);
        FixedOffset::east_opt(s).unwrap()
    }
    fn any_ndt() -> NaiveDateTime {
        let d = NaiveDate::from_yo_opt(kani::any(), kani::any());      // every valid date (vk_date_from_yo_opt)
        kani::assume(d.is_some());
        let t = NaiveTime::from_num_seconds_from_midnight_opt(kani::any(), kani::any());
        kani::assume(t.is_some());
        NaiveDateTime::new(d.unwrap(), t.unwrap())
    }
    struct Rec { acc: u64, n: u32 }
    impl Hasher for Rec {
        fn finish(&self) -> u64 { self.acc }
        fn write(&mut self, bytes: &[u8]) { let mut i = 0; while i < bytes.len() { self.acc = self.acc.wrapping_mul(257).wrapping_add(bytes[i] as u64); self.n += 1; i += 1; } }
    }

    // fns: FixedOffset::east_opt, FixedOffset::west_opt, FixedOffset::local_minus_utc, FixedOffset::utc_minus_local, Offset::fix for FixedOffset
    #[kani::proof]
    fn vk_fixed_offset_ctor() {
        let s: i32 = kani::any();
        kani::cover!(s == 86399); kani::cover!(s == i32::MIN);
        match FixedOffset::east_opt(s) {
            Some(o) => assert!(s > -86400 && s < 86400 && o.local_minus_utc() == s && o.utc_minus_local() == -s && o.fix() == o, "east_opt keeps the offset"),
            None => assert!(s <= -86400 || s >= 86400, "east_opt refuses only |s| >= 24h"),
        }
        match FixedOffset::west_opt(s) {
            Some(o) => assert!(s > -86400 && s < 86400 && o.local_minus_utc() == -s, "west_opt negates"),
            None => assert!(s <= -86400 || s >= 86400, "west_opt refuses only |s| >= 24h"),
        }
    }

    // fns: PartialEq/Eq/PartialOrd/Ord/Hash for DateTime<Tz> (depend only on the UTC field)
    #[kani::proof]
    #[kani::unwind(9)]
    fn vk_dt_eq_ord_hash() {
        let u = any_ndt(); let v = any_ndt();
        let a = any_offset().from_utc_datetime(&u);
        let b = any_offset().from_utc_datetime(&v);
        kani::cover!(u == v && a.offset() != b.offset());
        assert!((a == b) == (u == v), "equality depends only on the instant");
        assert!(a.cmp(&b) == u.cmp(&v) && a.partial_cmp(&b) == Some(u.cmp(&v)), "ordering depends only on the instant");
        if u == v {
            let mut h1 = Rec { acc: 0, n: 0 }; let mut h2 = Rec { acc: 0, n: 0 };
            a.hash(&mut h1); b.hash(&mut h2);
            assert!(h1.acc == h2.acc && h1.n == h2.n, "hashing depends only on the instant");
        }
    }

    // fns: TimeZone::from_utc_datetime for FixedOffset/Utc, DateTime::{naive_utc, offset, timezone, with_timezone, fixed_offset, to_utc, from_naive_utc_and_offset}
    #[kani::proof]
    fn vk_dt_from_utc_conversions() {
        let u = any_ndt(); let o = any_offset(); let o2 = any_offset();
        let dt = o.from_utc_datetime(&u);
        assert!(dt.naive_utc() == u && *dt.offset() == o && dt.timezone() == o, "building from UTC and reading UTC back is the identity");
        assert!(dt.with_timezone(&o2).naive_utc() == u && *dt.with_timezone(&o2).offset() == o2, "converting to another zone never changes the instant");
        assert!(dt.with_timezone(&Utc).naive_utc() == u && dt.to_utc().naive_utc() == u && dt.fixed_offset().naive_utc() == u && *dt.fixed_offset().offset() == o, "dt.with_timezone(&Utc).naive_utc() == u && dt.to_utc().naive_utc() == ");
        assert!(Utc.from_utc_datetime(&u).naive_utc() == u, "Utc.from_utc_datetime(&u).naive_utc() == u");
        assert!(dt.overflowing_naive_local() == u.overflowing_add_offset(o), "wall clock = UTC shifted by the offset");
    }

    // fns: TimeZone::from_local_datetime for FixedOffset, DateTime::naive_local
    #[kani::proof]
    fn vk_dt_from_local() {
        let l = any_ndt(); let o = any_offset();
        kani::cover!(l.checked_sub_offset(o).is_none());
        match o.from_local_datetime(&l) {
            MappedLocalTime::Single(dt) => {
                assert!(Some(dt.naive_utc()) == l.checked_sub_offset(o) && *dt.offset() == o, "instant = wall clock minus offset");
                assert!(dt.naive_utc().checked_add_offset(o) == Some(l), "reading the wall clock back is the identity");
            }
            MappedLocalTime::None => assert!(l.checked_sub_offset(o).is_none(), "fails only when the UTC reading leaves the range"),
            MappedLocalTime::Ambiguous(_, _) => assert!(false, "a fixed offset is never ambiguous"),
        }
    }

    // fns: Datelike::{year, month, month0, day, day0, ordinal, ordinal0} for DateTime<Tz> (act on the wall-clock reading, also up to a day beyond the nominal range)
    #[kani::proof]
    fn vk_dt_wallclock_date_getters() {
        let u = any_ndt(); let o = any_offset();
        let dt = o.from_utc_datetime(&u);
        let w = u.overflowing_add_offset(o);          // wall clock (exactness: Verus, NaiveDateTime::overflowing_add_offset)
        kani::cover!(w.date() == NaiveDate::AFTER_MAX); kani::cover!(w.date() == NaiveDate::BEFORE_MIN);
        assert!(dt.year() == w.date().year() && dt.month() == w.date().month() && dt.month0() == w.date().month0() && dt.day() == w.date().day() && dt.day0() == w.date().day0(), "dt.year() == w.date().year() && dt.month() == w.date().month() && dt.m");
        assert!(dt.ordinal() == w.date().ordinal() && dt.ordinal0() == w.date().ordinal0(), "dt.ordinal() == w.date().ordinal() && dt.ordinal0() == w.date().ordina");
    }

    // fns: Datelike::{weekday, iso_week} for DateTime<Tz>
    #[kani::proof]
    fn vk_dt_wallclock_week_getters() {
        let u = any_ndt(); let o = any_offset();
        let dt = o.from_utc_datetime(&u);
        let w = u.overflowing_add_offset(o);
        assert!(dt.weekday() == w.date().weekday() && dt.iso_week() == w.date().iso_week(), "dt.weekday() == w.date().weekday() && dt.iso_week() == w.date().iso_we");
    }

    // fns: Timelike::{hour, minute, second, nanosecond} for DateTime<Tz>, DateTime::time
    #[kani::proof]
    fn vk_dt_wallclock_time_getters() {
        let u = any_ndt(); let o = any_offset();
        let dt = o.from_utc_datetime(&u);
        let w = u.overflowing_add_offset(o);
        kani::cover!(w.time().nanosecond() >= 1_000_000_000);
        assert!(dt.hour() == w.time().hour() && dt.minute() == w.time().minute() && dt.second() == w.time().second() && dt.nanosecond() == w.time().nanosecond(), "dt.hour() == w.time().hour() && dt.minute() == w.time().minute() && dt");
        assert!(dt.time() == w.time(), "dt.time() == w.time()");
    }
}
