// @append: src/datetime/mod.rs
// C04: zone-aware date-times (FixedOffset / Utc): one instant, many wall clocks.  The exactness of the offset shift itself
// (wall = utc + offset, including the one-day headroom at the range ends) is proved by Verus in units/datetime.py.
#[cfg(kani)]
mod verif_kani_datetime {
    use super::*;
    use crate::{FixedOffset, NaiveDate, NaiveDateTime, NaiveTime, TimeZone, Datelike, Timelike, MappedLocalTime, Utc, Offset};
    use core::hash::{Hash, Hasher};

    fn any_offset() -> FixedOffset {
        let s: i32 = kani::any();
        kani::assume(s > -86400 && s < 86400);
        FixedOffset::east_opt(s).unwrap()
    }
    fn any_ndt() -> NaiveDateTime {
        let d = NaiveDate::from_yo_opt(kani::any(), kani::any());      // every valid date (vk_date_from_yo_opt)
        kani::assume(d.is_some());
        let t = NaiveTime::from_num_seconds_from_midnight_opt(kani::any(), kani::any());
        kani::assume(t.is_some());
        NaiveDateTime::new(d.unwrap(), t.unwrap())
    }
    struct Rec { acc: u64, n: u32 }
    impl Hasher for Rec {
        fn finish(&self) -> u64 { self.acc }
        fn write(&mut self, bytes: &[u8]) { let mut i = 0; while i < bytes.len() { self.acc = self.acc.wrapping_mul(257).wrapping_add(bytes[i] as u64); self.n += 1; i += 1; } }
    }

    // fns: FixedOffset::east_opt, FixedOffset::west_opt, FixedOffset::local_minus_utc, FixedOffset::utc_minus_local, Offset::fix for FixedOffset
    #[kani::proof]
    fn vk_fixed_offset_ctor() {
        let s: i32 = kani::any();
        kani::cover!(s == 86399); kani::cover!(s == i32::MIN);
        match FixedOffset::east_opt(s) {
            Some(o) => assert!(s > -86400 && s < 86400 && o.local_minus_utc() == s && o.utc_minus_local() == -s && o.fix() == o, "east_opt keeps the offset"),
            None => assert!(s <= -86400 || s >= 86400, "east_opt refuses only |s| >= 24h"),
        }
        match FixedOffset::west_opt(s) {
            Some(o) => assert!(s > -86400 && s < 86400 && o.local_minus_utc() == -s, "west_opt negates"),
            None => assert!(s <= -86400 || s >= 86400, "west_opt refuses only |s| >= 24h"),
        }
    }

    // fns: PartialEq/Eq/PartialOrd/Ord/Hash for DateTime<Tz> (depend only on the UTC field)
    #[kani::proof]
    #[kani::unwind(9)]
    fn vk_dt_eq_ord_hash() {
        let u = any_ndt(); let v = any_ndt();
        let a = any_offset().from_utc_datetime(&u);
        let b = any_offset().from_utc_datetime(&v);
        kani::cover!(u == v && a.offset() != b.offset());
        assert!((a == b) == (u == v), "equality depends only on the instant");
        assert!(a.cmp(&b) == u.cmp(&v) && a.partial_cmp(&b) == Some(u.cmp(&v)), "ordering depends only on the instant");
        if u == v {
            let mut h1 = Rec { acc: 0, n: 0 }; let mut h2 = Rec { acc: 0, n: 0 };
            a.hash(&mut h1); b.hash(&mut h2);
            assert!(h1.acc == h2.acc && h1.n == h2.n, "hashing depends only on the instant");
        }
    }

    // fns: TimeZone::from_utc_datetime for FixedOffset/Utc, DateTime::{naive_utc, offset, timezone, with_timezone, fixed_offset, to_utc, from_naive_utc_and_offset}
    #[kani::proof]
    fn vk_dt_from_utc_conversions() {
        let u = any_ndt(); let o = any_offset(); let o2 = any_offset();
        let dt = o.from_utc_datetime(&u);
        assert!(dt.naive_utc() == u && *dt.offset() == o && dt.timezone() == o, "building from UTC and reading UTC back is the identity");
        assert!(dt.with_timezone(&o2).naive_utc() == u && *dt.with_timezone(&o2).offset() == o2, "converting to another zone never changes the instant");
        assert!(dt.with_timezone(&Utc).naive_utc() == u && dt.to_utc().naive_utc() == u && dt.fixed_offset().naive_utc() == u && *dt.fixed_offset().offset() == o, "dt.with_timezone(&Utc).naive_utc() == u && dt.to_utc().naive_utc() == ");
        assert!(Utc.from_utc_datetime(&u).naive_utc() == u, "Utc.from_utc_datetime(&u).naive_utc() == u");
        assert!(dt.overflowing_naive_local() == u.overflowing_add_offset(o), "wall clock = UTC shifted by the offset");
    }

    // fns: TimeZone::from_local_datetime for FixedOffset, DateTime::naive_local
    #[kani::proof]
    fn vk_dt_from_local() {
        let l = any_ndt(); let o = any_offset();
        kani::cover!(l.checked_sub_offset(o).is_none());
        match o.from_local_datetime(&l) {
            MappedLocalTime::Single(dt) => {
                assert!(Some(dt.naive_utc()) == l.checked_sub_offset(o) && *dt.offset() == o, "instant = wall clock minus offset");
                assert!(dt.naive_utc().checked_add_offset(o) == Some(l), "reading the wall clock back is the identity");
            }
            MappedLocalTime::None => assert!(l.checked_sub_offset(o).is_none(), "fails only when the UTC reading leaves the range"),
            MappedLocalTime::Ambiguous(_, _) => assert!(false, "a fixed offset is never ambiguous"),
        }
    }

    // fns: Datelike::{year, month, month0, day, day0, ordinal, ordinal0} for DateTime<Tz> (act on the wall-clock reading, also up to a day beyond the nominal range)
    #[kani::proof]
    fn vk_dt_wallclock_date_getters() {
        let u = any_ndt(); let o = any_offset();
        let dt = o.from_utc_datetime(&u);
        let w = u.overflowing_add_offset(o);          // wall clock (exactness: Verus, NaiveDateTime::overflowing_add_offset)
        kani::cover!(w.date() == NaiveDate::AFTER_MAX); kani::cover!(w.date() == NaiveDate::BEFORE_MIN);
        assert!(dt.year() == w.date().year() && dt.month() == w.date().month() && dt.month0() == w.date().month0() && dt.day() == w.date().day() && dt.day0() == w.date().day0(), "dt.year() == w.date().year() && dt.month() == w.date().month() && dt.m");
        assert!(dt.ordinal() == w.date().ordinal() && dt.ordinal0() == w.date().ordinal0(), "dt.ordinal() == w.date().ordinal() && dt.ordinal0() == w.date().ordina");
    }

    // fns: Datelike::{weekday, iso_week} for DateTime<Tz>
    #[kani::proof]
    fn vk_dt_wallclock_week_getters() {
        let u = any_ndt(); let o = any_offset();
        let dt = o.from_utc_datetime(&u);
        let w = u.overflowing_add_offset(o);
        assert!(dt.weekday() == w.date().weekday() && dt.iso_week() == w.date().iso_week(), "dt.weekday() == w.date().weekday() && dt.iso_week() == w.date().iso_we");
    }

    // fns: Timelike::{hour, minute, second, nanosecond} for DateTime<Tz>, DateTime::time
    #[kani::proof]
    fn vk_dt_wallclock_time_getters() {
        let u = any_ndt(); let o = any_offset();
        let dt = o.from_utc_datetime(&u);
        let w = u.overflowing_add_offset(o);
        kani::cover!(w.time().nanosecond() >= 1_000_000_000);
        assert!(dt.hour() == w.time().hour() && dt.minute() == w.time().minute() && dt.second() == w.time().second() && dt.nanosecond() == w.time().nanosecond(), "dt.hour() == w.time().hour() && dt.minute() == w.time().minute() && dt");
        assert!(dt.time() == w.time(), "dt.time() == w.time()");
    }

    // ------------------------------------------------------------------------------------------
    // field replacement, time replacement and month stepping of a zone-aware date-time act on the wall-clock reading (map_local)
    fn in_range(u: &NaiveDateTime) -> bool { *u >= NaiveDateTime::MIN && *u <= NaiveDateTime::MAX }
    /// re-anchor a new wall-clock reading in the same fixed offset: instant = wall - offset, which must stay in range
    fn back(w: Option<NaiveDateTime>, o: FixedOffset) -> Option<NaiveDateTime> { match w { Some(w) => match w.checked_sub_offset(o) { Some(u) if in_range(&u) => Some(u), _ => None }, None => None } }

    // fns: DateTime::with_time, TimeZone::from_local_datetime for FixedOffset
    #[kani::proof]
    fn vk_dt_with_time() {
        let u = any_ndt(); let o = any_offset();
        let t = NaiveTime::from_num_seconds_from_midnight_opt(kani::any(), kani::any());
        kani::assume(t.is_some());
        let dt = o.from_utc_datetime(&u);
        let wall_date = u.overflowing_add_offset(o).date();
        kani::cover!(wall_date != u.date(), "wall-clock date differs from the UTC date");
        let want = match wall_date.and_time(t.unwrap()).checked_sub_offset(o) { Some(x) => Some(x), None => None };
        match dt.with_time(t.unwrap()) {
            MappedLocalTime::Single(r) => assert!(Some(r.naive_utc()) == want && *r.offset() == o, "with_time puts the new time on the wall-clock date and keeps the offset"),
            MappedLocalTime::None => assert!(want.is_none(), "with_time fails only when the instant leaves the range"),
            MappedLocalTime::Ambiguous(_, _) => assert!(false, "a fixed offset is never ambiguous"),
        }
    }

    fn dt_with_date_field(lo: u8, hi: u8) {
        let u = any_ndt(); let o = any_offset();
        let dt = o.from_utc_datetime(&u);
        let w = u.overflowing_add_offset(o);
        let v: u32 = kani::any(); let y: i32 = kani::any();
        let which: u8 = kani::any();
        kani::assume(which >= lo && which <= hi);
        let (got, want) = match which {
            0 => (dt.with_year(y), w.with_year(y)),
            1 => (dt.with_month(v), w.with_month(v)),
            2 => (dt.with_month0(v), w.with_month0(v)),
            3 => (dt.with_day(v), w.with_day(v)),
            4 => (dt.with_day0(v), w.with_day0(v)),
            5 => (dt.with_ordinal(v), w.with_ordinal(v)),
            _ => (dt.with_ordinal0(v), w.with_ordinal0(v)),
        };
        kani::cover!(got.is_some(), "a field replaced"); kani::cover!(got.is_none(), "a replacement refused");
        match (got, back(want, o)) {
            (Some(g), Some(x)) => assert!(g.naive_utc() == x && *g.offset() == o, "the field is replaced on the wall-clock reading, the offset is kept"),
            (None, None) => {}
            _ => assert!(false, "replacement succeeds exactly when the new wall-clock reading exists and its instant is in range"),
        }
    }
    // fns: Datelike::with_year for DateTime<Tz>, map_local
    #[kani::proof]
    fn vk_dt_with_year() { dt_with_date_field(0, 0); }
    // fns: Datelike::{with_month, with_month0} for DateTime<Tz>, map_local
    #[kani::proof]
    fn vk_dt_with_month() { dt_with_date_field(1, 2); }
    // fns: Datelike::{with_day, with_day0} for DateTime<Tz>, map_local
    #[kani::proof]
    fn vk_dt_with_day() { dt_with_date_field(3, 4); }
    // fns: Datelike::{with_ordinal, with_ordinal0} for DateTime<Tz>, map_local
    #[kani::proof]
    fn vk_dt_with_ordinal() { dt_with_date_field(5, 6); }

    // fns: Timelike::{with_hour, with_minute, with_second, with_nanosecond} for DateTime<Tz>, map_local
    #[kani::proof]
    fn vk_dt_with_time_fields() {
        let u = any_ndt(); let o = any_offset();
        let dt = o.from_utc_datetime(&u);
        let w = u.overflowing_add_offset(o);
        let v: u32 = kani::any();
        let which: u8 = kani::any();
        kani::assume(which < 4);
        let (got, want) = match which {
            0 => (dt.with_hour(v), w.with_hour(v)),
            1 => (dt.with_minute(v), w.with_minute(v)),
            2 => (dt.with_second(v), w.with_second(v)),
            _ => (dt.with_nanosecond(v), w.with_nanosecond(v)),
        };
        kani::cover!(got.is_some() && which == 0, "an hour replaced");
        match (got, back(want, o)) {
            (Some(g), Some(x)) => assert!(g.naive_utc() == x && *g.offset() == o, "the field is replaced on the wall-clock reading, the offset is kept"),
            (None, None) => {}
            _ => assert!(false, "replacement succeeds exactly when the new wall-clock reading exists and its instant is in range"),
        }
    }

    // fns: DateTime::checked_add_months, DateTime::checked_sub_months
    #[kani::proof]
    fn vk_dt_months() {
        let u = any_ndt(); let o = any_offset();
        let dt = o.from_utc_datetime(&u);
        let w = u.overflowing_add_offset(o);
        let n: u32 = kani::any(); let add: bool = kani::any();
        let m = crate::Months::new(n);
        let (got, want) = if add { (dt.checked_add_months(m), w.checked_add_months(m)) } else { (dt.checked_sub_months(m), w.checked_sub_months(m)) };
        kani::cover!(got.is_some() && n > 0 && w.date() != u.date(), "stepping months where the wall-clock date differs from the UTC date");
        if n == 0 { assert!(got.map(|g| g.naive_utc()) == Some(u), "Months(0) is the identity"); }
        else { match (got, match want { Some(x) => x.checked_sub_offset(o), None => None }) {
            (Some(g), Some(x)) => assert!(g.naive_utc() == x && *g.offset() == o, "month stepping acts on the wall-clock reading"),
            (None, None) => {}
            _ => assert!(false, "month stepping succeeds exactly when the wall-clock result exists and its instant is representable"),
        } }
    }
}
