// @append: src/datetime/mod.rs
// C04: zone-aware date-times (FixedOffset / Utc): one instant, many wall clocks.  The exactness of the offset shift itself
// (wall = utc + offset, including the one-day headroom at the range ends) is proved by Verus in units/datetime.py.
#[cfg(kani)]
mod verif_kani_datetime {
    use super::*;
    use crate::{FixedOffset, NaiveDate, NaiveDateTime, NaiveTime, TimeZone, Datelike, Timelike, MappedLocalTime, Utc, Offset};
    use core::hash::{Hash, Hasher};

    fn any_offset() -> FixedOffset {
        let s: i32 = kani::any();
        kani::assume(s > -86400 && s < 86400);
        FixedOffset::east_opt(s).unwrap()
    }
    fn any_ndt() -> NaiveDateTime {
        let d = NaiveDate::from_yo_opt(kani::any(), kani::any());      // every valid date (vk_date_from_yo_opt)
        kani::assume(d.is_some());
        let t = NaiveTime::from_num_seconds_from_midnight_opt(kani::any(), kani::any());
        kani::assume(t.is_some());
        NaiveDateTime::new(d.unwrap(), t.unwrap())
    }
    struct Rec { acc: u64, n: u32 }
    impl Hasher for Rec {
        fn finish(&self) -> u64 { self.acc }
        fn write(&mut self, bytes: &[u8]) { let mut i = 0; while i < bytes.len() { self.acc = self.acc.wrapping_mul(257).wrapping_add(bytes[i] as u64); self.n += 1; i += 1; } }
    }

    // fns: FixedOffset::east_opt, FixedOffset::west_opt, FixedOffset::local_minus_utc, FixedOffset::utc_minus_local, Offset::fix for FixedOffset
    #[kani::proof]
    fn vk_fixed_offset_ctor() {
        let s: i32 = kani::any();
        kani::cover!(s == 86399); kani::cover!(s == i32::MIN);
        match FixedOffset::east_opt(s) {
            Some(o) => assert!(s > -86400 && s < 86400 && o.local_minus_utc() == s && o.utc_minus_local() == -s && o.fix() == o, "east_opt keeps the offset"),
            None => assert!(s <= -86400 || s >= 86400, "east_opt refuses only |s| >= 24h"),
        }
        match FixedOffset::west_opt(s) {
            Some(o) => assert!(s > -86400 && s < 86400 && o.local_minus_utc() == -s, "west_opt negates"),
            None => assert!(s <= -86400 || s >= 86400, "west_opt refuses only |s| >= 24h"),
        }
    }

    // fns: PartialEq/Eq/PartialOrd/Ord/Hash for DateTime<Tz> (depend only on the UTC field)
    #[kani::proof]
    #[kani::unwind(9)]
    fn vk_dt_eq_ord_hash() {
        let u = any_ndt(); let v = any_ndt();
        let a = any_offset().from_utc_datetime(&u);
        let b = any_offset().from_utc_datetime(&v);
        kani::cover!(u == v && a.offset() != b.offset());
        assert!((a == b) == (u == v), "equality depends only on the instant");
        assert!(a.cmp(&b) == u.cmp(&v) && a.partial_cmp(&b) == Some(u.cmp(&v)), "ordering depends only on the instant");
        if u == v {
            let mut h1 = Rec { acc: 0, n: 0 }; let mut h2 = Rec { acc: 0, n: 0 };
            a.hash(&mut h1); b.hash(&mut h2);
            assert!(h1.acc == h2.acc && h1.n == h2.n, "hashing depends only on the instant");
        }
    }

    // fns: TimeZone::from_utc_datetime for FixedOffset/Utc, DateTime::{naive_utc, offset, timezone, with_timezone, fixed_offset, to_utc, from_naive_utc_and_offset}
    #[kani::proof]
    fn vk_dt_from_utc_conversions() {
        let u = any_ndt(); let o = any_offset(); let o2 = any_offset();
        let dt = o.from_utc_datetime(&u);
        assert!(dt.naive_utc() == u && *dt.offset() == o && dt.timezone() == o, "building from UTC and reading UTC back is the identity");
        assert!(dt.with_timezone(&o2).naive_utc() == u && *dt.with_timezone(&o2).offset() == o2, "converting to another zone never changes the instant");
        assert!(dt.with_timezone(&Utc).naive_utc() == u && dt.to_utc().naive_utc() == u && dt.fixed_offset().naive_utc() == u && *dt.fixed_offset().offset() == o, "dt.with_timezone(&Utc).naive_utc() == u && dt.to_utc().naive_utc() == ");
        assert!(Utc.from_utc_datetime(&u).naive_utc() == u, "Utc.from_utc_datetime(&u).naive_utc() == u");
        assert!(dt.overflowing_naive_local() == u.overflowing_add_offset(o), "wall clock = UTC shifted by the offset");
    }

    // fns: TimeZone::from_local_datetime for FixedOffset, DateTime::naive_local, DateTime::from_local (deprecated), DateTime::from_utc (deprecated)
    #[kani::proof]
    fn vk_dt_from_local() {
        let l = any_ndt(); let o = any_offset();
        kani::cover!(l.checked_sub_offset(o).is_none());
        match o.from_local_datetime(&l) {
            MappedLocalTime::Single(dt) => {
                assert!(Some(dt.naive_utc()) == l.checked_sub_offset(o) && *dt.offset() == o, "instant = wall clock minus offset");
                assert!(dt.naive_utc().checked_add_offset(o) == Some(l), "reading the wall clock back is the identity");
                // the deprecated constructors build the same value
                #[allow(deprecated)]
                let dep = DateTime::<FixedOffset>::from_local(l, o);
                assert!(dep.naive_utc() == dt.naive_utc() && *dep.offset() == o, "deprecated DateTime::from_local = from_local_datetime");
                #[allow(deprecated)]
                let dep2 = DateTime::<FixedOffset>::from_utc(dt.naive_utc(), o);
                assert!(dep2.naive_utc() == dt.naive_utc() && *dep2.offset() == o, "deprecated DateTime::from_utc keeps the UTC value");
            }
            MappedLocalTime::None => assert!(l.checked_sub_offset(o).is_none(), "fails only when the UTC reading leaves the range"),
            MappedLocalTime::Ambiguous(_, _) => assert!(false, "a fixed offset is never ambiguous"),
        }
    }

    // fns: Datelike::{year, month, month0, day, day0, ordinal, ordinal0} for DateTime<Tz> (act on the wall-clock reading, also up to a day beyond the nominal range)
    #[kani::proof]
    fn vk_dt_wallclock_date_getters() {
        let u = any_ndt(); let o = any_offset();
        let dt = o.from_utc_datetime(&u);
        let w = u.overflowing_add_offset(o);          // wall clock (exactness: Verus, NaiveDateTime::overflowing_add_offset)
        kani::cover!(w.date() == NaiveDate::AFTER_MAX); kani::cover!(w.date() == NaiveDate::BEFORE_MIN);
        assert!(dt.year() == w.date().year() && dt.month() == w.date().month() && dt.month0() == w.date().month0() && dt.day() == w.date().day() && dt.day0() == w.date().day0(), "dt.year() == w.date().year() && dt.month() == w.date().month() && dt.m");
        assert!(dt.ordinal() == w.date().ordinal() && dt.ordinal0() == w.date().ordinal0(), "dt.ordinal() == w.date().ordinal() && dt.ordinal0() == w.date().ordina");
    }

    // fns: Datelike::{weekday, iso_week} for DateTime<Tz>
    #[kani::proof]
    fn vk_dt_wallclock_week_getters() {
        let u = any_ndt(); let o = any_offset();
        let dt = o.from_utc_datetime(&u);
        let w = u.overflowing_add_offset(o);
        assert!(dt.weekday() == w.date().weekday() && dt.iso_week() == w.date().iso_week(), "dt.weekday() == w.date().weekday() && dt.iso_week() == w.date().iso_we");
    }

    // fns: Timelike::{hour, minute, second, nanosecond} for DateTime<Tz>, DateTime::time
    #[kani::proof]
    fn vk_dt_wallclock_time_getters() {
        let u = any_ndt(); let o = any_offset();
        let dt = o.from_utc_datetime(&u);
        let w = u.overflowing_add_offset(o);
        kani::cover!(w.time().nanosecond() >= 1_000_000_000);
        assert!(dt.hour() == w.time().hour() && dt.minute() == w.time().minute() && dt.second() == w.time().second() && dt.nanosecond() == w.time().nanosecond(), "dt.hour() == w.time().hour() && dt.minute() == w.time().minute() && dt");
        assert!(dt.time() == w.time(), "dt.time() == w.time()");
    }

    // ------------------------------------------------------------------------------------------
    // field replacement, time replacement and month stepping of a zone-aware date-time act on the wall-clock reading (map_local)
    fn in_range(u: &NaiveDateTime) -> bool { *u >= NaiveDateTime::MIN && *u <= NaiveDateTime::MAX }
    /// re-anchor a new wall-clock reading in the same fixed offset: instant = wall - offset, which must stay in range
    fn back(w: Option<NaiveDateTime>, o: FixedOffset) -> Option<NaiveDateTime> { match w { Some(w) => match w.checked_sub_offset(o) { Some(u) if in_range(&u) => Some(u), _ => None }, None => None } }

    // fns: DateTime::with_time, TimeZone::from_local_datetime for FixedOffset
    #[kani::proof]
    fn vk_dt_with_time() {
        let u = any_ndt(); let o = any_offset();
        let t = NaiveTime::from_num_seconds_from_midnight_opt(kani::any(), kani::any());
        kani::assume(t.is_some());
        let dt = o.from_utc_datetime(&u);
        let wall_date = u.overflowing_add_offset(o).date();
        kani::cover!(wall_date != u.date(), "wall-clock date differs from the UTC date");
        let want = match wall_date.and_time(t.unwrap()).checked_sub_offset(o) { Some(x) => Some(x), None => None };
        match dt.with_time(t.unwrap()) {
            MappedLocalTime::Single(r) => assert!(Some(r.naive_utc()) == want && *r.offset() == o, "with_time puts the new time on the wall-clock date and keeps the offset"),
            MappedLocalTime::None => assert!(want.is_none(), "with_time fails only when the instant leaves the range"),
            MappedLocalTime::Ambiguous(_, _) => assert!(false, "a fixed offset is never ambiguous"),
        }
    }

    fn dt_with_date_field(lo: u8, hi: u8) {
        let u = any_ndt(); let o = any_offset();
        let dt = o.from_utc_datetime(&u);
        let w = u.overflowing_add_offset(o);
        let v: u32 = kani::any(); let y: i32 = kani::any();
        let which: u8 = kani::any();
        kani::assume(which >= lo && which <= hi);
        let (got, want) = match which {
            0 => (dt.with_year(y), if w.year() == y { Some(w) } else { w.with_year(y) }),      // documented: an unchanged year keeps the value even in the one-day headroom
            1 => (dt.with_month(v), w.with_month(v)),
            2 => (dt.with_month0(v), w.with_month0(v)),
            3 => (dt.with_day(v), w.with_day(v)),
            4 => (dt.with_day0(v), w.with_day0(v)),
            5 => (dt.with_ordinal(v), w.with_ordinal(v)),
            _ => (dt.with_ordinal0(v), w.with_ordinal0(v)),
        };
        kani::cover!(got.is_some(), "a field replaced"); kani::cover!(got.is_none(), "a replacement refused");
        match (got, back(want, o)) {
            (Some(g), Some(x)) => assert!(g.naive_utc() == x && *g.offset() == o, "the field is replaced on the wall-clock reading, the offset is kept"),
            (None, None) => {}
            _ => assert!(false, "replacement succeeds exactly when the new wall-clock reading exists and its instant is in range"),
        }
    }
    // fns: Datelike::with_year for DateTime<Tz>, map_local
    #[kani::proof]
    fn vk_dt_with_year() { dt_with_date_field(0, 0); }
    // fns: Datelike::{with_month, with_month0} for DateTime<Tz>, map_local
    #[kani::proof]
    fn vk_dt_with_month() { dt_with_date_field(1, 2); }
    // fns: Datelike::{with_day, with_day0} for DateTime<Tz>, map_local
    #[kani::proof]
    fn vk_dt_with_day() { dt_with_date_field(3, 4); }
    // fns: Datelike::{with_ordinal, with_ordinal0} for DateTime<Tz>, map_local
    #[kani::proof]
    fn vk_dt_with_ordinal() { dt_with_date_field(5, 6); }

    // fns: Timelike::{with_hour, with_minute, with_second, with_nanosecond} for DateTime<Tz>, map_local
    #[kani::proof]
    fn vk_dt_with_time_fields() {
        let u = any_ndt(); let o = any_offset();
        let dt = o.from_utc_datetime(&u);
        let w = u.overflowing_add_offset(o);
        let v: u32 = kani::any();
        let which: u8 = kani::any();
        kani::assume(which < 4);
        let (got, want) = match which {
            0 => (dt.with_hour(v), w.with_hour(v)),
            1 => (dt.with_minute(v), w.with_minute(v)),
            2 => (dt.with_second(v), w.with_second(v)),
            _ => (dt.with_nanosecond(v), w.with_nanosecond(v)),
        };
        kani::cover!(got.is_some() && which == 0, "an hour replaced");
        match (got, back(want, o)) {
            (Some(g), Some(x)) => assert!(g.naive_utc() == x && *g.offset() == o, "the field is replaced on the wall-clock reading, the offset is kept"),
            (None, None) => {}
            _ => assert!(false, "replacement succeeds exactly when the new wall-clock reading exists and its instant is in range"),
        }
    }

    // fns: DateTime::checked_add_months, DateTime::checked_sub_months
    #[kani::proof]
    fn vk_dt_months() {
        let u = any_ndt(); let o = any_offset();
        let dt = o.from_utc_datetime(&u);
        let w = u.overflowing_add_offset(o);
        let n: u32 = kani::any(); let add: bool = kani::any();
        let m = crate::Months::new(n);
        let (got, want) = if add { (dt.checked_add_months(m), w.checked_add_months(m)) } else { (dt.checked_sub_months(m), w.checked_sub_months(m)) };
        kani::cover!(got.is_some() && n > 0 && w.date() != u.date(), "stepping months where the wall-clock date differs from the UTC date");
        if n == 0 { assert!(got.map(|g| g.naive_utc()) == Some(u), "Months(0) is the identity"); }
        else { match (got, match want { Some(x) => x.checked_sub_offset(o), None => None }) {
            (Some(g), Some(x)) => assert!(g.naive_utc() == x && *g.offset() == o, "month stepping acts on the wall-clock reading"),
            (None, None) => {}
            _ => assert!(false, "month stepping succeeds exactly when the wall-clock result exists and its instant is representable"),
        } }
    }

    // fns: DateTime::years_since (whole years between two wall-clock readings; each value read at its own offset)
    #[kani::proof]
    fn vk_dt_years_since() {
        let (ua, oa) = (any_ndt(), any_offset());
        let (ub, ob) = (any_ndt(), any_offset());
        let a = oa.from_utc_datetime(&ua); let b = ob.from_utc_datetime(&ub);
        let (wa, wb) = (ua.overflowing_add_offset(oa), ub.overflowing_add_offset(ob));
        let r = a.years_since(b);
        let before = (wa.month(), wa.day(), wa.time()) < (wb.month(), wb.day(), wb.time());
        let whole = wa.year() as i64 - wb.year() as i64 - if before { 1 } else { 0 };
        kani::cover!(r == Some(0) && wa.year() != wb.year()); kani::cover!(r.is_none());
        match r { Some(n) => assert!(whole >= 0 && n as i64 == whole, "whole years elapsed on the wall clock"), None => assert!(whole < 0, "None only when self reads earlier than base") }
    }

    // ---- every zone at once: a TimeZone whose answers are arbitrary (over-approximates every implementation) -----------------------
    // One recorder static that starts with a magic word (Kani 0.68 aliases a `static mut` with any constant of equal bytes).
    struct ZRec { magic: u64, loc_calls: u8, loc_arg: Option<NaiveDateTime>, loc_res: MappedLocalTime<i32>, utc_calls: u8, utc_arg: Option<NaiveDateTime>, utc_res: i32 }
    static mut ZREC: ZRec = ZRec { magic: 0xC0DE_5EED_D15C_0002, loc_calls: 0, loc_arg: None, loc_res: MappedLocalTime::None, utc_calls: 0, utc_arg: None, utc_res: 0 };
    #[derive(Clone, Copy, Debug)]
    struct AnyZone;
    impl TimeZone for AnyZone {
        type Offset = FixedOffset;
        fn from_offset(_: &FixedOffset) -> AnyZone { AnyZone }
        fn offset_from_local_date(&self, _: &NaiveDate) -> MappedLocalTime<FixedOffset> { MappedLocalTime::Single(any_offset()) }
        fn offset_from_utc_date(&self, _: &NaiveDate) -> FixedOffset { any_offset() }
        fn offset_from_utc_datetime(&self, utc: &NaiveDateTime) -> FixedOffset {
            let o = any_offset();
            unsafe { ZREC.utc_calls += 1; ZREC.utc_arg = Some(*utc); ZREC.utc_res = o.local_minus_utc(); }
            o
        }
        fn offset_from_local_datetime(&self, local: &NaiveDateTime) -> MappedLocalTime<FixedOffset> {
            let k: u8 = kani::any();
            let r = match k { 0 => MappedLocalTime::None, 1 => MappedLocalTime::Single(any_offset()), _ => MappedLocalTime::Ambiguous(any_offset(), any_offset()) };
            unsafe { ZREC.loc_calls += 1; ZREC.loc_arg = Some(*local); ZREC.loc_res = r.map(|o| o.local_minus_utc()); }
            r
        }
    }
    fn any_zoned() -> (NaiveDateTime, FixedOffset, DateTime<AnyZone>) { let u = any_ndt(); let o = any_offset(); (u, o, DateTime::from_naive_utc_and_offset(u, o)) }
    /// what re-anchoring a new wall-clock reading `w` in the zone must give, from the zone's recorded answer:
    /// the single candidate's instant (wall - offset) if it is representable and inside [lo, hi]
    fn rezone_spec(w: Option<NaiveDateTime>, lo: bool, hi: bool) -> Option<(NaiveDateTime, i32)> {
        let (calls, arg, res) = unsafe { (ZREC.loc_calls, ZREC.loc_arg, ZREC.loc_res) };
        match w {
            None => { assert!(calls == 0, "no new wall-clock reading: the zone is not asked"); None }
            Some(w) => {
                assert!(calls == 1 && arg == Some(w), "the zone is asked once, about the new wall-clock reading");
                match res {
                    MappedLocalTime::Single(o) => match w.checked_sub_offset(FixedOffset::east_opt(o).unwrap()) {
                        Some(u) if (!lo || u >= NaiveDateTime::MIN) && (!hi || u <= NaiveDateTime::MAX) => Some((u, o)),
                        _ => None,
                    },
                    _ => None,
                }
            }
        }
    }
    fn same(got: Option<DateTime<AnyZone>>, want: Option<(NaiveDateTime, i32)>) -> bool {
        match (got, want) { (Some(g), Some((u, o))) => g.naive_utc() == u && g.offset().local_minus_utc() == o, (None, None) => true, _ => false }
    }

    // fns: map_local (every zone, every closure)
    #[kani::proof]
    fn vk_dt_map_local_any_zone() {
        let (u, o, dt) = any_zoned();
        let f_res: Option<NaiveDateTime> = if kani::any() { Some(any_ndt()) } else { None };
        let mut f_arg: Option<NaiveDateTime> = None;
        let r = map_local(&dt, |l| { f_arg = Some(l); f_res });
        kani::cover!(r.is_some()); kani::cover!(r.is_none() && f_res.is_some() && matches!(unsafe { ZREC.loc_res }, MappedLocalTime::Single(_)));
        assert!(f_arg == Some(u.overflowing_add_offset(o)), "the closure sees the wall-clock reading (utc + offset, one day of headroom)");
        assert!(same(r, rezone_spec(f_res, true, true)), "the closure's result is re-anchored in the zone: single candidate, representable instant");
    }

    // ---- the two offset shifts through their contracts (Verus unit datetime: `shifted`, one day of headroom / Some iff representable) -----
    struct ORec { magic: u64, oao_calls: u8, oao_arg: Option<(NaiveDateTime, i32)>, oao_res: Option<NaiveDateTime>, cso_calls: u8, cso_args: [Option<(NaiveDateTime, i32)>; 2], cso_res: [Option<NaiveDateTime>; 2] }
    static mut OREC: ORec = ORec { magic: 0xC0DE_5EED_D15C_0005, oao_calls: 0, oao_arg: None, oao_res: None, cso_calls: 0, cso_args: [None, None], cso_res: [None, None] };
    fn st_overflowing_add_offset(x: NaiveDateTime, rhs: FixedOffset) -> NaiveDateTime {
        // any date the real function can return: a valid date or one of the two sentinels one day outside the range
        let k: u8 = kani::any();
        let d = match k { 0 => NaiveDate::BEFORE_MIN, 1 => NaiveDate::AFTER_MAX, _ => any_ndt().date() };
        let t = NaiveTime::from_num_seconds_from_midnight_opt(kani::any(), x.nanosecond()); kani::assume(t.is_some());
        let r = NaiveDateTime::new(d, t.unwrap());
        unsafe { OREC.oao_calls += 1; OREC.oao_arg = Some((x, rhs.local_minus_utc())); OREC.oao_res = Some(r); }
        r
    }
    fn st_checked_sub_offset(x: NaiveDateTime, rhs: FixedOffset) -> Option<NaiveDateTime> {
        let r = if kani::any() { Some(any_ndt()) } else { None };
        unsafe { let i = OREC.cso_calls as usize; if i < 2 { OREC.cso_args[i] = Some((x, rhs.local_minus_utc())); OREC.cso_res[i] = r; } OREC.cso_calls += 1; }
        r
    }
    /// the wall-clock reading the operation started from: the recorded result of utc + offset
    fn wall_of(u: NaiveDateTime, o: FixedOffset) -> NaiveDateTime {
        let (calls, arg, res) = unsafe { (OREC.oao_calls, OREC.oao_arg, OREC.oao_res) };
        assert!(calls == 1 && arg == Some((u, o.local_minus_utc())), "the wall-clock reading is utc + the stored offset");
        res.unwrap()
    }
    /// rezone_spec over the recorded shifts
    fn rezone_light(w: Option<NaiveDateTime>, lo: bool, hi: bool) -> Option<(NaiveDateTime, i32)> {
        let (calls, arg, res) = unsafe { (ZREC.loc_calls, ZREC.loc_arg, ZREC.loc_res) };
        let (cso_calls, cso_args, cso_res) = unsafe { (OREC.cso_calls, OREC.cso_args, OREC.cso_res) };
        match w {
            None => { assert!(calls == 0 && cso_calls == 0, "no new wall-clock reading: the zone is not asked"); None }
            Some(w) => {
                assert!(calls == 1 && arg == Some(w), "the zone is asked once, about the new wall-clock reading");
                match res {
                    MappedLocalTime::None => { assert!(cso_calls == 0, "nothing to convert"); None }
                    MappedLocalTime::Single(o) => {
                        assert!(cso_calls == 1 && cso_args[0] == Some((w, o)), "instant = new wall-clock reading - the candidate's offset");
                        match cso_res[0] { Some(u) if (!lo || u >= NaiveDateTime::MIN) && (!hi || u <= NaiveDateTime::MAX) => Some((u, o)), _ => None }
                    }
                    MappedLocalTime::Ambiguous(a, b) => { assert!(cso_calls == 2 && cso_args[0] == Some((w, a)) && cso_args[1] == Some((w, b)), "both candidates converted"); None }
                }
            }
        }
    }

    // ---- the wrappers over map_local / from_local_datetime, with the NaiveDateTime operation taken through its contract -------------
    // NaiveDateTime::{with_*, checked_add/sub_months, checked_add/sub_days} are proved elsewhere (vk_ndt_with_date_fields, vk_ndt_with_time_fields,
    // vk_date_add_months, Verus datetime:checked_add_days ...); here each is a stub returning ANY Option<NaiveDateTime>, recorded.
    struct FRec { magic: u64, calls: u8, op: u8, recv: Option<NaiveDateTime>, v: u64, res: Option<NaiveDateTime> }
    static mut FREC: FRec = FRec { magic: 0xC0DE_5EED_D15C_0003, calls: 0, op: 0, recv: None, v: 0, res: None };
    fn fstub(op: u8, x: &NaiveDateTime, v: u64) -> Option<NaiveDateTime> {
        let r = if kani::any() { Some(any_ndt()) } else { None };
        unsafe { FREC.calls += 1; FREC.op = op; FREC.recv = Some(*x); FREC.v = v; FREC.res = r; }
        r
    }
    fn st_with_year(x: &NaiveDateTime, y: i32) -> Option<NaiveDateTime> { fstub(0, x, y as u32 as u64) }
    fn st_with_month(x: &NaiveDateTime, v: u32) -> Option<NaiveDateTime> { fstub(1, x, v as u64) }
    fn st_with_month0(x: &NaiveDateTime, v: u32) -> Option<NaiveDateTime> { fstub(2, x, v as u64) }
    fn st_with_day(x: &NaiveDateTime, v: u32) -> Option<NaiveDateTime> { fstub(3, x, v as u64) }
    fn st_with_day0(x: &NaiveDateTime, v: u32) -> Option<NaiveDateTime> { fstub(4, x, v as u64) }
    fn st_with_ordinal(x: &NaiveDateTime, v: u32) -> Option<NaiveDateTime> { fstub(5, x, v as u64) }
    fn st_with_ordinal0(x: &NaiveDateTime, v: u32) -> Option<NaiveDateTime> { fstub(6, x, v as u64) }
    fn st_with_hour(x: &NaiveDateTime, v: u32) -> Option<NaiveDateTime> { fstub(7, x, v as u64) }
    fn st_with_minute(x: &NaiveDateTime, v: u32) -> Option<NaiveDateTime> { fstub(8, x, v as u64) }
    fn st_with_second(x: &NaiveDateTime, v: u32) -> Option<NaiveDateTime> { fstub(9, x, v as u64) }
    fn st_with_nanosecond(x: &NaiveDateTime, v: u32) -> Option<NaiveDateTime> { fstub(10, x, v as u64) }
    fn st_add_months(x: NaiveDateTime, m: crate::Months) -> Option<NaiveDateTime> { fstub(11, &x, m.as_u32() as u64) }
    fn st_sub_months(x: NaiveDateTime, m: crate::Months) -> Option<NaiveDateTime> { fstub(12, &x, m.as_u32() as u64) }
    fn st_add_days(x: NaiveDateTime, d: crate::Days) -> Option<NaiveDateTime> { fstub(13, &x, d.0) }
    fn st_sub_days(x: NaiveDateTime, d: crate::Days) -> Option<NaiveDateTime> { fstub(14, &x, d.0) }

    fn dt_with_fields_any_zone(lo: u8, hi: u8) {
        let (u, o, dt) = any_zoned();
        let v: u32 = kani::any();
        let which: u8 = kani::any();
        kani::assume(which >= lo && which <= hi);
        let got = match which {
            0 => dt.with_year(v as i32), 1 => dt.with_month(v), 2 => dt.with_month0(v), 3 => dt.with_day(v), 4 => dt.with_day0(v), 5 => dt.with_ordinal(v), 6 => dt.with_ordinal0(v),
            7 => dt.with_hour(v), 8 => dt.with_minute(v), 9 => dt.with_second(v), _ => dt.with_nanosecond(v),
        };
        let w = wall_of(u, o);
        let (calls, op, recv, arg, res) = unsafe { (FREC.calls, FREC.op, FREC.recv, FREC.v, FREC.res) };
        kani::cover!(got.is_some()); kani::cover!(got.is_none());
        let new_wall = if which == 0 && w.year() == v as i32 {
            assert!(calls == 0, "same year: the wall-clock reading is kept as it is");
            Some(w)
        } else {
            assert!(calls == 1 && op == which && recv == Some(w) && arg == v as u64, "the named field of the wall-clock reading is replaced by the given value");
            res
        };
        assert!(same(got, rezone_light(new_wall, true, true)), "the new wall-clock reading is re-anchored in the zone");
    }

    // fns: Datelike::with_year for DateTime<Tz> (every zone)
    // assumes: kani:vk_dt_map_local_any_zone, kani:vk_ndt_with_date_fields, kani:vk_ndt_with_time_fields, NaiveDateTime::overflowing_add_offset, NaiveDateTime::checked_sub_offset
    #[kani::proof]
    #[kani::stub(NaiveDateTime::overflowing_add_offset, st_overflowing_add_offset)]
    #[kani::stub(NaiveDateTime::checked_sub_offset, st_checked_sub_offset)]
    #[kani::stub(<NaiveDateTime as Datelike>::with_year, st_with_year)]
    #[kani::stub(<NaiveDateTime as Datelike>::with_month, st_with_month)]
    #[kani::stub(<NaiveDateTime as Datelike>::with_month0, st_with_month0)]
    #[kani::stub(<NaiveDateTime as Datelike>::with_day, st_with_day)]
    #[kani::stub(<NaiveDateTime as Datelike>::with_day0, st_with_day0)]
    #[kani::stub(<NaiveDateTime as Datelike>::with_ordinal, st_with_ordinal)]
    #[kani::stub(<NaiveDateTime as Datelike>::with_ordinal0, st_with_ordinal0)]
    #[kani::stub(<NaiveDateTime as Timelike>::with_hour, st_with_hour)]
    #[kani::stub(<NaiveDateTime as Timelike>::with_minute, st_with_minute)]
    #[kani::stub(<NaiveDateTime as Timelike>::with_second, st_with_second)]
    #[kani::stub(<NaiveDateTime as Timelike>::with_nanosecond, st_with_nanosecond)]
    fn vk_dt_with_year_any_zone() { dt_with_fields_any_zone(0, 0); }
    // fns: Datelike::{with_month, with_month0, with_day} for DateTime<Tz> (every zone)
    // assumes: kani:vk_dt_map_local_any_zone, kani:vk_ndt_with_date_fields, kani:vk_ndt_with_time_fields, NaiveDateTime::overflowing_add_offset, NaiveDateTime::checked_sub_offset
    #[kani::proof]
    #[kani::stub(NaiveDateTime::overflowing_add_offset, st_overflowing_add_offset)]
    #[kani::stub(NaiveDateTime::checked_sub_offset, st_checked_sub_offset)]
    #[kani::stub(<NaiveDateTime as Datelike>::with_year, st_with_year)]
    #[kani::stub(<NaiveDateTime as Datelike>::with_month, st_with_month)]
    #[kani::stub(<NaiveDateTime as Datelike>::with_month0, st_with_month0)]
    #[kani::stub(<NaiveDateTime as Datelike>::with_day, st_with_day)]
    #[kani::stub(<NaiveDateTime as Datelike>::with_day0, st_with_day0)]
    #[kani::stub(<NaiveDateTime as Datelike>::with_ordinal, st_with_ordinal)]
    #[kani::stub(<NaiveDateTime as Datelike>::with_ordinal0, st_with_ordinal0)]
    #[kani::stub(<NaiveDateTime as Timelike>::with_hour, st_with_hour)]
    #[kani::stub(<NaiveDateTime as Timelike>::with_minute, st_with_minute)]
    #[kani::stub(<NaiveDateTime as Timelike>::with_second, st_with_second)]
    #[kani::stub(<NaiveDateTime as Timelike>::with_nanosecond, st_with_nanosecond)]
    fn vk_dt_with_month_day_any_zone() { dt_with_fields_any_zone(1, 3); }
    // fns: Datelike::{with_day0, with_ordinal, with_ordinal0} for DateTime<Tz> (every zone)
    // assumes: kani:vk_dt_map_local_any_zone, kani:vk_ndt_with_date_fields, kani:vk_ndt_with_time_fields, NaiveDateTime::overflowing_add_offset, NaiveDateTime::checked_sub_offset
    #[kani::proof]
    #[kani::stub(NaiveDateTime::overflowing_add_offset, st_overflowing_add_offset)]
    #[kani::stub(NaiveDateTime::checked_sub_offset, st_checked_sub_offset)]
    #[kani::stub(<NaiveDateTime as Datelike>::with_year, st_with_year)]
    #[kani::stub(<NaiveDateTime as Datelike>::with_month, st_with_month)]
    #[kani::stub(<NaiveDateTime as Datelike>::with_month0, st_with_month0)]
    #[kani::stub(<NaiveDateTime as Datelike>::with_day, st_with_day)]
    #[kani::stub(<NaiveDateTime as Datelike>::with_day0, st_with_day0)]
    #[kani::stub(<NaiveDateTime as Datelike>::with_ordinal, st_with_ordinal)]
    #[kani::stub(<NaiveDateTime as Datelike>::with_ordinal0, st_with_ordinal0)]
    #[kani::stub(<NaiveDateTime as Timelike>::with_hour, st_with_hour)]
    #[kani::stub(<NaiveDateTime as Timelike>::with_minute, st_with_minute)]
    #[kani::stub(<NaiveDateTime as Timelike>::with_second, st_with_second)]
    #[kani::stub(<NaiveDateTime as Timelike>::with_nanosecond, st_with_nanosecond)]
    fn vk_dt_with_day0_ordinal_any_zone() { dt_with_fields_any_zone(4, 6); }
    // fns: Timelike::{with_hour, with_minute, with_second, with_nanosecond} for DateTime<Tz> (every zone)
    // assumes: kani:vk_dt_map_local_any_zone, kani:vk_ndt_with_date_fields, kani:vk_ndt_with_time_fields, NaiveDateTime::overflowing_add_offset, NaiveDateTime::checked_sub_offset
    #[kani::proof]
    #[kani::stub(NaiveDateTime::overflowing_add_offset, st_overflowing_add_offset)]
    #[kani::stub(NaiveDateTime::checked_sub_offset, st_checked_sub_offset)]
    #[kani::stub(<NaiveDateTime as Datelike>::with_year, st_with_year)]
    #[kani::stub(<NaiveDateTime as Datelike>::with_month, st_with_month)]
    #[kani::stub(<NaiveDateTime as Datelike>::with_month0, st_with_month0)]
    #[kani::stub(<NaiveDateTime as Datelike>::with_day, st_with_day)]
    #[kani::stub(<NaiveDateTime as Datelike>::with_day0, st_with_day0)]
    #[kani::stub(<NaiveDateTime as Datelike>::with_ordinal, st_with_ordinal)]
    #[kani::stub(<NaiveDateTime as Datelike>::with_ordinal0, st_with_ordinal0)]
    #[kani::stub(<NaiveDateTime as Timelike>::with_hour, st_with_hour)]
    #[kani::stub(<NaiveDateTime as Timelike>::with_minute, st_with_minute)]
    #[kani::stub(<NaiveDateTime as Timelike>::with_second, st_with_second)]
    #[kani::stub(<NaiveDateTime as Timelike>::with_nanosecond, st_with_nanosecond)]
    fn vk_dt_with_clock_any_zone() { dt_with_fields_any_zone(7, 10); }
    fn dt_steps_any_zone(lo: u8, hi: u8) {
        let (u, o, dt) = any_zoned();
        let n: u32 = kani::any(); let n64: u64 = kani::any();
        let which: u8 = kani::any();
        kani::assume(which >= lo && which <= hi);
        {
            let got = match which {
                0 => dt.checked_add_months(crate::Months::new(n)), 1 => dt.checked_sub_months(crate::Months::new(n)),
                2 => dt.checked_add_days(crate::Days::new(n64)), _ => dt.checked_sub_days(crate::Days::new(n64)),
            };
            let (calls, op, recv, arg, res) = unsafe { (FREC.calls, FREC.op, FREC.recv, FREC.v, FREC.res) };
            kani::cover!(got.is_some()); kani::cover!(got.is_none() && res.is_some());
            if which == 2 && n64 == 0 { assert!(calls == 0 && unsafe { OREC.oao_calls } == 0 && got.map(|g| (g.naive_utc(), g.offset().local_minus_utc())) == Some((u, o.local_minus_utc())), "Days(0) is the identity"); }
            else {
                let w = wall_of(u, o);
                assert!(calls == 1 && op == 11 + which && recv == Some(w) && arg == (if which <= 1 { n as u64 } else { n64 }), "the step is taken on the wall-clock reading");
                assert!(same(got, rezone_light(res, which == 3, which == 2)), "the stepped wall-clock reading is re-anchored in the zone");
            }
        }
    }
    // fns: DateTime::checked_add_months, DateTime::checked_sub_months (every zone)
    // assumes: kani:vk_date_add_months, kani:vk_date_sub_months, NaiveDateTime::overflowing_add_offset, NaiveDateTime::checked_sub_offset
    #[kani::proof]
    #[kani::stub(NaiveDateTime::overflowing_add_offset, st_overflowing_add_offset)]
    #[kani::stub(NaiveDateTime::checked_sub_offset, st_checked_sub_offset)]
    #[kani::stub(NaiveDateTime::checked_add_months, st_add_months)]
    #[kani::stub(NaiveDateTime::checked_sub_months, st_sub_months)]
    #[kani::stub(NaiveDateTime::checked_add_days, st_add_days)]
    #[kani::stub(NaiveDateTime::checked_sub_days, st_sub_days)]
    fn vk_dt_months_any_zone() { dt_steps_any_zone(0, 1); }
    // fns: DateTime::checked_add_days, DateTime::checked_sub_days (every zone)
    // assumes: NaiveDateTime::checked_add_days, NaiveDateTime::checked_sub_days, NaiveDateTime::overflowing_add_offset, NaiveDateTime::checked_sub_offset
    #[kani::proof]
    #[kani::stub(NaiveDateTime::overflowing_add_offset, st_overflowing_add_offset)]
    #[kani::stub(NaiveDateTime::checked_sub_offset, st_checked_sub_offset)]
    #[kani::stub(NaiveDateTime::checked_add_months, st_add_months)]
    #[kani::stub(NaiveDateTime::checked_sub_months, st_sub_months)]
    #[kani::stub(NaiveDateTime::checked_add_days, st_add_days)]
    #[kani::stub(NaiveDateTime::checked_sub_days, st_sub_days)]
    fn vk_dt_days_any_zone() { dt_steps_any_zone(2, 3); }
    // fns: DateTime::with_time, TimeZone::from_local_datetime (every zone; the real offset arithmetic end to end)
    #[kani::proof]
    fn vk_dt_with_time_any_zone() {
        let (u, o, dt) = any_zoned();
        let w = u.overflowing_add_offset(o);
        let t = NaiveTime::from_num_seconds_from_midnight_opt(kani::any(), kani::any()); kani::assume(t.is_some());
        let got = dt.with_time(t.unwrap());
        let (calls, arg, res) = unsafe { (ZREC.loc_calls, ZREC.loc_arg, ZREC.loc_res) };
        let nw = w.date().and_time(t.unwrap());
        assert!(calls == 1 && arg == Some(nw), "the zone is asked about the wall-clock date with the new time");
        let inst = |o: i32| nw.checked_sub_offset(FixedOffset::east_opt(o).unwrap());
        match (got, res) {
            (MappedLocalTime::None, MappedLocalTime::None) => {}
            (MappedLocalTime::Single(g), MappedLocalTime::Single(o)) => assert!(Some(g.naive_utc()) == inst(o) && g.offset().local_minus_utc() == o, "single candidate"),
            (MappedLocalTime::None, MappedLocalTime::Single(o)) => assert!(inst(o).is_none(), "dropped only when the instant is out of range"),
            (MappedLocalTime::Ambiguous(a, b), MappedLocalTime::Ambiguous(x, y)) => assert!(Some(a.naive_utc()) == inst(x) && Some(b.naive_utc()) == inst(y) && a.offset().local_minus_utc() == x && b.offset().local_minus_utc() == y, "both candidates, in the zone's order"),
            (MappedLocalTime::None, MappedLocalTime::Ambiguous(x, y)) => assert!(inst(x).is_none() || inst(y).is_none(), "dropped only when an instant is out of range"),
            _ => assert!(false, "with_time returns the zone's classification"),
        }
        kani::cover!(matches!(got, MappedLocalTime::Ambiguous(..))); kani::cover!(matches!(got, MappedLocalTime::None) && matches!(res, MappedLocalTime::Single(_)));
    }

    // fns: DateTime::with_time, TimeZone::from_local_datetime (every zone; the two offset shifts through their contracts)
    // assumes: NaiveDateTime::overflowing_add_offset, NaiveDateTime::checked_sub_offset
    #[kani::proof]
    #[kani::stub(NaiveDateTime::overflowing_add_offset, st_overflowing_add_offset)]
    #[kani::stub(NaiveDateTime::checked_sub_offset, st_checked_sub_offset)]
    fn vk_dt_with_time_any_zone_light() {
        let (u, o, dt) = any_zoned();
        let t = NaiveTime::from_num_seconds_from_midnight_opt(kani::any(), kani::any()); kani::assume(t.is_some());
        let got = dt.with_time(t.unwrap());
        let w = wall_of(u, o);
        let (calls, arg, res) = unsafe { (ZREC.loc_calls, ZREC.loc_arg, ZREC.loc_res) };
        let (cso_calls, cso_args, cso_res) = unsafe { (OREC.cso_calls, OREC.cso_args, OREC.cso_res) };
        let nw = w.date().and_time(t.unwrap());
        assert!(calls == 1 && arg == Some(nw), "the zone is asked about the wall-clock date with the new time");
        kani::cover!(matches!(got, MappedLocalTime::Ambiguous(..))); kani::cover!(matches!(got, MappedLocalTime::None) && matches!(res, MappedLocalTime::Single(_)));
        match res {
            MappedLocalTime::None => assert!(cso_calls == 0 && matches!(got, MappedLocalTime::None), "no such wall-clock time"),
            MappedLocalTime::Single(x) => {
                assert!(cso_calls == 1 && cso_args[0] == Some((nw, x)), "instant = new wall-clock reading - candidate offset");
                match (got, cso_res[0]) {
                    (MappedLocalTime::Single(g), Some(i0)) => assert!(g.naive_utc() == i0 && g.offset().local_minus_utc() == x, "single candidate"),
                    (MappedLocalTime::None, None) => {}
                    _ => assert!(false, "a single candidate is kept exactly when its instant is representable"),
                }
            }
            MappedLocalTime::Ambiguous(x, y) => {
                assert!(cso_calls == 2 && cso_args[0] == Some((nw, x)) && cso_args[1] == Some((nw, y)), "both candidates converted, in the zone's order");
                match (got, cso_res[0], cso_res[1]) {
                    (MappedLocalTime::Ambiguous(a, b), Some(i0), Some(i1)) => assert!(a.naive_utc() == i0 && b.naive_utc() == i1 && a.offset().local_minus_utc() == x && b.offset().local_minus_utc() == y, "both candidates, in the zone's order"),
                    (MappedLocalTime::None, i0, i1) => assert!(i0.is_none() || i1.is_none(), "dropped only when an instant is out of range"),
                    _ => assert!(false, "with_time returns the zone's classification"),
                }
            }
        }
    }

    // ---- conversions to and from the system clock type, the calendar side taken through its contracts ----------------------------------
    struct SRec { magic: u64, ts_calls: u8, ts_args: (i64, u32), stamp: i64 }
    static mut SREC: SRec = SRec { magic: 0xC0DE_5EED_D15C_000C, ts_calls: 0, ts_args: (0, 0), stamp: 0 };
    // DateTime::from_timestamp (Verus unit datetime: Some iff representable, exactly that second and nanosecond field), reached through the
    // provided method TimeZone::timestamp_opt (Verus, generic): records its arguments
    fn st_from_timestamp(secs: i64, nsecs: u32) -> Option<DateTime<Utc>> {
        unsafe { SREC.ts_calls += 1; SREC.ts_args = (secs, nsecs); }
        Some(any_ndt().and_utc())
    }
    // DateTime::timestamp (Verus: the Unix second count, inside the range of valid date-times)
    fn st_dt_timestamp<Tz: TimeZone>(_x: &DateTime<Tz>) -> i64 { unsafe { SREC.stamp } }

    // fns: From<SystemTime> for DateTime<Utc> (the second count and nanosecond field handed to the calendar constructor, both sides of the epoch)
    // assumes: DateTime::from_timestamp, TimeZone::timestamp_opt
    #[kani::proof]
    #[kani::unwind(5)]
    #[kani::stub(DateTime::<Utc>::from_timestamp, st_from_timestamp)]
    fn vk_dt_from_system_time() {
        use std::time::{Duration, UNIX_EPOCH};
        let secs: u64 = kani::any(); let ns: u32 = kani::any(); let before: bool = kani::any();
        kani::assume(secs <= 9_000_000_000_000 && ns < 1_000_000_000);
        let d = Duration::new(secs, ns);
        let t = if before { UNIX_EPOCH - d } else { UNIX_EPOCH + d };
        // floor split of the signed nanosecond count: -(s + f) = (-s - 1) + (1 - f) for a fraction f > 0
        let want = if !before { (secs as i64, ns) } else if ns == 0 { (-(secs as i64), 0) } else { (-(secs as i64) - 1, 1_000_000_000 - ns) };
        let _dt = DateTime::<Utc>::from(t);
        let (c, a) = unsafe { (SREC.ts_calls, SREC.ts_args) };
        kani::cover!(before && ns != 0); kani::cover!(before && ns == 0 && secs > 0);
        assert!(c == 1 && a == want, "the instant is handed over as floor seconds + non-negative nanoseconds");
    }

    // fns: From<DateTime<Tz>> for SystemTime (the instant = second count + nanosecond field, also inside a leap second and before the epoch)
    // assumes: DateTime::timestamp
    #[kani::proof]
    #[kani::unwind(5)]
    #[kani::stub(DateTime::timestamp, st_dt_timestamp)]
    fn vk_dt_to_system_time() {
        use std::time::{Duration, SystemTime, UNIX_EPOCH};
        let dt = any_offset().from_utc_datetime(&any_ndt());
        let stamp: i64 = kani::any();
        kani::assume(stamp >= -8_334_601_228_800 && stamp <= 8_210_266_876_799);
        unsafe { SREC.stamp = stamp; }
        let nsec = dt.timestamp_subsec_nanos();
        let st = SystemTime::from(dt);
        let whole = if stamp >= 0 { UNIX_EPOCH + Duration::from_secs(stamp as u64) } else { UNIX_EPOCH - Duration::from_secs(stamp.unsigned_abs()) };
        let want = whole + Duration::from_nanos(nsec as u64);
        kani::cover!(stamp < 0 && nsec >= 1_000_000_000); kani::cover!(stamp < 0 && nsec == 0);
        assert!(st == want, "the system time is the epoch plus seconds and nanoseconds (a leap-second field counts its full value)");
    }
}
