// @append: src/naive/internals.rs
// C01: the three tables of internals.rs and the Mdf / YearFlags bit code against the calendar spec
#[cfg(kani)]
mod verif_kani_internals {
    use super::*;
//@@COMMON@@
    use xs::*;

    // fns: YearFlags::from_year_mod_400 (all 400 YEAR_TO_FLAGS cells), YearFlags::from_year (every i32)
    #[kani::proof]
    fn vk_year_flags_table() {
        let r: i32 = kani::any();
        kani::assume(r >= 0 && r < 400);
        kani::cover!(r == 0); kani::cover!(r == 399);
        let f = YearFlags::from_year_mod_400(r).0;
        assert!(f < 16, "flags fit in 4 bits");
        assert!((f & 0b1000 == 0) == is_leap(r as i64), "leap bit agrees with the Gregorian rule");
        // low 3 bits: weekday of 31 Dec of the previous year (Mon=0..Sun=6), with Monday stored as 7
        let wd_dec31 = weekday_of(days_before_year(r as i64));
        let stored = (f & 0b111) as i64;
        assert!(stored != 0 && stored % 7 == wd_dec31, "weekday bits = weekday of the day before 1 January");
        let y: i32 = kani::any();
        assert!(YearFlags::from_year(y).0 == YearFlags::from_year_mod_400(y.rem_euclid(400)).0, "from_year reduces modulo 400");
    }

    // fns: YearFlags::ndays, YearFlags::nisoweeks, YearFlags::isoweek_delta
    #[kani::proof]
    fn vk_year_flags_derived() {
        let r: i32 = kani::any();
        kani::assume(r >= 0 && r < 400);
        let fl = YearFlags::from_year_mod_400(r);
        assert!(fl.ndays() as i64 == year_len(r as i64), "ndays = length of the year");
        // 53 ISO weeks <=> 1 Jan is a Thursday, or the year is leap and 1 Jan is a Wednesday
        let jan1 = weekday_yo(r as i64, 1);
        let long = jan1 == 3 || (is_leap(r as i64) && jan1 == 2);
        kani::cover!(long && is_leap(r as i64)); kani::cover!(!long);
        assert!(fl.nisoweeks() == if long { 53 } else { 52 }, "nisoweeks: 53 exactly for Thursday years and leap Wednesday years");
        // isoweek_delta: (ordinal + delta) / 7 is the raw ISO week number of that ordinal (0 => last week of the previous year)
        let o: u32 = kani::any();
        kani::assume(o >= 1 && o <= 366);
        let raw = (o + fl.isoweek_delta()) / 7;
        let t = o as i64 + 3 - weekday_yo(r as i64, o as i64);      // Thursday of the week
        let want = if t < 1 { 0 } else { (t + 6) / 7 };
        assert!(raw as i64 == want, "isoweek_delta places ordinal in the week of its Thursday");
    }

    // fns: Mdf::new, Mdf::month, Mdf::day, Mdf::ordinal, Mdf::ordinal_and_flags, Mdf::from_ol, Mdf::year_flags (all MDL_TO_OL and OL_TO_MDL cells)
    #[kani::proof]
    fn vk_mdf_tables() {
        let m: u32 = kani::any(); let d: u32 = kani::any(); let fl: u8 = kani::any();
        kani::assume(fl < 16);
        let leap = fl & 0b1000 == 0;
        let y = if leap { 4 } else { 1 };                 // any year with that leap status
        kani::cover!(m == 2 && d == 29 && leap); kani::cover!(m == 12 && d == 31);
        match Mdf::new(m, d, YearFlags(fl)) {
            None => assert!(m > 12 || d > 31, "Mdf::new refuses only month > 12 or day > 31"),
            Some(mdf) => {
                assert!(m <= 12 && d <= 31, "m <= 12 && d <= 31");
                assert!(mdf.month() == m && mdf.day() == d && mdf.year_flags().0 == fl, "Mdf packs month, day, flags");
                let valid = ymd_valid(y, m as i64, d as i64);
                assert!(mdf.ordinal().is_some() == valid, "ordinal() exists exactly for existing month-days");
                assert!(mdf.ordinal_and_flags().is_some() == valid, "mdf.ordinal_and_flags().is_some() == valid");
                if let Some(o) = mdf.ordinal() {
                    assert!(o as i64 == cum_days(y, m as i64) + d as i64, "ordinal = days before the month + day");
                    assert!(mdf.ordinal_and_flags() == Some(((o << 4) | fl as u32) as i32), "mdf.ordinal_and_flags() == Some(((o << 4) | fl as u32) as i32)");
                    let back = Mdf::from_ol(((o << 1) | (!leap) as u32) as i32, YearFlags(fl));
                    assert!(back.month() == m && back.day() == d && back.year_flags().0 == fl, "from_ol inverts ordinal()");
                }
            }
        }
    }

    // fns: Mdf::from_ol (every ordinal), Mdf::with_month, Mdf::with_day, Mdf::with_flags
    #[kani::proof]
    fn vk_mdf_from_ol_with() {
        let o: u32 = kani::any(); let fl: u8 = kani::any();
        kani::assume(fl < 16);
        let leap = fl & 0b1000 == 0;
        let y: i64 = if leap { 4 } else { 1 };
        kani::assume(o >= 1 && o as i64 <= year_len(y));
        let mdf = Mdf::from_ol(((o << 1) | (!leap) as u32) as i32, YearFlags(fl));
        let (m, d) = (mdf.month(), mdf.day());
        assert!(ymd_valid(y, m as i64, d as i64) && cum_days(y, m as i64) + d as i64 == o as i64, "from_ol yields the month-day of that ordinal");
        assert!(mdf.ordinal() == Some(o), "mdf.ordinal() == Some(o)");
        let nm: u32 = kani::any(); let nd: u32 = kani::any(); let nf: u8 = kani::any();
        kani::assume(nf < 16);
        match mdf.with_month(nm) { None => assert!(nm > 12, "nm > 12"), Some(x) => assert!(nm <= 12 && x.month() == nm && x.day() == d && x.year_flags().0 == fl, "nm <= 12 && x.month() == nm && x.day() == d && x.year_flags().0 == fl") }
        match mdf.with_day(nd) { None => assert!(nd > 31, "nd > 31"), Some(x) => assert!(nd <= 31 && x.month() == m && x.day() == nd && x.year_flags().0 == fl, "nd <= 31 && x.month() == m && x.day() == nd && x.year_flags().0 == fl") }
        let x = mdf.with_flags(YearFlags(nf));
        assert!(x.month() == m && x.day() == d && x.year_flags().0 == nf, "x.month() == m && x.day() == d && x.year_flags().0 == nf");
    }
}
