// @append: src/format/parse.rs
// C10: the strict RFC 3339 reader accepts exactly the grammar (bounded: every ASCII string of at most 28 bytes)
#[cfg(kani)]
mod verif_kani_parse {
    use super::*;

    fn dig(b: u8) -> bool { b >= b'0' && b <= b'9' }
    fn two(b: &[u8], i: usize) -> Option<i64> { if dig(b[i]) && dig(b[i + 1]) { Some(((b[i] - b'0') as i64) * 10 + (b[i + 1] - b'0') as i64) } else { None } }

    /// independent recogniser of RFC 3339 date-time (section 5.6, with chrono's documented latitude: T/t/space, Z/z, any number of fraction digits):
    /// (year, month, day, hour, minute, second, nanosecond if a fraction is present, offset seconds, bytes consumed)
    fn rfc3339(b: &[u8], len: usize) -> Option<(i64, i64, i64, i64, i64, i64, Option<i64>, i64, usize)> {
        if len < 20 { return None; }
        if !(dig(b[0]) && dig(b[1]) && dig(b[2]) && dig(b[3]) && b[4] == b'-' && b[7] == b'-' && (b[10] == b'T' || b[10] == b't' || b[10] == b' ') && b[13] == b':' && b[16] == b':') { return None; }
        let year = ((b[0] - b'0') as i64) * 1000 + ((b[1] - b'0') as i64) * 100 + ((b[2] - b'0') as i64) * 10 + (b[3] - b'0') as i64;
        let (mo, d, h, mi, s) = (two(b, 5)?, two(b, 8)?, two(b, 11)?, two(b, 14)?, two(b, 17)?);
        if !(mo >= 1 && mo <= 12 && d >= 1 && d <= 31 && h <= 23 && mi <= 59 && s <= 60) { return None; }
        let mut p = 19;
        let mut nanos = None;
        if b[p] == b'.' {
            p += 1;
            let mut k = 0usize; let mut v = 0i64;
            while p < len && dig(b[p]) { if k < 9 { v = v * 10 + (b[p] - b'0') as i64; k += 1; } p += 1; }
            if k == 0 { return None; }
            let mut sc = k; while sc < 9 { v *= 10; sc += 1; }
            nanos = Some(v);
        }
        if p >= len { return None; }
        if b[p] == b'Z' || b[p] == b'z' { return Some((year, mo, d, h, mi, s, nanos, 0, p + 1)); }
        if !(b[p] == b'+' || b[p] == b'-') || p + 6 > len { return None; }
        let neg = b[p] == b'-';
        let hh = two(b, p + 1)?;
        if b[p + 3] != b':' { return None; }
        let mm = two(b, p + 4)?;
        if mm > 59 || hh * 3600 + mm * 60 > 86_340 { return None; }
        let off = hh * 3600 + mm * 60;
        Some((year, mo, d, h, mi, s, nanos, if neg { -off } else { off }, p + 6))
    }

    // bounded: every ASCII string of at most 28 bytes (the U+2212 minus sign, being non-ASCII, is outside this family)
    // fns: parse_rfc3339, scan::number, scan::char, scan::nanosecond, scan::timezone_offset
    #[kani::proof]
    #[kani::unwind(30)]
    fn vk_rfc3339_parse_bounded() {
        let mut buf: [u8; 28] = kani::any();
        let len: usize = kani::any();
        kani::assume(len <= 28);
        let mut i = 0; while i < 28 { buf[i] &= 127; i += 1; }
        let s = unsafe { core::str::from_utf8_unchecked(&buf[..len]) };
        let mut parsed = Parsed::new();
        let r = parse_rfc3339(&mut parsed, s);
        let want = rfc3339(&buf, len);
        kani::cover!(r.is_ok() && parsed.nanosecond.is_some() && parsed.offset != Some(0)); kani::cover!(r.is_err() && len >= 25);
        match (r, want) {
            (Ok((rest, ())), Some((y, mo, d, h, mi, sec, ns, off, used))) => {
                assert!(rest.len() == len - used, "exactly the date-time is consumed");
                assert!(parsed.year == Some(y as i32) && parsed.month == Some(mo as u32) && parsed.day == Some(d as u32), "date fields are the digits written");
                assert!(parsed.hour_div_12 == Some((h / 12) as u32) && parsed.hour_mod_12 == Some((h % 12) as u32) && parsed.minute == Some(mi as u32) && parsed.second == Some(sec as u32), "time fields are the digits written");
                assert!(parsed.nanosecond == ns.map(|v| v as u32) && parsed.offset == Some(off as i32), "fraction truncated to nanoseconds, offset as written");
            }
            (Err(_), None) => {}
            (Ok(_), None) => assert!(false, "a string outside the grammar (or denoting no such field values) is refused"),
            (Err(_), Some(_)) => assert!(false, "a string inside the grammar is accepted"),
        }
    }
}
