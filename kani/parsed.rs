// @append: src/format/parsed.rs
// C14: field resolution never returns a value that contradicts a supplied field
#[cfg(kani)]
mod verif_kani_parsed {
    use super::*;
    use crate::{Datelike, Timelike, Weekday};
    use super::super::ParseErrorKind;

    fn any_opt_i32() -> Option<i32> { if kani::any() { Some(kani::any()) } else { None } }
    fn any_opt_u32() -> Option<u32> { if kani::any() { Some(kani::any()) } else { None } }
    fn wd(n: u8) -> Weekday { match n { 0 => Weekday::Mon, 1 => Weekday::Tue, 2 => Weekday::Wed, 3 => Weekday::Thu, 4 => Weekday::Fri, 5 => Weekday::Sat, _ => Weekday::Sun } }
    fn any_weekday() -> Weekday { let n: u8 = kani::any(); kani::assume(n < 7); wd(n) }
    fn kind<T>(r: &ParseResult<T>) -> Option<ParseErrorKind> { match r { Ok(_) => None, Err(e) => Some(e.kind()) } }

    macro_rules! setter {
        ($name:ident, $set:ident, $field:ident, $ty:ty, $lo:expr, $hi:expr) => {
            // fns: Parsed::$set
            #[kani::proof]
            fn $name() {
                let v: i64 = kani::any(); let w: i64 = kani::any();
                let (lo, hi): (i64, i64) = ($lo, $hi);
                let mut p = Parsed::new();
                let r = p.$set(v);
                kani::cover!(r.is_ok()); kani::cover!(r.is_err());
                assert!(r.is_ok() == (lo <= v && v <= hi), "accepted exactly in the documented range");
                if r.is_ok() {
                    assert!(p.$field == Some(v as $ty), "stored value is exact");
                    let r2 = p.$set(w);
                    assert!(r2.is_ok() == (w == v), "setting a field twice is accepted exactly when the two values are equal");
                    assert!(p.$field == Some(v as $ty), "a refused second value does not overwrite the first");
                    if lo <= w && w <= hi && w != v { assert!(kind(&r2) == Some(ParseErrorKind::Impossible), "conflict is reported as impossible"); }
                } else {
                    assert!(kind(&r) == Some(ParseErrorKind::OutOfRange) && p.$field.is_none(), "out of range is reported as such and stores nothing");
                }
            }
        };
    }
    setter!(vk_parsed_set_year, set_year, year, i32, i32::MIN as i64, i32::MAX as i64);
    setter!(vk_parsed_set_year_div_100, set_year_div_100, year_div_100, i32, 0, i32::MAX as i64);
    setter!(vk_parsed_set_year_mod_100, set_year_mod_100, year_mod_100, i32, 0, 99);
    setter!(vk_parsed_set_isoyear, set_isoyear, isoyear, i32, i32::MIN as i64, i32::MAX as i64);
    setter!(vk_parsed_set_isoyear_div_100, set_isoyear_div_100, isoyear_div_100, i32, 0, i32::MAX as i64);
    setter!(vk_parsed_set_isoyear_mod_100, set_isoyear_mod_100, isoyear_mod_100, i32, 0, 99);
    setter!(vk_parsed_set_quarter, set_quarter, quarter, u32, 1, 4);
    setter!(vk_parsed_set_month, set_month, month, u32, 1, 12);
    setter!(vk_parsed_set_week_from_sun, set_week_from_sun, week_from_sun, u32, 0, 53);
    setter!(vk_parsed_set_week_from_mon, set_week_from_mon, week_from_mon, u32, 0, 53);
    setter!(vk_parsed_set_isoweek, set_isoweek, isoweek, u32, 1, 53);
    setter!(vk_parsed_set_ordinal, set_ordinal, ordinal, u32, 1, 366);
    setter!(vk_parsed_set_day, set_day, day, u32, 1, 31);
    setter!(vk_parsed_set_minute, set_minute, minute, u32, 0, 59);
    setter!(vk_parsed_set_second, set_second, second, u32, 0, 60);
    setter!(vk_parsed_set_nanosecond, set_nanosecond, nanosecond, u32, 0, 999_999_999);
    setter!(vk_parsed_set_timestamp, set_timestamp, timestamp, i64, i64::MIN, i64::MAX);
    setter!(vk_parsed_set_offset, set_offset, offset, i32, i32::MIN as i64, i32::MAX as i64);

    // fns: Parsed::set_hour, Parsed::set_hour12, Parsed::set_ampm, Parsed::set_weekday
    #[kani::proof]
    fn vk_parsed_set_clock() {
        let v: i64 = kani::any();
        let mut p = Parsed::new();
        let r = p.set_hour(v);
        assert!(r.is_ok() == (0 <= v && v <= 23), "24-hour clock range");
        if r.is_ok() { assert!(p.hour_div_12 == Some((v / 12) as u32) && p.hour_mod_12 == Some((v % 12) as u32)); }
        let mut q = Parsed::new();
        let r = q.set_hour12(v);
        assert!(r.is_ok() == (1 <= v && v <= 12), "12-hour clock range");
        if r.is_ok() { assert!(q.hour_mod_12 == Some((v % 12) as u32) && q.hour_div_12.is_none(), "12 o'clock is hour 0 of the half day"); }
        let pm: bool = kani::any(); let pm2: bool = kani::any();
        let mut a = Parsed::new();
        assert!(a.set_ampm(pm).is_ok() && a.hour_div_12 == Some(pm as u32));
        assert!(a.set_ampm(pm2).is_ok() == (pm == pm2));
        let (w1, w2) = (any_weekday(), any_weekday());
        let mut b = Parsed::new();
        assert!(b.set_weekday(w1).is_ok() && b.weekday == Some(w1));
        assert!(b.set_weekday(w2).is_ok() == (w1 == w2));
    }

    fn any_date_fields() -> Parsed {
        let mut p = Parsed::new();
        p.year = any_opt_i32(); p.year_div_100 = any_opt_i32(); p.year_mod_100 = any_opt_i32();
        p.isoyear = any_opt_i32(); p.isoyear_div_100 = any_opt_i32(); p.isoyear_mod_100 = any_opt_i32();
        p.quarter = any_opt_u32(); p.month = any_opt_u32(); p.week_from_sun = any_opt_u32(); p.week_from_mon = any_opt_u32();
        p.isoweek = any_opt_u32(); p.weekday = if kani::any() { Some(any_weekday()) } else { None };
        p.ordinal = any_opt_u32(); p.day = any_opt_u32();
        p
    }

    // fns: Parsed::to_naive_date, resolve_week_date (soundness: a successful result agrees with every supplied field; all 14 date fields symbolic)
    #[kani::proof]
    fn vk_parsed_date_agrees() {
        let p = any_date_fields();
        if let Ok(d) = p.to_naive_date() {
            let iw = d.iso_week();
            if let Some(y) = p.year { assert!(d.year() == y, "year"); }
            if let Some(q) = p.year_div_100 { assert!(d.year() >= 0 && d.year() / 100 == q, "century"); }
            if let Some(r) = p.year_mod_100 { assert!(d.year() >= 0 && d.year() % 100 == r, "two-digit year"); }
            if let Some(m) = p.month { assert!(d.month() == m, "month"); }
            if let Some(x) = p.day { assert!(d.day() == x, "day"); }
            if let Some(x) = p.ordinal { assert!(d.ordinal() == x, "ordinal"); }
            if let Some(x) = p.weekday { assert!(d.weekday() == x, "weekday"); }
            if let Some(x) = p.quarter { assert!((d.month() - 1) / 3 + 1 == x, "quarter"); }
            if let Some(x) = p.isoyear { assert!(iw.year() == x, "ISO year"); }
            if let Some(q) = p.isoyear_div_100 { assert!(iw.year() >= 0 && iw.year() / 100 == q, "ISO century"); }
            if let Some(r) = p.isoyear_mod_100 { assert!(iw.year() >= 0 && iw.year() % 100 == r, "ISO two-digit year"); }
            if let Some(x) = p.isoweek { assert!(iw.week() == x, "ISO week"); }
            if let Some(x) = p.week_from_sun { assert!(d.weeks_from(Weekday::Sun) == x as i32, "week number from Sunday"); }
            if let Some(x) = p.week_from_mon { assert!(d.weeks_from(Weekday::Mon) == x as i32, "week number from Monday"); }
        }
    }

    /// derive a year group from an actual year: (full, div100, mod100) each kept or dropped; returns whether the group is
    /// determinate (full year, or century + two-digit year, or the two-digit year alone inside the 1970..=2069 pivot window) or entirely absent
    fn year_group(y: i32) -> (Option<i32>, Option<i32>, Option<i32>, bool, bool) {
        let full: bool = kani::any(); let q: bool = kani::any(); let r: bool = kani::any();
        let (q, r) = if y >= 0 { (q, r) } else { (false, false) };       // century fields cannot be derived from a negative year
        let determinate = full || (q && r) || (r && !q && y >= 1970 && y <= 2069);
        let absent = !full && !q && !r;
        (if full { Some(y) } else { None }, if q { Some(y / 100) } else { None }, if r { Some(y % 100) } else { None }, determinate, absent)
    }

    // fns: Parsed::to_naive_date (completeness: fields derived from one date, determinate year groups, a sufficient combination => exactly that date; insufficient => NOT_ENOUGH)
    #[kani::proof]
    fn vk_parsed_date_complete() {
        let d0 = NaiveDate::from_yo_opt(kani::any(), kani::any());
        kani::assume(d0.is_some());
        let d = d0.unwrap();
        let iw = d.iso_week();
        let mut p = Parsed::new();
        let (y, yq, yr, ydet, yabs) = year_group(d.year());
        let (iy, iq, ir, idet, iabs) = year_group(iw.year());
        p.year = y; p.year_div_100 = yq; p.year_mod_100 = yr;
        p.isoyear = iy; p.isoyear_div_100 = iq; p.isoyear_mod_100 = ir;
        if kani::any() { p.quarter = Some((d.month() - 1) / 3 + 1); }
        if kani::any() { p.month = Some(d.month()); }
        if kani::any() { p.day = Some(d.day()); }
        if kani::any() { p.ordinal = Some(d.ordinal()); }
        if kani::any() { p.weekday = Some(d.weekday()); }
        if kani::any() { p.isoweek = Some(iw.week()); }
        if kani::any() { p.week_from_sun = Some(d.weeks_from(Weekday::Sun) as u32); }
        if kani::any() { p.week_from_mon = Some(d.weeks_from(Weekday::Mon) as u32); }
        kani::assume((ydet || yabs) && (idet || iabs));
        let sufficient = (ydet && ((p.month.is_some() && p.day.is_some()) || p.ordinal.is_some()
                                   || (p.week_from_sun.is_some() && p.weekday.is_some()) || (p.week_from_mon.is_some() && p.weekday.is_some())))
                         || (idet && p.isoweek.is_some() && p.weekday.is_some());
        let r = p.to_naive_date();
        kani::cover!(sufficient && yabs); kani::cover!(!sufficient);
        if sufficient { assert!(r == Ok(d), "fields derived from one date with a sufficient combination resolve to exactly that date"); }
        else { assert!(kind(&r) == Some(ParseErrorKind::NotEnough), "an insufficient set is reported as not enough"); }
    }

    // fns: Parsed::to_naive_time
    #[kani::proof]
    fn vk_parsed_time() {
        let mut p = Parsed::new();
        p.hour_div_12 = any_opt_u32(); p.hour_mod_12 = any_opt_u32(); p.minute = any_opt_u32(); p.second = any_opt_u32(); p.nanosecond = any_opt_u32();
        let r = p.to_naive_time();
        kani::cover!(r.is_ok() && p.second == Some(60)); kani::cover!(kind(&r) == Some(ParseErrorKind::NotEnough));
        match r {
            Ok(t) => {
                assert!(p.hour_div_12 == Some(t.hour() / 12) && p.hour_mod_12 == Some(t.hour() % 12) && p.minute == Some(t.minute()), "clock fields agree");
                match p.second {
                    Some(60) => assert!(t.second() == 59 && t.nanosecond() >= 1_000_000_000, "second 60 is a leap second"),
                    Some(s) => assert!(t.second() == s && t.nanosecond() < 1_000_000_000),
                    None => assert!(t.second() == 0 && t.nanosecond() == 0 && p.nanosecond.is_none(), "missing seconds read as zero"),
                }
                if let Some(n) = p.nanosecond { assert!(t.nanosecond() % 1_000_000_000 == n, "nanosecond agrees"); }
            }
            Err(e) => {
                let in_range = p.hour_div_12.map_or(true, |v| v <= 1) && p.hour_mod_12.map_or(true, |v| v <= 11) && p.minute.map_or(true, |v| v <= 59)
                    && p.second.map_or(true, |v| v <= 60) && p.nanosecond.map_or(true, |v| v <= 999_999_999);
                let enough = p.hour_div_12.is_some() && p.hour_mod_12.is_some() && p.minute.is_some() && (p.nanosecond.is_none() || p.second.is_some());
                assert!(!(in_range && enough), "in-range and sufficient clock fields always resolve");
                if in_range { assert!(e.kind() == ParseErrorKind::NotEnough, "insufficient set is reported as not enough"); }
                if enough { assert!(e.kind() == ParseErrorKind::OutOfRange, "out-of-range value is reported as such"); }
            }
        }
    }

    // fns: Parsed::to_fixed_offset
    #[kani::proof]
    fn vk_parsed_offset() {
        let mut p = Parsed::new();
        p.offset = any_opt_i32();
        match p.to_fixed_offset() {
            Ok(o) => assert!(p.offset == Some(o.local_minus_utc())),
            Err(e) => match p.offset { None => assert!(e.kind() == ParseErrorKind::NotEnough), Some(v) => assert!((v <= -86400 || v >= 86400) && e.kind() == ParseErrorKind::OutOfRange) },
        }
    }
}
