// @append: src/format/parsed.rs
// C14: field resolution never returns a value that contradicts a supplied field
#[cfg(kani)]
mod verif_kani_parsed {
    use super::*;
    use crate::{Datelike, Timelike, Weekday};
    use super::super::{ParseError, ParseErrorKind};

    fn any_opt_i32() -> Option<i32> { if kani::any() { Some(kani::any()) } else { None } }
    fn any_opt_u32() -> Option<u32> { if kani::any() { Some(kani::any()) } else { None } }
    fn wd(n: u8) -> Weekday { match n { 0 => Weekday::Mon, 1 => Weekday::Tue, 2 => Weekday::Wed, 3 => Weekday::Thu, 4 => Weekday::Fri, 5 => Weekday::Sat, _ => Weekday::Sun } }
    fn any_weekday() -> Weekday { let n: u8 = kani::any(); kani::assume(n < 7); wd(n) }
    fn kind<T>(r: &ParseResult<T>) -> Option<ParseErrorKind> { match r { Ok(_) => None, Err(e) => Some(e.kind()) } }

    fn check_setter<T: PartialEq + Copy>(set: fn(&mut Parsed, i64) -> ParseResult<()>, get: fn(&Parsed) -> Option<T>, conv: fn(i64) -> T, lo: i64, hi: i64) {
        let v: i64 = kani::any(); let w: i64 = kani::any();
        let mut p = Parsed::new();
        let r = set(&mut p, v);
        kani::cover!(r.is_ok(), "accepted"); kani::cover!(r.is_err() || lo == i64::MIN, "refused");
        assert!(r.is_ok() == (lo <= v && v <= hi), "accepted exactly in the documented range");
        if r.is_ok() {
            assert!(get(&p) == Some(conv(v)), "stored value is exact");
            let r2 = set(&mut p, w);
            assert!(r2.is_ok() == (w == v), "setting a field twice is accepted exactly when the two values are equal");
            assert!(get(&p) == Some(conv(v)), "a refused second value does not overwrite the first");
            if lo <= w && w <= hi && w != v { assert!(kind(&r2) == Some(ParseErrorKind::Impossible), "conflict is reported as impossible"); }
        } else {
            assert!(kind(&r) == Some(ParseErrorKind::OutOfRange) && get(&p).is_none(), "out of range is reported as such and stores nothing");
        }
    }
    // fns: Parsed::set_year
    #[kani::proof]
    fn vk_parsed_set_year() { check_setter::<i32>(|p, v| p.set_year(v), |p| p.year, |v| v as i32, i32::MIN as i64, i32::MAX as i64); }
    // fns: Parsed::set_year_div_100
    #[kani::proof]
    fn vk_parsed_set_year_div_100() { check_setter::<i32>(|p, v| p.set_year_div_100(v), |p| p.year_div_100, |v| v as i32, 0, i32::MAX as i64); }
    // fns: Parsed::set_year_mod_100
    #[kani::proof]
    fn vk_parsed_set_year_mod_100() { check_setter::<i32>(|p, v| p.set_year_mod_100(v), |p| p.year_mod_100, |v| v as i32, 0, 99); }
    // fns: Parsed::set_isoyear
    #[kani::proof]
    fn vk_parsed_set_isoyear() { check_setter::<i32>(|p, v| p.set_isoyear(v), |p| p.isoyear, |v| v as i32, i32::MIN as i64, i32::MAX as i64); }
    // fns: Parsed::set_isoyear_div_100
    #[kani::proof]
    fn vk_parsed_set_isoyear_div_100() { check_setter::<i32>(|p, v| p.set_isoyear_div_100(v), |p| p.isoyear_div_100, |v| v as i32, 0, i32::MAX as i64); }
    // fns: Parsed::set_isoyear_mod_100
    #[kani::proof]
    fn vk_parsed_set_isoyear_mod_100() { check_setter::<i32>(|p, v| p.set_isoyear_mod_100(v), |p| p.isoyear_mod_100, |v| v as i32, 0, 99); }
    // fns: Parsed::set_quarter
    #[kani::proof]
    fn vk_parsed_set_quarter() { check_setter::<u32>(|p, v| p.set_quarter(v), |p| p.quarter, |v| v as u32, 1, 4); }
    // fns: Parsed::set_month
    #[kani::proof]
    fn vk_parsed_set_month() { check_setter::<u32>(|p, v| p.set_month(v), |p| p.month, |v| v as u32, 1, 12); }
    // fns: Parsed::set_week_from_sun
    #[kani::proof]
    fn vk_parsed_set_week_from_sun() { check_setter::<u32>(|p, v| p.set_week_from_sun(v), |p| p.week_from_sun, |v| v as u32, 0, 53); }
    // fns: Parsed::set_week_from_mon
    #[kani::proof]
    fn vk_parsed_set_week_from_mon() { check_setter::<u32>(|p, v| p.set_week_from_mon(v), |p| p.week_from_mon, |v| v as u32, 0, 53); }
    // fns: Parsed::set_isoweek
    #[kani::proof]
    fn vk_parsed_set_isoweek() { check_setter::<u32>(|p, v| p.set_isoweek(v), |p| p.isoweek, |v| v as u32, 1, 53); }
    // fns: Parsed::set_ordinal
    #[kani::proof]
    fn vk_parsed_set_ordinal() { check_setter::<u32>(|p, v| p.set_ordinal(v), |p| p.ordinal, |v| v as u32, 1, 366); }
    // fns: Parsed::set_day
    #[kani::proof]
    fn vk_parsed_set_day() { check_setter::<u32>(|p, v| p.set_day(v), |p| p.day, |v| v as u32, 1, 31); }
    // fns: Parsed::set_minute
    #[kani::proof]
    fn vk_parsed_set_minute() { check_setter::<u32>(|p, v| p.set_minute(v), |p| p.minute, |v| v as u32, 0, 59); }
    // fns: Parsed::set_second
    #[kani::proof]
    fn vk_parsed_set_second() { check_setter::<u32>(|p, v| p.set_second(v), |p| p.second, |v| v as u32, 0, 60); }
    // fns: Parsed::set_nanosecond
    #[kani::proof]
    fn vk_parsed_set_nanosecond() { check_setter::<u32>(|p, v| p.set_nanosecond(v), |p| p.nanosecond, |v| v as u32, 0, 999_999_999); }
    // fns: Parsed::set_timestamp
    #[kani::proof]
    fn vk_parsed_set_timestamp() { check_setter::<i64>(|p, v| p.set_timestamp(v), |p| p.timestamp, |v| v as i64, i64::MIN, i64::MAX); }
    // fns: Parsed::set_offset
    #[kani::proof]
    fn vk_parsed_set_offset() { check_setter::<i32>(|p, v| p.set_offset(v), |p| p.offset, |v| v as i32, i32::MIN as i64, i32::MAX as i64); }

    // fns: Parsed::set_hour, Parsed::set_hour12, Parsed::set_ampm, Parsed::set_weekday
    #[kani::proof]
    fn vk_parsed_set_clock() {
        let v: i64 = kani::any();
        let mut p = Parsed::new();
        let r = p.set_hour(v);
        assert!(r.is_ok() == (0 <= v && v <= 23), "24-hour clock range");
        if r.is_ok() { assert!(p.hour_div_12 == Some((v / 12) as u32) && p.hour_mod_12 == Some((v % 12) as u32), "p.hour_div_12 == Some((v / 12) as u32) && p.hour_mod_12 == Some((v % 1"); }
        let mut q = Parsed::new();
        let r = q.set_hour12(v);
        assert!(r.is_ok() == (1 <= v && v <= 12), "12-hour clock range");
        if r.is_ok() { assert!(q.hour_mod_12 == Some((v % 12) as u32) && q.hour_div_12.is_none(), "12 o'clock is hour 0 of the half day"); }
        let pm: bool = kani::any(); let pm2: bool = kani::any();
        let mut a = Parsed::new();
        assert!(a.set_ampm(pm).is_ok() && a.hour_div_12 == Some(pm as u32), "a.set_ampm(pm).is_ok() && a.hour_div_12 == Some(pm as u32)");
        assert!(a.set_ampm(pm2).is_ok() == (pm == pm2), "a.set_ampm(pm2).is_ok() == (pm == pm2)");
        let (w1, w2) = (any_weekday(), any_weekday());
        let mut b = Parsed::new();
        assert!(b.set_weekday(w1).is_ok() && b.weekday == Some(w1), "b.set_weekday(w1).is_ok() && b.weekday == Some(w1)");
        assert!(b.set_weekday(w2).is_ok() == (w1 == w2), "b.set_weekday(w2).is_ok() == (w1 == w2)");
    }

    fn any_date_fields() -> Parsed {
        let mut p = Parsed::new();
        p.year = any_opt_i32(); p.year_div_100 = any_opt_i32(); p.year_mod_100 = any_opt_i32();
        p.isoyear = any_opt_i32(); p.isoyear_div_100 = any_opt_i32(); p.isoyear_mod_100 = any_opt_i32();
        p.quarter = any_opt_u32(); p.month = any_opt_u32(); p.week_from_sun = any_opt_u32(); p.week_from_mon = any_opt_u32();
        p.isoweek = any_opt_u32(); p.weekday = if kani::any() { Some(any_weekday()) } else { None };
        p.ordinal = any_opt_u32(); p.day = any_opt_u32();
        p
    }

    // fns: Parsed::to_naive_date, resolve_week_date (soundness: a successful result agrees with every supplied field; all 14 date fields symbolic)
    #[kani::proof]
    fn vk_parsed_date_agrees() {
        let p = any_date_fields();
        if let Ok(d) = p.to_naive_date() {
            let iw = d.iso_week();
            if let Some(y) = p.year { assert!(d.year() == y, "year"); }
            if let Some(q) = p.year_div_100 { assert!(d.year() >= 0 && d.year() / 100 == q, "century"); }
            if let Some(r) = p.year_mod_100 { assert!(d.year() >= 0 && d.year() % 100 == r, "two-digit year"); }
            if let Some(m) = p.month { assert!(d.month() == m, "month"); }
            if let Some(x) = p.day { assert!(d.day() == x, "day"); }
            if let Some(x) = p.ordinal { assert!(d.ordinal() == x, "ordinal"); }
            if let Some(x) = p.weekday { assert!(d.weekday() == x, "weekday"); }
            if let Some(x) = p.quarter { assert!((d.month() - 1) / 3 + 1 == x, "quarter"); }
            if let Some(x) = p.isoyear { assert!(iw.year() == x, "ISO year"); }
            if let Some(q) = p.isoyear_div_100 { assert!(iw.year() >= 0 && iw.year() / 100 == q, "ISO century"); }
            if let Some(r) = p.isoyear_mod_100 { assert!(iw.year() >= 0 && iw.year() % 100 == r, "ISO two-digit year"); }
            if let Some(x) = p.isoweek { assert!(iw.week() == x, "ISO week"); }
            if let Some(x) = p.week_from_sun { assert!(d.weeks_from(Weekday::Sun) == x as i32, "week number from Sunday"); }
            if let Some(x) = p.week_from_mon { assert!(d.weeks_from(Weekday::Mon) == x as i32, "week number from Monday"); }
        }
    }

    fn any_valid_date() -> NaiveDate { let d = NaiveDate::from_yo_opt(kani::any(), kani::any()); kani::assume(d.is_some()); d.unwrap() }
    /// every field derived from d is present or absent nondeterministically, except those forced on by `force` bits:
    /// 1 year, 2 month, 4 day, 8 ordinal, 16 weekday, 32 week_from_sun, 64 week_from_mon, 128 isoyear, 256 isoweek
    fn derived(d: NaiveDate, force: u32, forbid: u32) -> Parsed {
        let iw = d.iso_week();
        let mut p = Parsed::new();
        let on = |bit: u32| -> bool { if force & bit != 0 { true } else if forbid & bit != 0 { false } else { kani::any() } };
        if on(1) { p.year = Some(d.year()); }
        if d.year() >= 0 { if kani::any() { p.year_div_100 = Some(d.year() / 100); } if kani::any() { p.year_mod_100 = Some(d.year() % 100); } }
        if on(128) { p.isoyear = Some(iw.year()); }
        if iw.year() >= 0 && force & 128 != 0 { if kani::any() { p.isoyear_div_100 = Some(iw.year() / 100); } if kani::any() { p.isoyear_mod_100 = Some(iw.year() % 100); } }
        if kani::any() { p.quarter = Some((d.month() - 1) / 3 + 1); }
        if on(2) { p.month = Some(d.month()); }
        if on(4) { p.day = Some(d.day()); }
        if on(8) { p.ordinal = Some(d.ordinal()); }
        if on(16) { p.weekday = Some(d.weekday()); }
        if on(256) { p.isoweek = Some(iw.week()); }
        if on(32) { p.week_from_sun = Some(d.weeks_from(Weekday::Sun) as u32); }
        if on(64) { p.week_from_mon = Some(d.weeks_from(Weekday::Mon) as u32); }
        p
    }

    // fns: Parsed::to_naive_date (completeness, year + month + day present, every other derived field optional)
    #[kani::proof]
    fn vk_parsed_complete_ymd() { let d = any_valid_date(); let p = derived(d, 1 | 2 | 4, 0); assert!(p.to_naive_date() == Ok(d), "year, month, day (+ any consistent extra fields) resolve to exactly that date"); }

    // fns: Parsed::to_naive_date (completeness, year + ordinal)
    #[kani::proof]
    fn vk_parsed_complete_yo() { let d = any_valid_date(); let p = derived(d, 1 | 8, 0); assert!(p.to_naive_date() == Ok(d), "year, ordinal (+ any consistent extra fields) resolve to exactly that date"); }

    // fns: Parsed::to_naive_date, resolve_week_date (completeness, year + week from Sunday + weekday)
    #[kani::proof]
    fn vk_parsed_complete_wsun() { let d = any_valid_date(); let p = derived(d, 1 | 32 | 16, 2 | 4 | 8); assert!(p.to_naive_date() == Ok(d), "year, Sunday-based week, weekday resolve to exactly that date"); }

    // fns: Parsed::to_naive_date, resolve_week_date (completeness, year + week from Monday + weekday)
    #[kani::proof]
    fn vk_parsed_complete_wmon() { let d = any_valid_date(); let p = derived(d, 1 | 64 | 16, 2 | 4 | 8 | 32); assert!(p.to_naive_date() == Ok(d), "year, Monday-based week, weekday resolve to exactly that date"); }

    // fns: Parsed::to_naive_date (completeness, ISO year + ISO week + weekday, no calendar-year based combination)
    #[kani::proof]
    fn vk_parsed_complete_iso() {
        let d = any_valid_date();
        let mut p = derived(d, 128 | 256 | 16, 1 | 8 | 32 | 64);
        p.year_div_100 = None; p.year_mod_100 = None;
        kani::assume(!(p.month.is_some() && p.day.is_some()) || true);
        assert!(p.to_naive_date() == Ok(d), "ISO year, ISO week, weekday resolve to exactly that date");
    }

    // fns: Parsed::to_naive_date (year groups: century + two-digit year, two-digit year alone with the 1970..=2069 pivot; indeterminate groups are not enough)
    #[kani::proof]
    fn vk_parsed_year_groups() {
        let d = any_valid_date();
        kani::assume(d.year() >= 0);
        let mut p = Parsed::new();
        p.month = Some(d.month()); p.day = Some(d.day());
        let q: bool = kani::any(); let r: bool = kani::any();
        if q { p.year_div_100 = Some(d.year() / 100); }
        if r { p.year_mod_100 = Some(d.year() % 100); }
        let res = p.to_naive_date();
        kani::cover!(q && r); kani::cover!(!q && r && d.year() >= 1970 && d.year() <= 2069);
        if q && r { assert!(res == Ok(d), "century plus two-digit year determine the year"); }
        else if r { if d.year() >= 1970 && d.year() <= 2069 { assert!(res == Ok(d), "a two-digit year alone is read with the 1970-2069 pivot"); } else { assert!(res != Ok(d), "res != Ok(d)"); } }
        else { assert!(kind(&res) == Some(ParseErrorKind::NotEnough), "no year information is not enough"); }
    }

    // fns: Parsed::to_naive_date (fields derived from one date without any sufficient combination are reported as not enough)
    #[kani::proof]
    fn vk_parsed_insufficient() {
        let d = any_valid_date();
        let mut p = Parsed::new();
        if kani::any() { p.year = Some(d.year()); }
        if kani::any() { p.isoyear = Some(d.iso_week().year()); }
        if kani::any() { p.quarter = Some((d.month() - 1) / 3 + 1); }
        let which: u8 = kani::any();
        match which % 6 { 0 => p.month = Some(d.month()), 1 => p.day = Some(d.day()), 2 => p.weekday = Some(d.weekday()), 3 => p.isoweek = Some(d.iso_week().week()),
                          4 => p.week_from_sun = Some(d.weeks_from(Weekday::Sun) as u32), _ => p.week_from_mon = Some(d.weeks_from(Weekday::Mon) as u32) }
        assert!(kind(&p.to_naive_date()) == Some(ParseErrorKind::NotEnough), "an insufficient set is reported as not enough");
    }

    // fns: Parsed::to_naive_time
    #[kani::proof]
    fn vk_parsed_time() {
        let mut p = Parsed::new();
        p.hour_div_12 = any_opt_u32(); p.hour_mod_12 = any_opt_u32(); p.minute = any_opt_u32(); p.second = any_opt_u32(); p.nanosecond = any_opt_u32();
        let r = p.to_naive_time();
        kani::cover!(r.is_ok() && p.second == Some(60)); kani::cover!(kind(&r) == Some(ParseErrorKind::NotEnough));
        match r {
            Ok(t) => {
                assert!(p.hour_div_12 == Some(t.hour() / 12) && p.hour_mod_12 == Some(t.hour() % 12) && p.minute == Some(t.minute()), "clock fields agree");
                match p.second {
                    Some(60) => assert!(t.second() == 59 && t.nanosecond() >= 1_000_000_000, "second 60 is a leap second"),
                    Some(s) => assert!(t.second() == s && t.nanosecond() < 1_000_000_000, "t.second() == s && t.nanosecond() < 1_000_000_000"),
                    None => assert!(t.second() == 0 && t.nanosecond() == 0 && p.nanosecond.is_none(), "missing seconds read as zero"),
                }
                if let Some(n) = p.nanosecond { assert!(t.nanosecond() % 1_000_000_000 == n, "nanosecond agrees"); }
            }
            Err(e) => {
                let in_range = p.hour_div_12.map_or(true, |v| v <= 1) && p.hour_mod_12.map_or(true, |v| v <= 11) && p.minute.map_or(true, |v| v <= 59)
                    && p.second.map_or(true, |v| v <= 60) && p.nanosecond.map_or(true, |v| v <= 999_999_999);
                let enough = p.hour_div_12.is_some() && p.hour_mod_12.is_some() && p.minute.is_some() && (p.nanosecond.is_none() || p.second.is_some());
                assert!(!(in_range && enough), "in-range and sufficient clock fields always resolve");
                if in_range { assert!(e.kind() == ParseErrorKind::NotEnough, "insufficient set is reported as not enough"); }
                if enough { assert!(e.kind() == ParseErrorKind::OutOfRange, "out-of-range value is reported as such"); }
            }
        }
    }

    // fns: Parsed::to_fixed_offset
    #[kani::proof]
    fn vk_parsed_offset() {
        let mut p = Parsed::new();
        p.offset = any_opt_i32();
        match p.to_fixed_offset() {
            Ok(o) => assert!(p.offset == Some(o.local_minus_utc()), "p.offset == Some(o.local_minus_utc())"),
            Err(e) => match p.offset { None => assert!(e.kind() == ParseErrorKind::NotEnough, "e.kind() == ParseErrorKind::NotEnough"), Some(v) => assert!((v <= -86400 || v >= 86400) && e.kind() == ParseErrorKind::OutOfRange, "(v <= -86400 || v >= 86400) && e.kind() == ParseErrorKind::OutOfRange") },
        }
    }

    // ---- Parsed::to_naive_datetime_with_offset, checked against the *contracts* of its callees -----------------------------------
    // The four callees that do the calendar work are replaced by stubs that return ANY result their proved contracts allow and
    // record it, so the harness checks what this function itself adds: which callee result it returns, the timestamp cross-check,
    // the order of error kinds, the leap-second step, and that it returns for every input.
    //   to_naive_date  : a successful date agrees with the supplied fields            (vk_parsed_date_agrees)
    //   to_naive_time  : a successful time agrees with the clock fields, 60 = leap     (vk_parsed_time)
    //   DateTime::from_timestamp(s, 0): None, or the date-time of that second, nanosecond 0   (Verus unit datetime)
    //   NaiveDateTime::checked_sub_signed: None, or a well-formed date-time             (Verus unit datetime: dt_add_post)
    // All recording goes through ONE static whose bytes contain a magic word.  (Kani 0.68 gives a `static mut` whose initial bytes equal
    // those of a constant allocation the SAME memory as that constant: writing `static mut CALLS: u8 = 0` changed the value of the
    // const OUT_OF_RANGE = ParseError(OutOfRange).  A record that starts with a unique word cannot coincide with any constant.)
    struct Rec {
        magic: u64,
        cso_calls: u8,
        cso_args: [Option<(NaiveDateTime, i32)>; 2],
        cso_res: [Option<NaiveDateTime>; 2],
        ts_calls: u8,
        ts_arg: Option<NaiveDateTime>,
        ts_res: i64,
        date_calls: u8,
        time_calls: u8,
        date_res: [Option<ParseResult<NaiveDate>>; 2],
        time_res: [Option<ParseResult<NaiveTime>>; 2],
        ft_calls: u8,
        ft_args: (i64, u32),
        ft_res: Option<NaiveDateTime>,
        cs_calls: u8,
        cs_args: Option<(NaiveDateTime, TimeDelta)>,
        cs_res: Option<NaiveDateTime>,
        ndt_calls: u8,
        ndt_arg: i32,
        ndt_res: Option<ParseResult<NaiveDateTime>>,
        z_utc_calls: u8,
        z_utc_arg: Option<NaiveDateTime>,
        z_utc_res: i32,
        z_loc_calls: u8,
        z_loc_arg: Option<NaiveDateTime>,
        z_loc_res: MappedLocalTime<i32>,
    }
    static mut REC: Rec = Rec { magic: 0xC0DE_5EED_D15C_0001, cso_calls: 0, cso_args: [None, None], cso_res: [None, None], ts_calls: 0, ts_arg: None, ts_res: 0, date_calls: 0, time_calls: 0, date_res: [None, None], time_res: [None, None], ft_calls: 0, ft_args: (0, 0), ft_res: None, cs_calls: 0, cs_args: None, cs_res: None, ndt_calls: 0, ndt_arg: 0, ndt_res: None, z_utc_calls: 0, z_utc_arg: None, z_utc_res: 0, z_loc_calls: 0, z_loc_arg: None, z_loc_res: MappedLocalTime::None };
    fn any_err() -> ParseError { let k: u8 = kani::any(); match k { 0 => OUT_OF_RANGE, 1 => IMPOSSIBLE, _ => NOT_ENOUGH } }
    fn any_time(frac: u32) -> NaiveTime { let t = NaiveTime::from_num_seconds_from_midnight_opt(kani::any(), frac); kani::assume(t.is_some()); t.unwrap() }
    fn stub_to_naive_date(p: &Parsed) -> ParseResult<NaiveDate> {
        let r: ParseResult<NaiveDate> = if kani::any() { Ok(any_valid_date()) } else { Err(any_err()) };
        if let Ok(d) = r {
            if let Some(y) = p.year { kani::assume(d.year() == y); }
            if let Some(o) = p.ordinal { kani::assume(d.ordinal() == o); }
            if let Some(m) = p.month { kani::assume(d.month() == m); }
            if let Some(x) = p.day { kani::assume(d.day() == x); }
        }
        unsafe { let i = REC.date_calls as usize; if i < 2 { REC.date_res[i] = Some(r); } REC.date_calls += 1; }
        r
    }
    fn stub_to_naive_time(p: &Parsed) -> ParseResult<NaiveTime> {
        let r: ParseResult<NaiveTime> = if kani::any() { Ok(any_time(kani::any())) } else { Err(any_err()) };
        if let Ok(t) = r {
            kani::assume(p.hour_div_12 == Some(t.hour() / 12) && p.hour_mod_12 == Some(t.hour() % 12) && p.minute == Some(t.minute()));
            match p.second {
                Some(60) => kani::assume(t.second() == 59 && t.nanosecond() >= 1_000_000_000),
                Some(sec) => kani::assume(t.second() == sec && t.nanosecond() < 1_000_000_000),
                None => kani::assume(t.second() == 0 && t.nanosecond() == 0),
            }
            if let Some(n) = p.nanosecond { kani::assume(t.nanosecond() % 1_000_000_000 == n); }
        }
        unsafe { let i = REC.time_calls as usize; if i < 2 { REC.time_res[i] = Some(r); } REC.time_calls += 1; }
        r
    }
    fn stub_from_timestamp(secs: i64, nsecs: u32) -> Option<crate::DateTime<crate::Utc>> {
        kani::assume(nsecs == 0);                        // the only form this caller uses
        let r = if kani::any() { Some(NaiveDateTime::new(any_valid_date(), any_time(0))) } else { None };
        unsafe { REC.ft_calls += 1; REC.ft_args = (secs, nsecs); REC.ft_res = r; }
        r.map(|x| x.and_utc())
    }
    //   DateTime::timestamp: the Unix second count of a valid date-time, which lies in [-8_334_601_228_800, 8_210_266_876_799]   (Verus unit datetime)
    fn stub_timestamp<Tz: TimeZone>(x: &crate::DateTime<Tz>) -> i64 {
        let v: i64 = kani::any();
        kani::assume(v >= -8_334_601_228_800 && v <= 8_210_266_876_799);
        unsafe { REC.ts_calls += 1; REC.ts_arg = Some(x.naive_utc()); REC.ts_res = v; }
        v
    }
    fn stub_checked_sub_signed(x: NaiveDateTime, rhs: TimeDelta) -> Option<NaiveDateTime> {
        let r = if kani::any() { Some(NaiveDateTime::new(any_valid_date(), any_time(x.nanosecond()))) } else { None };
        unsafe { REC.cs_calls += 1; REC.cs_args = Some((x, rhs)); REC.cs_res = r; }
        r
    }

    fn ndt_setup() -> (Parsed, i32, ParseResult<NaiveDateTime>, ParseResult<NaiveDate>, ParseResult<NaiveTime>) {
        let mut p = Parsed::new();
        p.year = any_opt_i32(); p.ordinal = any_opt_u32(); p.month = any_opt_u32(); p.day = any_opt_u32();
        p.hour_div_12 = any_opt_u32(); p.hour_mod_12 = any_opt_u32(); p.minute = any_opt_u32(); p.second = any_opt_u32(); p.nanosecond = any_opt_u32();
        p.timestamp = if kani::any() { Some(kani::any()) } else { None };
        let off: i32 = kani::any();
        let r = p.to_naive_datetime_with_offset(off);          // returns for every input: no panic, no overflow
        let (d1, t1) = unsafe { (REC.date_res[0].unwrap(), REC.time_res[0].unwrap()) };
        (p, off, r, d1, t1)
    }

    // the two harnesses split the outcomes of the first date / time resolution (both succeed | at least one fails); together they cover every input
    // fns: Parsed::to_naive_datetime_with_offset (date and time both resolve)
    // assumes: kani:vk_parsed_date_agrees, kani:vk_parsed_time, DateTime::timestamp
    #[kani::proof]
    #[kani::stub(Parsed::to_naive_date, stub_to_naive_date)]
    #[kani::stub(Parsed::to_naive_time, stub_to_naive_time)]
    #[kani::stub(crate::DateTime::<crate::Utc>::from_timestamp, stub_from_timestamp)]
    #[kani::stub(NaiveDateTime::checked_sub_signed, stub_checked_sub_signed)]
    #[kani::stub(crate::DateTime::timestamp, stub_timestamp)]
    fn vk_parsed_ndt_with_offset_direct() {
        let (p, off, r, d1, t1) = ndt_setup();
        kani::assume(d1.is_ok() && t1.is_ok());
        kani::cover!(kind(&r) == Some(ParseErrorKind::Impossible)); kani::cover!(r.is_ok() && p.timestamp.is_some());
        let (d, t) = (d1.unwrap(), t1.unwrap());

                // both parts resolve: exactly that date-time, unless a supplied timestamp contradicts it
                let dt = d.and_time(t);
                let (ts_calls, ts_arg, ts_res) = unsafe { (REC.ts_calls, REC.ts_arg, REC.ts_res) };
                assert!(ts_calls == 1 && ts_arg == Some(dt), "the cross-check uses the Unix second count of exactly that date-time");
                let ts = ts_res - off as i64;
                let ts_ok = match p.timestamp { None => true, Some(g) => g == ts || (t.nanosecond() >= 1_000_000_000 && g == ts + 1) };
                assert!(r == if ts_ok { Ok(dt) } else { Err(IMPOSSIBLE) }, "date and time resolve: that value, or Impossible when the timestamp disagrees");
    }

    // fns: Parsed::to_naive_datetime_with_offset (resolution from the timestamp, error precedence)
    // assumes: kani:vk_parsed_date_agrees, kani:vk_parsed_time, DateTime::from_timestamp, NaiveDateTime::checked_sub_signed
    #[kani::proof]
    #[kani::stub(Parsed::to_naive_date, stub_to_naive_date)]
    #[kani::stub(Parsed::to_naive_time, stub_to_naive_time)]
    #[kani::stub(crate::DateTime::<crate::Utc>::from_timestamp, stub_from_timestamp)]
    #[kani::stub(NaiveDateTime::checked_sub_signed, stub_checked_sub_signed)]
    fn vk_parsed_ndt_with_offset_from_timestamp() {
        let (p, off, r, d1, t1) = ndt_setup();
        kani::assume(!(d1.is_ok() && t1.is_ok()));
        kani::cover!(r.is_ok()); kani::cover!(r.is_ok() && p.second == Some(60) && unsafe { REC.cs_calls } == 1);
        match p.timestamp {
                None => assert!(r == Err(match d1 { Err(e) => e, Ok(_) => t1.unwrap_err() }), "without a timestamp the first error is reported"),
                Some(g) => {
                    let oor = kind(&d1) == Some(ParseErrorKind::OutOfRange) || kind(&t1) == Some(ParseErrorKind::OutOfRange);
                    let imp = kind(&d1) == Some(ParseErrorKind::Impossible) || kind(&t1) == Some(ParseErrorKind::Impossible);
                    if oor { assert!(r == Err(OUT_OF_RANGE), "an out-of-range part wins over the timestamp"); }
                    else if imp { assert!(r == Err(IMPOSSIBLE), "an impossible part wins over the timestamp"); }
                    else {
                        // resolved from the timestamp: the second from_timestamp(g + off) names, or the leap second that ends there
                        let (ft_calls, ft_args, base, cs_calls, cs_args, stepped) = unsafe { (REC.ft_calls, REC.ft_args, REC.ft_res, REC.cs_calls, REC.cs_args, REC.cs_res) };
                        match g.checked_add(off as i64) {
                            None => assert!(r == Err(OUT_OF_RANGE) && ft_calls == 0, "timestamp + offset out of i64: OutOfRange"),
                            Some(sum) => {
                                assert!(ft_calls == 1 && ft_args == (sum, 0), "the date-time is rebuilt from timestamp + offset");
                                match base {
                                    None => assert!(r == Err(OUT_OF_RANGE), "unrepresentable instant: OutOfRange"),
                                    Some(base) => {
                                        let step = p.second == Some(60) && base.second() == 0;
                                        if p.second == Some(60) && base.second() != 0 && base.second() != 59 { assert!(r == Err(IMPOSSIBLE), "a leap second can only sit at the end of a minute"); }
                                        if step { assert!(cs_calls == 1 && cs_args == Some((base, TimeDelta::try_seconds(1).unwrap())), "stepped back exactly one second"); } else { assert!(cs_calls == 0, "no step otherwise"); }
                                        if step && stepped.is_none() { assert!(r == Err(OUT_OF_RANGE), "the step leaves the range: OutOfRange"); }
                                        // completeness of this step: unless the leap second sits mid-minute, the step leaves the range or a supplied field
                                        // contradicts the second the timestamp names, the completed field set IS handed to the two resolvers and their answer returned
                                        let early = (p.second == Some(60) && base.second() != 0 && base.second() != 59) || (step && stepped.is_none());
                                        if !early {
                                            let want = if step { stepped.unwrap() } else { base };
                                            let conflict = p.year.map_or(false, |y| y != want.year()) || p.ordinal.map_or(false, |o| o != want.ordinal())
                                                || p.hour_div_12.map_or(false, |v| v != want.hour() / 12) || p.hour_mod_12.map_or(false, |v| v != want.hour() % 12)
                                                || p.minute.map_or(false, |v| v != want.minute()) || (p.second != Some(60) && p.second.map_or(false, |v| v != want.second()));
                                            let (dc, tc) = unsafe { (REC.date_calls, REC.time_calls) };
                                            if conflict { assert!(r == Err(IMPOSSIBLE) && dc == 1, "a supplied field contradicting the timestamp: Impossible"); }
                                            else {
                                                assert!(dc == 2, "the completed field set is resolved");
                                                let (d2, t2) = unsafe { (REC.date_res[1].unwrap(), REC.time_res[1]) };
                                                match d2 { Err(e) => assert!(r == Err(e), "date error passed on"), Ok(d) => { assert!(tc == 2, "then the time"); match t2.unwrap() { Err(e) => assert!(r == Err(e), "time error passed on"), Ok(t) => assert!(r == Ok(d.and_time(t)), "date and time of the completed field set") } } }
                                            }
                                        }
                                        if let Ok(dt) = r {
                                            let want = if step { stepped.unwrap() } else { base };
                                            let (d2, t2) = unsafe { (REC.date_res[1].unwrap(), REC.time_res[1].unwrap()) };
                                            assert!(d2 == Ok(dt.date()) && t2 == Ok(dt.time()), "the result is what the resolvers return for the completed field set");
                                            assert!(dt.date() == want.date() && dt.hour() == want.hour() && dt.minute() == want.minute(), "date, hour and minute of the second the timestamp names");
                                            if p.second != Some(60) { assert!(dt.second() == want.second() && dt.nanosecond() < 1_000_000_000, "that very second"); }
                                            else { assert!(dt.second() == 59 && dt.nanosecond() >= 1_000_000_000, "second 60 is the leap representation"); }
                                            if let Some(n) = p.nanosecond { assert!(dt.nanosecond() % 1_000_000_000 == n, "nanosecond field kept"); }
                                        }
                                    }
                                }
                            }
                        }
                    }
                }
            }
    }

    // ---- Parsed::to_datetime over the contract of to_naive_datetime_with_offset ---------------------------------------------------
    fn stub_ndt_with_offset(_p: &Parsed, offset: i32) -> ParseResult<NaiveDateTime> {
        let r: ParseResult<NaiveDateTime> = if kani::any() { Ok(NaiveDateTime::new(any_valid_date(), any_time(kani::any()))) } else { Err(any_err()) };
        unsafe { REC.ndt_calls += 1; REC.ndt_arg = offset; REC.ndt_res = Some(r); }
        r
    }

    // fns: Parsed::to_datetime
    // assumes: kani:vk_parsed_ndt_with_offset_direct, kani:vk_parsed_ndt_with_offset_from_timestamp
    #[kani::proof]
    #[kani::stub(Parsed::to_naive_datetime_with_offset, stub_ndt_with_offset)]
    fn vk_parsed_to_datetime() {
        let mut p = Parsed::new();
        p.offset = any_opt_i32();
        p.timestamp = if kani::any() { Some(kani::any()) } else { None };
        let r = p.to_datetime();
        let (calls, arg, res) = unsafe { (REC.ndt_calls, REC.ndt_arg, REC.ndt_res) };
        kani::cover!(r.is_ok() && p.offset.is_none()); kani::cover!(kind(&r) == Some(ParseErrorKind::Impossible) && res.map_or(false, |x| x.is_ok()));
        let off = match (p.offset, p.timestamp) { (Some(o), _) => Some(o), (None, Some(_)) => Some(0), (None, None) => None };
        match off {
            None => assert!(r == Err(NOT_ENOUGH) && calls == 0, "neither offset nor timestamp: not enough"),
            Some(o) => {
                assert!(calls == 1 && arg == o, "the local value is resolved with the supplied offset (0 for a bare timestamp)");
                match res.unwrap() {
                    Err(e) => assert!(r == Err(e), "the resolver's error is passed on"),
                    Ok(local) => {
                        if o <= -86_400 || o >= 86_400 { assert!(r == Err(OUT_OF_RANGE), "offset outside +/-23:59:59"); }
                        else {
                            let fo = FixedOffset::east_opt(o).unwrap();
                            match local.checked_sub_offset(fo) {
                                None => assert!(r == Err(IMPOSSIBLE), "local value whose instant is out of range"),
                                Some(utc) => match r {
                                    Ok(dt) => assert!(dt.naive_utc() == utc && dt.offset().local_minus_utc() == o, "exactly that local value at that offset"),
                                    Err(_) => assert!(false, "a representable local value with a valid offset resolves"),
                                },
                            }
                        }
                    }
                }
            }
        }
    }

    // ---- Parsed::to_datetime_with_timezone for EVERY zone: the zone is a TimeZone whose answers are arbitrary ---------------------
    // AnyZone answers each query with any value of the right type (an over-approximation of every TimeZone implementation) and
    // records it; DateTime::from_timestamp and to_naive_datetime_with_offset are taken through their contracts as above.
    fn any_fixed() -> FixedOffset { let o = FixedOffset::east_opt(kani::any()); kani::assume(o.is_some()); o.unwrap() }
    #[derive(Clone, Copy, Debug)]
    struct AnyZone;
    impl TimeZone for AnyZone {
        type Offset = FixedOffset;
        fn from_offset(_: &FixedOffset) -> AnyZone { AnyZone }
        fn offset_from_local_date(&self, _: &NaiveDate) -> MappedLocalTime<FixedOffset> { MappedLocalTime::Single(any_fixed()) }
        fn offset_from_utc_date(&self, _: &NaiveDate) -> FixedOffset { any_fixed() }
        fn offset_from_utc_datetime(&self, utc: &NaiveDateTime) -> FixedOffset {
            let o = any_fixed();
            unsafe { REC.z_utc_calls += 1; REC.z_utc_arg = Some(*utc); REC.z_utc_res = o.local_minus_utc(); }
            o
        }
        fn offset_from_local_datetime(&self, local: &NaiveDateTime) -> MappedLocalTime<FixedOffset> {
            let k: u8 = kani::any();
            let r = match k { 0 => MappedLocalTime::None, 1 => MappedLocalTime::Single(any_fixed()), _ => MappedLocalTime::Ambiguous(any_fixed(), any_fixed()) };
            unsafe { REC.z_loc_calls += 1; REC.z_loc_arg = Some(*local); REC.z_loc_res = r.map(|o| o.local_minus_utc()); }
            r
        }
    }
    fn stub_from_timestamp_any(secs: i64, nsecs: u32) -> Option<crate::DateTime<crate::Utc>> {
        let r = if kani::any() { Some(NaiveDateTime::new(any_valid_date(), any_time(nsecs))) } else { None };
        unsafe { REC.ft_calls += 1; REC.ft_args = (secs, nsecs); REC.ft_res = r; }
        r.map(|x| x.and_utc())
    }

    //   NaiveDateTime::checked_sub_offset: None, or a well-formed date-time (the instant wall - offset)        (Verus unit datetime: `shifted`)
    fn stub_checked_sub_offset(x: NaiveDateTime, rhs: FixedOffset) -> Option<NaiveDateTime> {
        let r = if kani::any() { Some(NaiveDateTime::new(any_valid_date(), any_time(x.nanosecond()))) } else { None };
        unsafe { let i = REC.cso_calls as usize; if i < 2 { REC.cso_args[i] = Some((x, rhs.local_minus_utc())); REC.cso_res[i] = r; } REC.cso_calls += 1; }
        r
    }
    // fns: Parsed::to_datetime_with_timezone (generic in the zone), TimeZone::from_local_datetime (provided method)
    // assumes: kani:vk_parsed_ndt_with_offset_direct, kani:vk_parsed_ndt_with_offset_from_timestamp, DateTime::from_timestamp, NaiveDateTime::checked_sub_offset
    #[kani::proof]
    #[kani::stub(Parsed::to_naive_datetime_with_offset, stub_ndt_with_offset)]
    #[kani::stub(crate::DateTime::<crate::Utc>::from_timestamp, stub_from_timestamp_any)]
    #[kani::stub(NaiveDateTime::checked_sub_offset, stub_checked_sub_offset)]
    fn vk_parsed_to_datetime_with_timezone() {
        let mut p = Parsed::new();
        p.offset = any_opt_i32();
        p.nanosecond = any_opt_u32();
        p.timestamp = if kani::any() { Some(kani::any()) } else { None };
        let r = p.to_datetime_with_timezone(&AnyZone);       // returns for every zone answer: no panic
        let (ft_calls, ft_args, ft_res) = unsafe { (REC.ft_calls, REC.ft_args, REC.ft_res) };
        let (zu_calls, zu_arg, guessed) = unsafe { (REC.z_utc_calls, REC.z_utc_arg, REC.z_utc_res) };
        let (zl_calls, zl_arg, zl_res) = unsafe { (REC.z_loc_calls, REC.z_loc_arg, REC.z_loc_res) };
        let (n_calls, n_arg, n_res) = unsafe { (REC.ndt_calls, REC.ndt_arg, REC.ndt_res) };
        kani::cover!(r.is_ok() && p.timestamp.is_some() && matches!(zl_res, MappedLocalTime::Ambiguous(..)));
        kani::cover!(kind(&r) == Some(ParseErrorKind::NotEnough) && n_res.map_or(false, |x| x.is_ok()));
        let with_ts = match p.timestamp {
            None => { assert!(ft_calls == 0 && zu_calls == 0, "no timestamp: no instant lookup"); false }
            Some(ts) => {
                assert!(ft_calls == 1 && ft_args == (ts, p.nanosecond.unwrap_or(0)), "the instant of the timestamp (and nanosecond) is looked up");
                match ft_res {
                    None => { assert!(n_calls == 0, "unrepresentable timestamp: nothing is resolved"); assert!(kind(&r) == Some(ParseErrorKind::OutOfRange), "unrepresentable timestamp: OutOfRange"); return; }
                    Some(u) => assert!(zu_calls == 1 && zu_arg == Some(u), "the zone is asked for the offset at that instant"),
                }
                true
            }
        };
        assert!(n_calls == 1 && n_arg == (if with_ts { guessed } else { 0 }), "the local value is resolved with the offset in effect at the timestamp");
        let local = match n_res.unwrap() { Err(e) => { assert!(r == Err(e), "the resolver's error is passed on"); return; } Ok(l) => l };
        assert!(zl_calls == 1 && zl_arg == Some(local), "the zone maps that local value");
        // a candidate offset is acceptable iff it equals the supplied offset field and (with a timestamp) the offset at that instant
        let ok = |o: i32| -> bool { (!with_ts || o == guessed) && p.offset.map_or(true, |f| f == o) };
        // instants of the candidates: the recorded results of checked_sub_offset(local, candidate offset), in the zone's order
        let (cso_calls, cso_args, cso_res) = unsafe { (REC.cso_calls, REC.cso_args, REC.cso_res) };
        match zl_res {
            MappedLocalTime::None => assert!(cso_calls == 0, "nothing to convert"),
            MappedLocalTime::Single(o) => assert!(cso_calls == 1 && cso_args[0] == Some((local, o)), "instant = local value - candidate offset"),
            MappedLocalTime::Ambiguous(a, b) => assert!(cso_calls == 2 && cso_args[0] == Some((local, a)) && cso_args[1] == Some((local, b)), "instants = local value - each candidate offset"),
        }
        let is = |r: &ParseResult<crate::DateTime<AnyZone>>, o: i32, k: usize| -> bool { match r { Ok(dt) => dt.offset().local_minus_utc() == o && Some(dt.naive_utc()) == cso_res[k], Err(_) => false } };
        match zl_res {
            MappedLocalTime::None => assert!(r == Err(IMPOSSIBLE), "no such local time in the zone"),
            MappedLocalTime::Single(o) => {
                if cso_res[0].is_none() { assert!(r == Err(IMPOSSIBLE), "instant out of range"); }
                else if ok(o) { assert!(is(&r, o, 0), "the single candidate, at the zone's offset"); }
                else { assert!(r == Err(IMPOSSIBLE), "a candidate contradicting the offset field or the timestamp is refused"); }
            }
            MappedLocalTime::Ambiguous(a, b) => {
                if cso_res[0].is_none() || cso_res[1].is_none() { assert!(r == Err(IMPOSSIBLE), "instant out of range"); }
                else {
                    match (ok(a), ok(b)) {
                        (false, false) => assert!(r == Err(IMPOSSIBLE), "neither candidate agrees"),
                        (true, false) => assert!(is(&r, a, 0), "the candidate that agrees with the supplied fields"),
                        (false, true) => assert!(is(&r, b, 1), "the candidate that agrees with the supplied fields"),
                        (true, true) => assert!(r == Err(NOT_ENOUGH), "both agree: not enough to decide"),
                    }
                }
            }
        }
        // the property itself: a successful result never contradicts the offset field
        if let (Ok(dt), Some(f)) = (&r, p.offset) { assert!(dt.offset().local_minus_utc() == f, "offset field agrees"); }
    }

    // guard for the recording device itself: writing every recorder field leaves the crate's error constants intact
    // fns: (harness infrastructure)
    #[kani::proof]
    fn vk_parsed_recorder_sound() {
        unsafe { REC.ft_calls = 1; REC.z_utc_calls = 1; REC.date_calls = 1; REC.time_calls = 1; REC.cs_calls = 1; REC.ndt_calls = 1; REC.z_loc_calls = 1; REC.ndt_arg = 1; REC.z_utc_res = 1; }
        assert!(OUT_OF_RANGE.kind() == ParseErrorKind::OutOfRange && IMPOSSIBLE.kind() == ParseErrorKind::Impossible && NOT_ENOUGH.kind() == ParseErrorKind::NotEnough, "constants unchanged by recorder writes");
        assert!(unsafe { REC.magic } == 0xC0DE_5EED_D15C_0001, "magic word intact");
        let p = Parsed::new();
        assert!(p.timestamp.is_none() && p.offset.is_none() && p.year.is_none(), "Parsed::new() unaffected");
    }
}

