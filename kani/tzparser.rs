// @append: src/offset/local/tz_info/parser.rs
// C16: the TZif header and block layout are read exactly as written and every inconsistency is refused
#[cfg(kani)]
mod verif_kani_tzparser {
    use super::*;

    fn be32(b: &[u8]) -> u32 { ((b[0] as u32) << 24) | ((b[1] as u32) << 16) | ((b[2] as u32) << 8) | (b[3] as u32) }

    // fns: Header::new, Cursor::new, Cursor::read_exact, Cursor::read_be_u32 (every 44-byte header: loop-free, complete)
    #[kani::proof]
    fn vk_tzif_header() {
        let buf: [u8; 44] = kani::any();
        let mut cur = Cursor::new(&buf);
        let r = Header::new(&mut cur);
        let magic = buf[0] == b'T' && buf[1] == b'Z' && buf[2] == b'i' && buf[3] == b'f';
        let ver = buf[4] == 0 || buf[4] == 0x32 || buf[4] == 0x33;
        let (isut, isstd, leap, time, typ, chr) = (be32(&buf[20..24]), be32(&buf[24..28]), be32(&buf[28..32]), be32(&buf[32..36]), be32(&buf[36..40]), be32(&buf[40..44]));
        let counts = typ != 0 && chr != 0 && (isut == 0 || isut == typ) && (isstd == 0 || isstd == typ);
        kani::cover!(r.is_ok() && isstd != 0); kani::cover!(magic && ver && !counts);
        match r {
            Ok(h) => {
                assert!(magic && ver && counts, "a header is accepted only with the magic, a known version and consistent counts");
                assert!(h.ut_local_count == isut as usize && h.std_wall_count == isstd as usize && h.leap_count == leap as usize && h.transition_count == time as usize && h.type_count == typ as usize && h.char_count == chr as usize, "the six counts are the big-endian fields");
                assert!((h.version == Version::V1) == (buf[4] == 0) && (h.version == Version::V2) == (buf[4] == 0x32) && (h.version == Version::V3) == (buf[4] == 0x33), "version byte");
                assert!(cur.is_empty(), "exactly 44 bytes are consumed");
            }
            Err(_) => assert!(!(magic && ver && counts), "a well-formed header is accepted"),
        }
    }

    // fns: Header::new, Cursor::read_exact (truncated header: every length below 44)
    #[kani::proof]
    fn vk_tzif_header_truncated() {
        let buf: [u8; 43] = kani::any();
        let len: usize = kani::any();
        kani::assume(len <= 43);
        let mut cur = Cursor::new(&buf[..len]);
        assert!(Header::new(&mut cur).is_err(), "fewer than 44 bytes are never a header");
    }

    // bounded: data blocks of at most 52 bytes behind the header (the layout depends on lengths only, not on contents)
    // fns: State::new (block layout)
    #[kani::proof]
    fn vk_tzif_state_layout_bounded() {
        let buf: [u8; 96] = kani::any();
        let len: usize = kani::any();
        kani::assume(len <= 96);
        let first: bool = kani::any();
        let mut cur = Cursor::new(&buf[..len]);
        let r = State::new(&mut cur, first);
        let ts: usize = if first { 4 } else { 8 };
        kani::cover!(r.is_ok() && first); kani::cover!(r.is_ok() && !first && len > 60);
        if len >= 44 {
            let mut hc = Cursor::new(&buf[..44]);
            match Header::new(&mut hc) {
                Err(_) => assert!(r.is_err(), "a refused header refuses the block"),
                Ok(h) => {
                    // (counts are u32, usize is 64 bits: the products cannot overflow)
                    let need = 44u128 + (h.transition_count as u128) * (ts as u128 + 1) + (h.type_count as u128) * 6 + h.char_count as u128
                        + (h.leap_count as u128) * (ts as u128 + 4) + h.std_wall_count as u128 + h.ut_local_count as u128;
                    match r {
                        Ok(s) => {
                            assert!(need <= len as u128, "a block is accepted only if the data announced by the counts is there");
                            assert!(s.time_size == ts && s.transition_times.len() == h.transition_count * ts && s.transition_types.len() == h.transition_count
                                && s.local_time_types.len() == h.type_count * 6 && s.names.len() == h.char_count && s.leap_seconds.len() == h.leap_count * (ts + 4)
                                && s.std_walls.len() == h.std_wall_count && s.ut_locals.len() == h.ut_local_count, "the seven fields have exactly the announced lengths");
                            assert!(cur.remaining().len() as u128 == len as u128 - need, "exactly the announced bytes are consumed");
                            assert!(s.transition_times.as_ptr() == buf[44..].as_ptr(), "the fields start right behind the header");
                        }
                        Err(_) => assert!(need > len as u128, "a complete block is accepted"),
                    }
                }
            }
        } else {
            assert!(r.is_err(), "no header, no block");
        }
    }

    // fns: read_be_i32, read_be_i64, State::parse_time (every slice of at most 9 bytes: loop-free, complete for the accepted lengths)
    #[kani::proof]
    fn vk_tzif_read_be() {
        let buf: [u8; 9] = kani::any();
        let len: usize = kani::any();
        kani::assume(len <= 9);
        let b = &buf[..len];
        match read_be_i32(b) {
            Ok(v) => assert!(len == 4 && v == be32(b) as i32, "four bytes, big endian, two's complement"),
            Err(_) => assert!(len != 4, "exactly four bytes are accepted"),
        }
        match read_be_i64(b) {
            Ok(v) => assert!(len == 8 && v == (((be32(&b[..4]) as u64) << 32) | be32(&b[4..8]) as u64) as i64, "eight bytes, big endian, two's complement"),
            Err(_) => assert!(len != 8, "exactly eight bytes are accepted"),
        }
    }
}

