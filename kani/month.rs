// @append: src/month.rs
// C19: Month algebra, numbering and conversions; C08: Month::num_days
#[cfg(kani)]
mod verif_kani_month {
    use super::*;
    use num_traits::FromPrimitive;
    use core::str::FromStr;
//@@COMMON@@
    use xs::*;

    // fns: Month::succ, Month::pred, Month::number_from_month
    #[kani::proof]
    fn vk_month_cycle() {
        let n: u8 = kani::any();
        kani::assume(n >= 1 && n <= 12);
        let m = mon(n);
        kani::cover!(n == 12, "december wraps");
        assert!(mon_idx(m.succ()) == n % 12 + 1, "succ is +1 on the 12-cycle");
        assert!(mon_idx(m.pred()) == (n + 10) % 12 + 1, "pred is -1 on the 12-cycle");
        assert!(m.succ().pred() == m && m.pred().succ() == m, "m.succ().pred() == m && m.pred().succ() == m");
        assert!(m.number_from_month() == n as u32, "number_from_month");
    }

    // fns: TryFrom<u8> for Month
    #[kani::proof]
    fn vk_month_try_from_u8() {
        let v: u8 = kani::any();
        kani::cover!(v == 12); kani::cover!(v == 0);
        match Month::try_from(v) {
            Ok(m) => assert!(v >= 1 && v <= 12 && mon_idx(m) == v, "v >= 1 && v <= 12 && mon_idx(m) == v"),
            Err(_) => assert!(v == 0 || v > 12, "v == 0 || v > 12"),
        }
    }

    // fns: Month::from_u64
    #[kani::proof]
    fn vk_month_from_u64() {
        let u: u64 = kani::any();
        kani::cover!(u > u32::MAX as u64, "wide");
        match Month::from_u64(u) { Some(m) => assert!(u >= 1 && u <= 12 && mon_idx(m) as u64 == u, "from_u64 accepts only 1..=12"), None => assert!(u == 0 || u > 12, "from_u64 rejects only outside 1..=12") }
    }

    // fns: Month::from_i64
    #[kani::proof]
    fn vk_month_from_i64() {
        let i: i64 = kani::any();
        kani::cover!(i < i32::MIN as i64, "wide negative");
        match Month::from_i64(i) { Some(m) => assert!(i >= 1 && i <= 12 && mon_idx(m) as i64 == i, "from_i64 accepts only 1..=12"), None => assert!(i < 1 || i > 12, "from_i64 rejects only outside 1..=12") }
    }

    // fns: Month::from_u32 + provided FromPrimitive methods
    #[kani::proof]
    fn vk_month_from_primitive_provided() {
        let a: u32 = kani::any(); let b: i32 = kani::any(); let c: u8 = kani::any(); let d: i8 = kani::any();
        let e: u16 = kani::any(); let f: i16 = kani::any(); let g: usize = kani::any(); let h: isize = kani::any();
        match Month::from_u32(a) { Some(m) => assert!(a >= 1 && a <= 12 && mon_idx(m) as u32 == a, "a >= 1 && a <= 12 && mon_idx(m) as u32 == a"), None => assert!(a == 0 || a > 12, "a == 0 || a > 12") }
        assert!(Month::from_i32(b).is_some() == (b >= 1 && b <= 12), "Month::from_i32(b).is_some() == (b >= 1 && b <= 12)");
        assert!(Month::from_u8(c).is_some() == (c >= 1 && c <= 12), "Month::from_u8(c).is_some() == (c >= 1 && c <= 12)");
        assert!(Month::from_i8(d).is_some() == (d >= 1 && d <= 12), "Month::from_i8(d).is_some() == (d >= 1 && d <= 12)");
        assert!(Month::from_u16(e).is_some() == (e >= 1 && e <= 12), "Month::from_u16(e).is_some() == (e >= 1 && e <= 12)");
        assert!(Month::from_i16(f).is_some() == (f >= 1 && f <= 12), "Month::from_i16(f).is_some() == (f >= 1 && f <= 12)");
        assert!(Month::from_usize(g).is_some() == (g >= 1 && g <= 12), "Month::from_usize(g).is_some() == (g >= 1 && g <= 12)");
        assert!(Month::from_isize(h).is_some() == (h >= 1 && h <= 12), "Month::from_isize(h).is_some() == (h >= 1 && h <= 12)");
    }

    // fns: Months::new, Months::as_u32, derived Ord/Eq for Months
    #[kani::proof]
    fn vk_months_newtype() {
        let n: u32 = kani::any();
        assert!(Months::new(n).as_u32() == n, "Months::new(n).as_u32() == n");
        let k: u32 = kani::any();
        assert!((Months::new(n) < Months::new(k)) == (n < k) && (Months::new(n) == Months::new(k)) == (n == k), "(Months::new(n) < Months::new(k)) == (n < k) && (Months::new(n) == Mon");
    }

    // C08: days in month agree with the calendar; None exactly when the year is outside NaiveDate's range
    // fns: Month::num_days
    #[kani::proof]
    fn vk_month_num_days() {
        let n: u8 = kani::any();
        kani::assume(n >= 1 && n <= 12);
        let y: i32 = kani::any();
        let r = mon(n).num_days(y);
        kani::cover!(n == 2 && r == Some(29), "leap february");
        kani::cover!(n == 2 && r.is_none(), "out of range");
        let in_range = y as i64 >= MIN_Y && y as i64 <= MAX_Y;
        match r {
            Some(d) => assert!(d as i64 == month_len(y as i64, n as i64), "num_days = calendar month length"),
            None => assert!(n == 2 && !in_range, "num_days is None only for February of an out-of-range year"),
        }
        if in_range { assert!(r.is_some(), "r.is_some()"); }
    }

    // bounded: every ASCII string of at most 10 bytes
    // fns: FromStr for Month (bounded)
    #[kani::proof]
    #[kani::unwind(14)]
    fn vk_month_from_str_bounded10() {
        let buf: [u8; 10] = kani::any();
        let len: usize = kani::any();
        kani::assume(len <= 10);
        let mut i = 0;
        while i < 10 { kani::assume(buf[i] < 128); i += 1; }
        let s = unsafe { core::str::from_utf8_unchecked(&buf[..len]) };
        let r = Month::from_str(s);
        let b = &buf[..len];
        let names: [(&[u8], &[u8]); 12] = [
            (b"jan", b"january"), (b"feb", b"february"), (b"mar", b"march"), (b"apr", b"april"), (b"may", b"may"), (b"jun", b"june"),
            (b"jul", b"july"), (b"aug", b"august"), (b"sep", b"september"), (b"oct", b"october"), (b"nov", b"november"), (b"dec", b"december")];
        let mut expect: Option<u8> = None;
        let mut k = 0;
        while k < 12 { if eq_ci(b, names[k].0) || eq_ci(b, names[k].1) { expect = Some(k as u8 + 1); } k += 1; }
        kani::cover!(expect.is_some() && len > 3, "long name accepted");
        match (r, expect) {
            (Ok(m), Some(e)) => assert!(mon_idx(m) == e, "FromStr returns the named month"),
            (Err(_), None) => {}
            _ => assert!(false, "FromStr accepts exactly the short and long names (any case)"),
        }
    }

    // name() is the English name and parses back (12 fixed strings: complete with unwinding assertions)
    // fns: Month::name, FromStr for Month on the 12 names
    #[kani::proof]
    #[kani::unwind(14)]
    fn vk_month_name_roundtrip() {
        let n: u8 = kani::any();
        kani::assume(n >= 1 && n <= 12);
        let m = mon(n);
        let names: [&[u8]; 12] = [b"january", b"february", b"march", b"april", b"may", b"june", b"july", b"august", b"september", b"october", b"november", b"december"];
        assert!(eq_ci(m.name().as_bytes(), names[n as usize - 1]), "name() is the English month name");
        match Month::from_str(m.name()) { Ok(p) => assert!(p == m, "name parses back"), Err(_) => assert!(false, "name parses back") }
    }

    // bounded: strings of at most 16 bytes holding one multi-byte character at any of the first ten byte offsets (a name prefix followed by
    // non-ASCII text must be rejected by value: slicing at a suffix length that falls inside the character would panic)
    // fns: FromStr for Month (bounded, non-ASCII)
    #[kani::proof]
    #[kani::unwind(18)]
    fn vk_month_from_str_multibyte() {
        let mut buf: [u8; 16] = kani::any();
        let len = one_multibyte(&mut buf);
        let s = unsafe { core::str::from_utf8_unchecked(&buf[..len]) };
        kani::cover!(lower(buf[0]) == b'j' && lower(buf[1]) == b'u' && buf[3] >= 128, "a name prefix followed by a multi-byte character");
        assert!(Month::from_str(s).is_err(), "no name contains a non-ASCII character: rejected, not a panic");
    }
}
