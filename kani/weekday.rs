// @append: src/weekday.rs
// C19: Weekday algebra, numbering and conversions (exhaustive-symbolic; FromStr bounded)
#[cfg(kani)]
mod verif_kani_weekday {
    use super::*;
    use num_traits::FromPrimitive;
    use core::str::FromStr;
//@@COMMON@@
    use xs::*;

    // fns: Weekday::succ, Weekday::pred
    #[kani::proof]
    fn vk_weekday_cycle() {
        let n: u8 = kani::any();
        kani::assume(n < 7);
        let w = wd(n);
        kani::cover!(n == 6, "sunday wraps");
        assert!(wd_idx(w.succ()) == (n + 1) % 7, "succ is +1 mod 7");
        assert!(wd_idx(w.pred()) == (n + 6) % 7, "pred is -1 mod 7");
        assert!(w.succ().pred() == w && w.pred().succ() == w, "succ/pred mutually inverse");
    }

    // fns: Weekday::num_days_from_monday, Weekday::number_from_monday, Weekday::num_days_from_sunday, Weekday::number_from_sunday, Weekday::days_since
    #[kani::proof]
    fn vk_weekday_numbering() {
        let n: u8 = kani::any();
        let m: u8 = kani::any();
        kani::assume(n < 7 && m < 7);
        let w = wd(n);
        let o = wd(m);
        kani::cover!(n < m, "wraps");
        assert!(w.num_days_from_monday() == n as u32, "w.num_days_from_monday() == n as u32");
        assert!(w.number_from_monday() == n as u32 + 1, "w.number_from_monday() == n as u32 + 1");
        assert!(w.num_days_from_sunday() == (n as u32 + 1) % 7, "w.num_days_from_sunday() == (n as u32 + 1) % 7");
        assert!(w.number_from_sunday() == (n as u32 + 1) % 7 + 1, "w.number_from_sunday() == (n as u32 + 1) % 7 + 1");
        assert!(w.days_since(o) == (7 + n as u32 - m as u32) % 7, "days_since is the cyclic distance");
    }

    // fns: TryFrom<u8> for Weekday
    #[kani::proof]
    fn vk_weekday_try_from_u8() {
        let v: u8 = kani::any();
        kani::cover!(v == 6); kani::cover!(v == 7);
        match Weekday::try_from(v) {
            Ok(w) => assert!(v < 7 && wd_idx(w) == v, "TryFrom<u8> inverse of numbering"),
            Err(_) => assert!(v >= 7, "TryFrom<u8> rejects only >= 7"),
        }
    }

    // fns: FromPrimitive for Weekday (from_i64, from_u64 + provided methods)
    #[kani::proof]
    fn vk_weekday_from_primitive() {
        let i: i64 = kani::any();
        let u: u64 = kani::any();
        kani::cover!(i == 6); kani::cover!(u > u32::MAX as u64);
        match Weekday::from_i64(i) { Some(w) => assert!(i >= 0 && i < 7 && wd_idx(w) as i64 == i, "i >= 0 && i < 7 && wd_idx(w) as i64 == i"), None => assert!(i < 0 || i >= 7, "i < 0 || i >= 7") }
        match Weekday::from_u64(u) { Some(w) => assert!(u < 7 && wd_idx(w) as u64 == u, "u < 7 && wd_idx(w) as u64 == u"), None => assert!(u >= 7, "u >= 7") }
        // provided methods of FromPrimitive (delegate to from_i64 / from_u64)
        let a: u32 = kani::any(); let b: i32 = kani::any(); let c: u8 = kani::any(); let d: i8 = kani::any();
        let e: u16 = kani::any(); let f: i16 = kani::any(); let g: usize = kani::any(); let h: isize = kani::any();
        assert!(Weekday::from_u32(a).is_some() == (a < 7), "Weekday::from_u32(a).is_some() == (a < 7)");
        assert!(Weekday::from_i32(b).is_some() == (b >= 0 && b < 7), "Weekday::from_i32(b).is_some() == (b >= 0 && b < 7)");
        assert!(Weekday::from_u8(c).is_some() == (c < 7), "Weekday::from_u8(c).is_some() == (c < 7)");
        assert!(Weekday::from_i8(d).is_some() == (d >= 0 && d < 7), "Weekday::from_i8(d).is_some() == (d >= 0 && d < 7)");
        assert!(Weekday::from_u16(e).is_some() == (e < 7), "Weekday::from_u16(e).is_some() == (e < 7)");
        assert!(Weekday::from_i16(f).is_some() == (f >= 0 && f < 7), "Weekday::from_i16(f).is_some() == (f >= 0 && f < 7)");
        assert!(Weekday::from_usize(g).is_some() == (g < 7), "Weekday::from_usize(g).is_some() == (g < 7)");
        assert!(Weekday::from_isize(h).is_some() == (h >= 0 && h < 7), "Weekday::from_isize(h).is_some() == (h >= 0 && h < 7)");
    }

    // bounded: every ASCII string of at most 12 bytes
    // fns: FromStr for Weekday (bounded)
    #[kani::proof]
    #[kani::unwind(14)]
    fn vk_weekday_from_str_bounded12() {
        let buf: [u8; 12] = kani::any();
        let len: usize = kani::any();
        kani::assume(len <= 12);
        let mut i = 0;
        while i < 12 { kani::assume(buf[i] < 128); i += 1; }
        let s = unsafe { core::str::from_utf8_unchecked(&buf[..len]) };
        let r = Weekday::from_str(s);
        let b = &buf[..len];
        let names: [(&[u8], &[u8]); 7] = [
            (b"mon", b"monday"), (b"tue", b"tuesday"), (b"wed", b"wednesday"),
            (b"thu", b"thursday"), (b"fri", b"friday"), (b"sat", b"saturday"), (b"sun", b"sunday")];
        let mut expect: Option<u8> = None;
        let mut k = 0;
        while k < 7 { if eq_ci(b, names[k].0) || eq_ci(b, names[k].1) { expect = Some(k as u8); } k += 1; }
        kani::cover!(expect.is_some() && len > 3, "long name accepted");
        match (r, expect) {
            (Ok(w), Some(e)) => assert!(wd_idx(w) == e, "FromStr returns the named weekday"),
            (Err(_), None) => {}
            _ => assert!(false, "FromStr accepts exactly the short and long names (any case)"),
        }
    }

    // bounded: strings of at most 16 bytes holding one multi-byte character at any of the first ten byte offsets (a name prefix followed by
    // non-ASCII text must be rejected by value: slicing at a suffix length that falls inside the character would panic)
    // fns: FromStr for Weekday (bounded, non-ASCII)
    #[kani::proof]
    #[kani::unwind(18)]
    fn vk_weekday_from_str_multibyte() {
        let mut buf: [u8; 16] = kani::any();
        let len = one_multibyte(&mut buf);
        let s = unsafe { core::str::from_utf8_unchecked(&buf[..len]) };
        kani::cover!(lower(buf[0]) == b'j' && lower(buf[1]) == b'u' && buf[3] >= 128, "a name prefix followed by a multi-byte character");
        assert!(Weekday::from_str(s).is_err(), "no name contains a non-ASCII character: rejected, not a panic");
    }
}
