// @append: src/offset/local/tz_info/rule.rs
// C05/C16: offsets and rule times of a POSIX TZ string, over the contract of the digit scanners
#[cfg(kani)]
mod verif_kani_tzstring {
    use super::*;

    // parse_hhmmss / parse_signed_hhmmss (the scanners: digits, ':' separators, optional sign) are replaced by stubs that return ANY
    // values of their result type -- sign in {1, -1}, any three i32 -- so the three functions below are checked for every outcome
    // of the scan.  One recorder static that starts with a magic word (see kani/parsed.rs for why).
    struct SRec { magic: u64, calls: u8, sign: i32, h: i32, m: i32, s: i32, ok: bool }
    static mut SREC: SRec = SRec { magic: 0xC0DE_5EED_D15C_0004, calls: 0, sign: 0, h: 0, m: 0, s: 0, ok: false };
    fn st_hhmmss(_c: &mut Cursor) -> Result<(i32, i32, i32), Error> {
        let (h, m, s): (i32, i32, i32) = (kani::any(), kani::any(), kani::any());
        let ok: bool = kani::any();
        unsafe { SREC.calls += 1; SREC.sign = 1; SREC.h = h; SREC.m = m; SREC.s = s; SREC.ok = ok; }
        if ok { Ok((h, m, s)) } else { Err(Error::InvalidTzString("scan")) }
    }
    fn st_signed_hhmmss(_c: &mut Cursor) -> Result<(i32, i32, i32, i32), Error> {
        let (h, m, s): (i32, i32, i32) = (kani::any(), kani::any(), kani::any());
        let sign: i32 = if kani::any() { 1 } else { -1 };
        let ok: bool = kani::any();
        unsafe { SREC.calls += 1; SREC.sign = sign; SREC.h = h; SREC.m = m; SREC.s = s; SREC.ok = ok; }
        if ok { Ok((sign, h, m, s)) } else { Err(Error::InvalidTzString("scan")) }
    }
    fn check(r: Result<i32, Error>, hlo: i32, hhi: i32) {
        let (calls, sign, h, m, s, ok) = unsafe { (SREC.calls, SREC.sign, SREC.h, SREC.m, SREC.s, SREC.ok) };
        assert!(calls == 1, "one scan");
        let in_range = h >= hlo && h <= hhi && m >= 0 && m <= 59 && s >= 0 && s <= 59;
        kani::cover!(r.is_ok() && m != 0 && s != 0); kani::cover!(r.is_err() && ok);
        match r {
            Ok(v) => assert!(ok && in_range && v as i64 == sign as i64 * (h as i64 * 3600 + m as i64 * 60 + s as i64), "the sign applies to the whole of h:m:s"),
            Err(_) => assert!(!ok || !in_range, "in-range fields are accepted"),
        }
    }

    // fns: parse_offset
    // (the scanners themselves -- digits, separators, sign character -- are exercised by the tz twin only)
    #[kani::proof]
    #[kani::stub(parse_signed_hhmmss, st_signed_hhmmss)]
    fn vk_tzstring_offset() { let b = [0u8; 1]; let mut c = Cursor::new(&b); check(parse_offset(&mut c), 0, 24); }

    // fns: parse_rule_time
    // (the scanners themselves -- digits, separators, sign character -- are exercised by the tz twin only)
    #[kani::proof]
    #[kani::stub(parse_hhmmss, st_hhmmss)]
    fn vk_tzstring_rule_time() { let b = [0u8; 1]; let mut c = Cursor::new(&b); check(parse_rule_time(&mut c), 0, 24); }

    // fns: parse_rule_time_extended
    // (the scanners themselves -- digits, separators, sign character -- are exercised by the tz twin only)
    #[kani::proof]
    #[kani::stub(parse_signed_hhmmss, st_signed_hhmmss)]
    fn vk_tzstring_rule_time_extended() { let b = [0u8; 1]; let mut c = Cursor::new(&b); check(parse_rule_time_extended(&mut c), -167, 167); }

    // ---- RuleDay::parse over the contract of the integer scanner ----------------------------------------------------------------------
    // Cursor::read_int::<T> is replaced by a stub that consumes ANY number of bytes and returns ANY value of T (or an error); the
    // rule-time parsers (checked above) return any i32.  What remains is the structure: which constructor gets which number in which
    // order, the separators, the default time.
    struct PRec { magic: u64, n: u8, vals: [u64; 3], time_calls: u8, time_ext: bool, time_res: i32 }
    static mut PREC: PRec = PRec { magic: 0xC0DE_5EED_D15C_0006, n: 0, vals: [0; 3], time_calls: 0, time_ext: false, time_res: 0 };
    fn st_read_int<'a: 'a, T: core::str::FromStr<Err = core::num::ParseIntError> + kani::Arbitrary + Copy + Into<u64>>(c: &mut Cursor<'a>) -> Result<T, Error> {
        let k: usize = kani::any();
        kani::assume(k <= c.remaining().len());
        let _ = c.read_exact(k);
        if kani::any() {
            let v: T = kani::any();
            unsafe { let i = PREC.n as usize; if i < 3 { PREC.vals[i] = v.into(); } PREC.n += 1; }
            Ok(v)
        } else { Err(Error::InvalidTzString("scan")) }
    }
    fn st_rule_time(_c: &mut Cursor) -> Result<i32, Error> {
        let v: i32 = kani::any();
        unsafe { PREC.time_calls += 1; PREC.time_ext = false; PREC.time_res = v; }
        if kani::any() { Ok(v) } else { Err(Error::InvalidTzString("time")) }
    }
    fn st_rule_time_ext(_c: &mut Cursor) -> Result<i32, Error> {
        let v: i32 = kani::any();
        unsafe { PREC.time_calls += 1; PREC.time_ext = true; PREC.time_res = v; }
        if kani::any() { Ok(v) } else { Err(Error::InvalidTzString("time")) }
    }

    // bounded: rule-day texts of at most 8 bytes (only the letter, the separators and the '/' are read here; the digits belong to the stubbed scanner)
    // fns: RuleDay::parse
    #[kani::proof]
    #[kani::unwind(10)]
    #[kani::stub(Cursor::read_int, st_read_int)]
    #[kani::stub(parse_rule_time, st_rule_time)]
    #[kani::stub(parse_rule_time_extended, st_rule_time_ext)]
    fn vk_tzstring_rule_day_bounded() {
        let buf: [u8; 8] = kani::any();
        let len: usize = kani::any();
        kani::assume(len <= 8);
        let ext: bool = kani::any();
        let mut c = Cursor::new(&buf[..len]);
        let r = RuleDay::parse(&mut c, ext);
        let (n, vals, tc, text, tres) = unsafe { (PREC.n, PREC.vals, PREC.time_calls, PREC.time_ext, PREC.time_res) };
        kani::cover!(matches!(r, Ok((RuleDay::MonthWeekday { .. }, _)))); kani::cover!(matches!(r, Ok((RuleDay::Julian1WithoutLeap(_), t)) if t != 7200)); kani::cover!(matches!(r, Ok((RuleDay::Julian0WithLeap(_), 7200))));
        if let Ok((day, time)) = r {
            match day {
                RuleDay::MonthWeekday { month, week, week_day } => {
                    assert!(len >= 1 && buf[0] == b'M' && n == 3, "Mm.w.d: the letter M and three numbers");
                    assert!(month as u64 == vals[0] && week as u64 == vals[1] && week_day as u64 == vals[2], "month, week, weekday in the order written");
                    assert!(month >= 1 && month <= 12 && week >= 1 && week <= 5 && week_day <= 6, "documented ranges");
                }
                RuleDay::Julian1WithoutLeap(j) => assert!(len >= 1 && buf[0] == b'J' && n == 1 && j as u64 == vals[0] && j >= 1 && j <= 365, "Jn: one-based day 1..=365"),
                RuleDay::Julian0WithLeap(j) => assert!((len == 0 || (buf[0] != b'M' && buf[0] != b'J')) && n == 1 && j as u64 == vals[0] && j <= 365, "n: zero-based day 0..=365"),
            }
            if tc == 0 { assert!(time == 2 * 3600, "no '/time': 02:00:00"); }
            else { assert!(tc == 1 && text == ext && time == tres, "'/time' read by the parser the format version asks for"); }
        }
    }

    // ---- AlternateTime::find_local_time_type: the three-year window logic over the contracts of its two callees ------------------------
    // RuleDay::unix_time (Verus unit tzrule: the instant of the rule day in a year) and UtcDateTime::from_timespec (Verus: the civil year
    // of an instant) are replaced by stubs that read a table the harness fills with ARBITRARY instants S[k] (DST start) and E[k] (DST
    // end) for the years cy-1, cy, cy+1.  What is checked is the interval logic for every such table, under the DATA HYPOTHESIS that the
    // transitions alternate: start, end, start, end ... (northern order) or end, start, end, start ... (southern order).
    struct WTab { magic: u64, cy: i32, year_ok: bool, s: [i64; 3], e: [i64; 3], bad_call: bool, st_utc: i64, et_utc: i64 }
    static mut WTAB: WTab = WTab { magic: 0xC0DE_5EED_D15C_0008, cy: 0, year_ok: false, s: [0; 3], e: [0; 3], bad_call: false, st_utc: 0, et_utc: 0 };
    fn st_unix_time(d: &RuleDay, year: i32, day_time_in_utc: i64) -> i64 {
        unsafe {
            let k = year as i64 - WTAB.cy as i64 + 1;
            let is_start = *d == RuleDay::Julian1WithoutLeap(1);
            if k < 0 || k > 2 || day_time_in_utc != (if is_start { WTAB.st_utc } else { WTAB.et_utc }) { WTAB.bad_call = true; return 0; }
            if is_start { WTAB.s[k as usize] } else { WTAB.e[k as usize] }
        }
    }
    fn st_from_timespec(_t: i64) -> Result<UtcDateTime, Error> {
        unsafe { if WTAB.year_ok { Ok(UtcDateTime { year: WTAB.cy, month: 1, month_day: 1, hour: 0, minute: 0, second: 0 }) } else { Err(Error::OutOfRange("year")) } }
    }

    // fns: AlternateTime::find_local_time_type (interval logic for every table of transition instants; hypothesis: the transitions alternate)
    // assumes: RuleDay::unix_time, UtcDateTime::from_timespec
    #[kani::proof]
    #[kani::unwind(5)]
    #[kani::stub(RuleDay::unix_time, st_unix_time)]
    #[kani::stub(UtcDateTime::from_timespec, st_from_timespec)]
    fn vk_tzrule_window_logic() {
        let std_off: i32 = kani::any(); let dst_off: i32 = kani::any();
        kani::assume(std_off > -86_400 && std_off < 86_400 && dst_off > -86_400 && dst_off < 86_400 && std_off != dst_off);
        let (st, et): (i32, i32) = (kani::any(), kani::any());
        let a = AlternateTime::new(LocalTimeType::new(std_off, false, None).unwrap(), LocalTimeType::new(dst_off, true, None).unwrap(),
                                   RuleDay::Julian1WithoutLeap(1), st, RuleDay::Julian1WithoutLeap(2), et);
        kani::assume(a.is_ok());
        let a = a.unwrap();
        let t: i64 = kani::any();
        let (s, e): ([i64; 3], [i64; 3]) = (kani::any(), kani::any());
        let cy: i32 = kani::any(); let year_ok: bool = kani::any();
        unsafe { WTAB.cy = cy; WTAB.year_ok = year_ok; WTAB.s = s; WTAB.e = e; WTAB.st_utc = st as i64 - std_off as i64; WTAB.et_utc = et as i64 - dst_off as i64; }
        let r = a.find_local_time_type(t);
        assert!(!unsafe { WTAB.bad_call }, "the rule days are asked for the years cy-1, cy, cy+1 only, with the rule time converted to UTC by the offset in force before the transition");
        kani::cover!(matches!(r, Ok(x) if x.is_dst()) && s[1] > e[1]); kani::cover!(matches!(r, Ok(x) if !x.is_dst()) && s[1] <= e[1] && t >= e[1]);
        if !year_ok || cy < i32::MIN + 2 || cy > i32::MAX - 2 { assert!(r.is_err(), "instants whose neighbouring years cannot be formed are refused"); return; }
        let got = match r { Ok(x) => { assert!(*x == a.std || *x == a.dst, "one of the two types"); x.is_dst() } Err(_) => { assert!(false, "a type is found"); return; } };
        let within = |k: usize| s[k] <= t && t < e[k];
        if s[1] <= e[1] {
            // northern order: S0 <= E0 <= S1 <= E1 <= S2 <= E2; daylight time holds exactly inside [S_k, E_k)
            if s[0] <= e[0] && e[0] <= s[1] && e[1] <= s[2] && s[2] <= e[2] { assert!(got == (within(0) || within(1) || within(2)), "northern order: DST exactly between a start and the following end"); }
        } else {
            // southern order: E0 < S0 <= E1 < S1 <= E2 < S2; daylight time holds from each start to the end of the following year
            if e[0] < s[0] && s[0] <= e[1] && s[1] <= e[2] && e[2] < s[2] {
                assert!(got == (t < e[0] || (s[0] <= t && t < e[1]) || (s[1] <= t && t < e[2]) || s[2] <= t), "southern order: DST from a start to the next year's end");
            }
        }
    }

    // ---- AlternateTime::find_local_time_type_from_local: gap / fold classification of a wall-clock time under a POSIX rule ---------------
    // callees through their contracts: RuleDay::unix_time and RuleDay::transition_date (Verus unit tzrule) read a table filled with ARBITRARY
    // values, DateTime::timestamp returns an arbitrary wall-clock second count.  Specification, independent of the code's case analysis:
    // a candidate offset o is valid for the wall-clock value L iff the zone really is at offset o at the instant L - o.
    // Data hypothesis: the two transitions of the year are separated and in the order their months say.  The two boundary seconds
    // (each transition read with the offset in force before it) are excepted, as in the property text.
    struct LTab { magic: u64, cy: i32, s0: i64, e0: i64, ms: usize, me: usize, local: i64, bad_call: bool }
    static mut LTAB: LTab = LTab { magic: 0xC0DE_5EED_D15C_000B, cy: 0, s0: 0, e0: 0, ms: 1, me: 1, local: 0, bad_call: false };
    fn st_unix_time0(d: &RuleDay, year: i32, day_time_in_utc: i64) -> i64 {
        unsafe { if year != LTAB.cy || day_time_in_utc != 0 { LTAB.bad_call = true; } if *d == RuleDay::Julian1WithoutLeap(1) { LTAB.s0 } else { LTAB.e0 } }
    }
    fn st_transition_date(d: &RuleDay, year: i32) -> (usize, i64) {
        unsafe { if year != LTAB.cy { LTAB.bad_call = true; } if *d == RuleDay::Julian1WithoutLeap(1) { (LTAB.ms, 1) } else { (LTAB.me, 1) } }
    }
    fn st_timestamp<Tz: crate::TimeZone>(_x: &crate::DateTime<Tz>) -> i64 { unsafe { LTAB.local } }

    // fns: AlternateTime::find_local_time_type_from_local (classification for every table of transition instants; hypothesis: separated transitions; boundary seconds excepted)
    // assumes: RuleDay::unix_time, RuleDay::transition_date, DateTime::timestamp
    #[kani::proof]
    #[kani::unwind(5)]
    #[kani::stub(RuleDay::unix_time, st_unix_time0)]
    #[kani::stub(RuleDay::transition_date, st_transition_date)]
    #[kani::stub(crate::DateTime::timestamp, st_timestamp)]
    fn vk_tzrule_local_classification() {
        let std_off: i32 = kani::any(); let dst_off: i32 = kani::any();
        kani::assume(std_off > -86_400 && std_off < 86_400 && dst_off > -86_400 && dst_off < 86_400 && std_off != dst_off);
        let (st, et): (i32, i32) = (kani::any(), kani::any());
        let a = AlternateTime::new(LocalTimeType::new(std_off, false, None).unwrap(), LocalTimeType::new(dst_off, true, None).unwrap(),
                                   RuleDay::Julian1WithoutLeap(1), st, RuleDay::Julian1WithoutLeap(2), et);
        kani::assume(a.is_ok());
        let a = a.unwrap();
        let d = crate::NaiveDate::from_yo_opt(kani::any(), kani::any()); kani::assume(d.is_some());
        let wall = d.unwrap().and_hms_opt(0, 0, 0).unwrap();
        let (s0, e0, l): (i64, i64, i64) = (kani::any(), kani::any(), kani::any());
        let lim = 70_000_000_000_000_000i64;                       // |unix_time| < 7e16 (contract of RuleDay::unix_time); timestamps of valid date-times are far inside
        kani::assume(s0 > -lim && s0 < lim && e0 > -lim && e0 < lim && l > -lim && l < lim);
        let (ms, me): (usize, usize) = (kani::any(), kani::any());
        kani::assume(ms >= 1 && ms <= 12 && me >= 1 && me <= 12);
        unsafe { LTAB.cy = crate::Datelike::year(&wall); LTAB.s0 = s0; LTAB.e0 = e0; LTAB.ms = ms; LTAB.me = me; LTAB.local = l; }
        let r = a.find_local_time_type_from_local(wall);
        assert!(!unsafe { LTAB.bad_call }, "both rule days are evaluated in the year of the wall-clock value, at local midnight");
        let got = match r { Ok(x) => x, Err(_) => { assert!(false, "a classification is returned"); return; } };
        let (so, do_) = (std_off as i64, dst_off as i64);
        let (ta, tb) = (s0 + st as i64, e0 + et as i64);           // wall-clock readings of the two transitions with the offset in force before them
        let (ta2, tb2) = (ta + do_ - so, tb + so - do_);           // ... and with the offset in force after them
        let (s_utc, e_utc) = (ta - so, tb - do_);
        let start_first = ms < me;
        let dst_at = |i: i64| if start_first { s_utc <= i && i < e_utc } else { i < e_utc || i >= s_utc };
        let hyp = if start_first { core::cmp::max(ta, ta2) < core::cmp::min(tb, tb2) } else { core::cmp::max(tb, tb2) < core::cmp::min(ta, ta2) };
        kani::cover!(hyp && matches!(got, crate::MappedLocalTime::None)); kani::cover!(hyp && matches!(got, crate::MappedLocalTime::Ambiguous(..)) && !start_first);
        if hyp && l != ta && l != tb {
            let std_valid = !dst_at(l - so); let dst_valid = dst_at(l - do_);
            match (std_valid, dst_valid) {
                (true, true) => { let (first, second) = if so > do_ { (a.std, a.dst) } else { (a.dst, a.std) }; assert!(got == crate::MappedLocalTime::Ambiguous(first, second), "both readings exist: both, the earlier instant (larger offset) first"); }
                (true, false) => assert!(got == crate::MappedLocalTime::Single(a.std), "only the standard-time reading exists"),
                (false, true) => assert!(got == crate::MappedLocalTime::Single(a.dst), "only the daylight-time reading exists"),
                (false, false) => assert!(got == crate::MappedLocalTime::None, "the wall-clock value is skipped"),
            }
        }
    }
}

