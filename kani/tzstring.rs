// @append: src/offset/local/tz_info/rule.rs
// C05/C16: offsets and rule times of a POSIX TZ string, over the contract of the digit scanners
#[cfg(kani)]
mod verif_kani_tzstring {
    use super::*;

    // parse_hhmmss / parse_signed_hhmmss (the scanners: digits, ':' separators, optional sign) are replaced by stubs that return ANY
    // values of their result type -- sign in {1, -1}, any three i32 -- so the three functions below are checked for every outcome
    // of the scan.  One recorder static that starts with a magic word (see kani/parsed.rs for why).
    struct SRec { magic: u64, calls: u8, sign: i32, h: i32, m: i32, s: i32, ok: bool }
    static mut SREC: SRec = SRec { magic: 0xC0DE_5EED_D15C_0004, calls: 0, sign: 0, h: 0, m: 0, s: 0, ok: false };
    fn st_hhmmss(_c: &mut Cursor) -> Result<(i32, i32, i32), Error> {
        let (h, m, s): (i32, i32, i32) = (kani::any(), kani::any(), kani::any());
        let ok: bool = kani::any();
        unsafe { SREC.calls += 1; SREC.sign = 1; SREC.h = h; SREC.m = m; SREC.s = s; SREC.ok = ok; }
        if ok { Ok((h, m, s)) } else { Err(Error::InvalidTzString("scan")) }
    }
    fn st_signed_hhmmss(_c: &mut Cursor) -> Result<(i32, i32, i32, i32), Error> {
        let (h, m, s): (i32, i32, i32) = (kani::any(), kani::any(), kani::any());
        let sign: i32 = if kani::any() { 1 } else { -1 };
        let ok: bool = kani::any();
        unsafe { SREC.calls += 1; SREC.sign = sign; SREC.h = h; SREC.m = m; SREC.s = s; SREC.ok = ok; }
        if ok { Ok((sign, h, m, s)) } else { Err(Error::InvalidTzString("scan")) }
    }
    fn check(r: Result<i32, Error>, hlo: i32, hhi: i32) {
        let (calls, sign, h, m, s, ok) = unsafe { (SREC.calls, SREC.sign, SREC.h, SREC.m, SREC.s, SREC.ok) };
        assert!(calls == 1, "one scan");
        let in_range = h >= hlo && h <= hhi && m >= 0 && m <= 59 && s >= 0 && s <= 59;
        kani::cover!(r.is_ok() && m != 0 && s != 0); kani::cover!(r.is_err() && ok);
        match r {
            Ok(v) => assert!(ok && in_range && v as i64 == sign as i64 * (h as i64 * 3600 + m as i64 * 60 + s as i64), "the sign applies to the whole of h:m:s"),
            Err(_) => assert!(!ok || !in_range, "in-range fields are accepted"),
        }
    }

    // fns: parse_offset
    // (the scanners themselves -- digits, separators, sign character -- are exercised by the tz twin only)
    #[kani::proof]
    #[kani::stub(parse_signed_hhmmss, st_signed_hhmmss)]
    fn vk_tzstring_offset() { let b = [0u8; 1]; let mut c = Cursor::new(&b); check(parse_offset(&mut c), 0, 24); }

    // fns: parse_rule_time
    // (the scanners themselves -- digits, separators, sign character -- are exercised by the tz twin only)
    #[kani::proof]
    #[kani::stub(parse_hhmmss, st_hhmmss)]
    fn vk_tzstring_rule_time() { let b = [0u8; 1]; let mut c = Cursor::new(&b); check(parse_rule_time(&mut c), 0, 24); }

    // fns: parse_rule_time_extended
    // (the scanners themselves -- digits, separators, sign character -- are exercised by the tz twin only)
    #[kani::proof]
    #[kani::stub(parse_signed_hhmmss, st_signed_hhmmss)]
    fn vk_tzstring_rule_time_extended() { let b = [0u8; 1]; let mut c = Cursor::new(&b); check(parse_rule_time_extended(&mut c), -167, 167); }
}
