// @append: src/format/formatting.rs
// C12 / C10 numeric kernel: the value selection and digit writers that avoid core::fmt, into a fixed-buffer fmt::Write
#[cfg(kani)]
mod verif_kani_formatting {
    use super::*;
    use crate::{NaiveDate, NaiveTime, FixedOffset, Datelike, Timelike, Weekday};
    use crate::format::{Numeric, Pad, Item, OffsetFormat, OffsetPrecision, Colons};

    struct Buf { b: [u8; 16], n: usize }
    impl core::fmt::Write for Buf {
        fn write_str(&mut self, s: &str) -> core::fmt::Result {
            let bytes = s.as_bytes();
            let mut i = 0;
            while i < bytes.len() { if self.n >= 16 { return Err(core::fmt::Error); } self.b[self.n] = bytes[i]; self.n += 1; i += 1; }
            Ok(())
        }
        fn write_char(&mut self, c: char) -> core::fmt::Result {
            let v = c as u32;
            if v >= 128 || self.n >= 16 { return Err(core::fmt::Error); }
            self.b[self.n] = v as u8; self.n += 1; Ok(())
        }
    }
    fn any_date() -> NaiveDate { let d = NaiveDate::from_yo_opt(kani::any(), kani::any()); kani::assume(d.is_some()); d.unwrap() }
    fn any_time() -> NaiveTime { let t = NaiveTime::from_num_seconds_from_midnight_opt(kani::any(), kani::any()); kani::assume(t.is_some()); t.unwrap() }
    fn any_pad() -> Pad { let p: u8 = kani::any(); kani::assume(p < 3); match p { 0 => Pad::None, 1 => Pad::Zero, _ => Pad::Space } }
    /// documented rendering of a two-digit field with value v (0..=99)
    fn two(exp: &mut Buf, v: u32, pad: Pad) {
        if v >= 10 { exp.b[exp.n] = b'0' + (v / 10) as u8; exp.n += 1; }
        else { match pad { Pad::None => {}, Pad::Zero => { exp.b[exp.n] = b'0'; exp.n += 1; }, Pad::Space => { exp.b[exp.n] = b' '; exp.n += 1; } } }
        exp.b[exp.n] = b'0' + (v % 10) as u8; exp.n += 1;
    }
    fn same(a: &Buf, b: &Buf) -> bool { let mut i = 0; let mut ok = a.n == b.n; while i < 16 { if i < a.n && i < b.n && a.b[i] != b.b[i] { ok = false; } i += 1; } ok }

    fn fmt_check(d: NaiveDate, pad: Pad, spec: Numeric, val: u32, one: bool) {
        let df = DelayedFormat::new(Some(d), None, core::iter::empty::<Item<'static>>());
        let mut w = Buf { b: [0; 16], n: 0 };
        let r = df.format_numeric(&mut w, &spec, pad);
        let mut e = Buf { b: [0; 16], n: 0 };
        if one { e.b[0] = b'0' + val as u8; e.n = 1; } else { two(&mut e, val, pad); }
        assert!(r.is_ok() && same(&w, &e), "numeric date item renders the documented field with the documented padding");
    }
    // fns: DelayedFormat::format_numeric (%C and %y: century for years 0..=9999, two-digit year for years >= 0)
    #[kani::proof]
    #[kani::unwind(17)]
    fn vk_fmt_numeric_years() {
        let d = any_date(); let y = d.year();
        kani::assume(y >= 0);
        kani::cover!(y == 9999, "year 9999");
        if kani::any() { kani::assume(y <= 9999); fmt_check(d, any_pad(), Numeric::YearDiv100, (y / 100) as u32, false); }
        else { fmt_check(d, any_pad(), Numeric::YearMod100, (y % 100) as u32, false); }
    }
    // fns: DelayedFormat::format_numeric (%g and the ISO century)
    #[kani::proof]
    #[kani::unwind(17)]
    fn vk_fmt_numeric_iso_years() {
        let d = any_date(); let iy = d.iso_week().year();
        kani::assume(iy >= 0);
        if kani::any() { kani::assume(iy <= 9999); fmt_check(d, any_pad(), Numeric::IsoYearDiv100, (iy / 100) as u32, false); }
        else { fmt_check(d, any_pad(), Numeric::IsoYearMod100, (iy % 100) as u32, false); }
    }
    // fns: DelayedFormat::format_numeric (%m %d %e %q)
    #[kani::proof]
    #[kani::unwind(17)]
    fn vk_fmt_numeric_month_day() {
        let d = any_date();
        let which: u8 = kani::any();
        match which % 3 { 0 => fmt_check(d, any_pad(), Numeric::Month, d.month(), false), 1 => fmt_check(d, any_pad(), Numeric::Day, d.day(), false),
                          _ => fmt_check(d, any_pad(), Numeric::Quarter, (d.month() + 2) / 3, true) }
    }
    // fns: DelayedFormat::format_numeric (%U %W: week 1 starts with the first Sunday / Monday; %w %u)
    #[kani::proof]
    #[kani::unwind(17)]
    fn vk_fmt_numeric_weeks() {
        let d = any_date();
        let which: u8 = kani::any();
        kani::cover!(d.ordinal() == 1 && d.weekday() == Weekday::Sat, "week 0");
        match which % 4 { 0 => fmt_check(d, any_pad(), Numeric::WeekFromSun, (d.ordinal() + 6 - d.weekday().num_days_from_sunday()) / 7, false),
                          1 => fmt_check(d, any_pad(), Numeric::WeekFromMon, (d.ordinal() + 6 - d.weekday().num_days_from_monday()) / 7, false),
                          2 => fmt_check(d, any_pad(), Numeric::NumDaysFromSun, d.weekday().num_days_from_sunday(), true),
                          _ => fmt_check(d, any_pad(), Numeric::WeekdayFromMon, d.weekday().number_from_monday(), true) }
    }
    // fns: DelayedFormat::format_numeric (%V)
    #[kani::proof]
    #[kani::unwind(17)]
    fn vk_fmt_numeric_isoweek() {
        let d = any_date();
        kani::cover!(d.iso_week().week() == 53, "week 53");
        fmt_check(d, any_pad(), Numeric::IsoWeek, d.iso_week().week(), false);
    }

    // fns: DelayedFormat::format_numeric (time items: %H %k %I %l %M %S incl. second 60)
    #[kani::proof]
    #[kani::unwind(17)]
    fn vk_fmt_numeric_time() {
        let t = any_time(); let pad = any_pad();
        let which: u8 = kani::any();
        kani::assume(which < 4);
        let s = t.num_seconds_from_midnight();
        let h = s / 3600;
        let (spec, val) = match which {
            0 => (Numeric::Hour, h),
            1 => (Numeric::Hour12, if h % 12 == 0 { 12 } else { h % 12 }),
            2 => (Numeric::Minute, s / 60 % 60),
            _ => (Numeric::Second, s % 60 + if t.nanosecond() >= 1_000_000_000 { 1 } else { 0 }),
        };
        let df = DelayedFormat::new(None, Some(t), core::iter::empty::<Item<'static>>());
        let mut w = Buf { b: [0; 16], n: 0 };
        let r = df.format_numeric(&mut w, &spec, pad);
        let mut e = Buf { b: [0; 16], n: 0 };
        two(&mut e, val, pad);
        kani::cover!(which == 3 && val == 60); kani::cover!(which == 1 && val == 12);
        assert!(r.is_ok() && same(&w, &e), "numeric time item renders the documented field");
        // a field the value does not have makes formatting fail
        let mut w2 = Buf { b: [0; 16], n: 0 };
        assert!(df.format_numeric(&mut w2, &Numeric::Day, pad).is_err(), "a date field of a time-only value fails");
    }

    // fns: OffsetFormat::format (every offset x every precision / colon / padding / Z option), write_hundreds
    #[kani::proof]
    #[kani::unwind(17)]
    fn vk_fmt_offset() {
        let secs: i32 = kani::any();
        kani::assume(secs > -86400 && secs < 86400);
        let off = FixedOffset::east_opt(secs).unwrap();
        let p: u8 = kani::any(); let c: u8 = kani::any();
        kani::assume(p < 6 && c < 3);
        let precision = match p { 0 => OffsetPrecision::Hours, 1 => OffsetPrecision::Minutes, 2 => OffsetPrecision::Seconds, 3 => OffsetPrecision::OptionalMinutes, 4 => OffsetPrecision::OptionalSeconds, _ => OffsetPrecision::OptionalMinutesAndSeconds };
        let colons = match c { 0 => Colons::None, 1 => Colons::Colon, _ => Colons::Maybe };
        let zulu: bool = kani::any(); let pad = any_pad();
        let f = OffsetFormat { precision, colons, allow_zulu: zulu, padding: pad };
        let mut w = Buf { b: [0; 16], n: 0 };
        let r = f.format(&mut w, off);
        // independent rendering
        let mut e = Buf { b: [0; 16], n: 0 };
        if zulu && secs == 0 { e.b[0] = b'Z'; e.n = 1; }
        else {
            let a = if secs < 0 { -secs } else { secs } as u32;
            let (hh, mm, ss, show_m, show_s) = match p {
                0 => (a / 3600, 0, 0, false, false),                                              // minutes and seconds truncated
                1 | 3 => { let m = (a + 30) / 60; (m / 60, m % 60, 0, p == 1 || m % 60 != 0, false) }  // rounded to the nearest minute
                _ => { let (h, m, s) = (a / 3600, a / 60 % 60, a % 60); (h, m, s, !(p == 5 && s == 0 && m == 0), p == 2 || s != 0) }
            };
            let sign = if secs < 0 { b'-' } else { b'+' };
            if hh < 10 {
                if let Pad::Space = pad { e.b[e.n] = b' '; e.n += 1; }
                e.b[e.n] = sign; e.n += 1;
                if let Pad::Zero = pad { e.b[e.n] = b'0'; e.n += 1; }
                e.b[e.n] = b'0' + hh as u8; e.n += 1;
            } else { e.b[e.n] = sign; e.n += 1; e.b[e.n] = b'0' + (hh / 10) as u8; e.n += 1; e.b[e.n] = b'0' + (hh % 10) as u8; e.n += 1; }
            if show_m { if c == 1 { e.b[e.n] = b':'; e.n += 1; } e.b[e.n] = b'0' + (mm / 10) as u8; e.n += 1; e.b[e.n] = b'0' + (mm % 10) as u8; e.n += 1; }
            if show_s { if c == 1 { e.b[e.n] = b':'; e.n += 1; } e.b[e.n] = b'0' + (ss / 10) as u8; e.n += 1; e.b[e.n] = b'0' + (ss % 10) as u8; e.n += 1; }
        }
        kani::cover!(p == 1 && secs == 86399); kani::cover!(p == 5 && secs % 3600 == 0); kani::cover!(zulu && secs == 0);
        assert!(r.is_ok() && same(&w, &e), "offset renders sign, hours and the requested minutes/seconds exactly");
    }

    // fns: write_rfc3339 with SecondsFormat::Secs, wall-clock year 0..=9999 (date/time digit fields and offset; no core::fmt on this path)
    #[kani::proof]
    #[kani::unwind(30)]
    fn vk_fmt_rfc3339_secs() {
        let d = any_date(); let t = any_time();
        kani::assume(d.year() >= 0 && d.year() <= 9999);
        let secs: i32 = kani::any();
        kani::assume(secs > -86400 && secs < 86400 && secs % 60 == 0);
        let off = FixedOffset::east_opt(secs).unwrap();
        let use_z: bool = kani::any();
        struct Big { b: [u8; 32], n: usize }
        impl core::fmt::Write for Big {
            fn write_str(&mut self, s: &str) -> core::fmt::Result { let bytes = s.as_bytes(); let mut i = 0; while i < bytes.len() { if self.n >= 32 { return Err(core::fmt::Error); } self.b[self.n] = bytes[i]; self.n += 1; i += 1; } Ok(()) }
            fn write_char(&mut self, c: char) -> core::fmt::Result { let v = c as u32; if v >= 128 || self.n >= 32 { return Err(core::fmt::Error); } self.b[self.n] = v as u8; self.n += 1; Ok(()) }
        }
        let mut w = Big { b: [0; 32], n: 0 };
        let r = write_rfc3339(&mut w, d.and_time(t), off, SecondsFormat::Secs, use_z);
        assert!(r.is_ok(), "r.is_ok()");
        let dg = |v: u32, i: usize, w: &Big| w.b[i] == b'0' + (v / 10) as u8 && w.b[i + 1] == b'0' + (v % 10) as u8;
        let y = d.year() as u32; let s = t.num_seconds_from_midnight();
        let sec = s % 60 + if t.nanosecond() >= 1_000_000_000 { 1 } else { 0 };
        kani::cover!(sec == 60); kani::cover!(use_z && secs == 0);
        assert!(dg(y / 100, 0, &w) && dg(y % 100, 2, &w) && w.b[4] == b'-' && dg(d.month(), 5, &w) && w.b[7] == b'-' && dg(d.day(), 8, &w) && w.b[10] == b'T', "full-date");
        assert!(dg(s / 3600, 11, &w) && w.b[13] == b':' && dg(s / 60 % 60, 14, &w) && w.b[16] == b':' && dg(sec, 17, &w), "partial-time, second 60 for a leap second");
        if use_z && secs == 0 { assert!(w.n == 20 && w.b[19] == b'Z', "Z only on request and only for offset zero"); }
        else {
            let a = (if secs < 0 { -secs } else { secs }) as u32 / 60;
            assert!(w.n == 25 && w.b[19] == (if secs < 0 { b'-' } else { b'+' }) && dg(a / 60, 20, &w) && w.b[22] == b':' && dg(a % 60, 23, &w), "time-numoffset");
        }
    }
}
