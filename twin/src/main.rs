//! Native counterexample search ("executable twins" of the Verus contracts, DESIGN.md 2.4 step 4).
//! Uses only the public API of the real chrono crate (scratch copy of the current working tree) and an independent
//! exec spec in i128 arithmetic.  usage: verif_twin <unit> <seed>
//! prints one line per failing input:  FOUND <fn> :: <input> :: <got> :: <want>      and finally  DONE <unit> cases=<n> found=<k>
use chrono::{DateTime, Datelike, Days, DurationRound, FixedOffset, NaiveDate, NaiveDateTime, NaiveTime, SubsecRound, TimeDelta, TimeZone, Timelike, Utc, Weekday};
use std::panic::{catch_unwind, AssertUnwindSafe};

struct Rng(u64);
impl Rng {
    fn next(&mut self) -> u64 { self.0 ^= self.0 << 13; self.0 ^= self.0 >> 7; self.0 ^= self.0 << 17; self.0 }
    fn i64_any(&mut self) -> i64 { let v = self.next() as i64; let sh = self.next() % 64; v >> sh }
}
static LAST_PANIC: std::sync::Mutex<String> = std::sync::Mutex::new(String::new());
static CURRENT: std::sync::Mutex<String> = std::sync::Mutex::new(String::new());
fn current(s: &str) { if let Ok(mut c) = CURRENT.lock() { *c = s.to_string(); } }
fn last_panic() -> String { LAST_PANIC.lock().map(|l| l.clone()).unwrap_or_default() }
static mut CASES: u64 = 0;
static mut FOUND: u64 = 0;
fn case() { unsafe { CASES += 1; } }
fn found(f: &str, input: String, got: String, want: String) {
    unsafe { FOUND += 1; if FOUND <= 12 { println!("FOUND {} :: {} :: got {} :: want {}", f, input, got, want); } }
}
macro_rules! chk { ($f:expr, $inp:expr, $got:expr, $want:expr) => {{ case(); let g = $got; let w = $want; if g != w { found($f, format!("{:?}", $inp), format!("{:?}", g), format!("{:?}", w)); } }}; }
/// evaluate, turning a panic into None-with-flag
fn guard<T>(f: impl FnOnce() -> T) -> Result<T, ()> { catch_unwind(AssertUnwindSafe(f)).map_err(|_| ()) }

const LIM: i128 = 9223372036854775807i128 * 1_000_000;          // +/- (2^63-1) ms in ns
const DAYNS: i128 = 86_400_000_000_000;
const MIN_Y: i128 = -262143;
const MAX_Y: i128 = 262142;

fn i64_grid(r: &mut Rng) -> Vec<i64> {
    let mut v: Vec<i64> = vec![i64::MIN, i64::MIN + 1, -i64::MAX, i64::MAX, i64::MAX - 1, 0, 1, -1, 2, -2];
    let keys: [i64; 22] = [7, 12, 59, 60, 61, 365, 366, 400, 1000, 3600, 86_399, 86_400, 86_401, 146_097, 604_800, 1_000_000, 1_000_000_000,
        9_223_372_036_854, 9_223_372_036_854_775, 153_722_867_280_912, 106_751_991_167, 15_250_284_452];
    for k in keys { for d in -2..=2 { v.push(k + d); v.push(-k + d); } }
    for sh in 0..63 { let p = 1i64 << sh; v.push(p); v.push(p - 1); v.push(-p); v.push(-p - 1); v.push(p + 1); }
    for m in [i64::MAX / 7, i64::MAX / 1000, i64::MAX / 60, i64::MAX / 3600, i64::MAX / 86400, i64::MAX / 604800, i64::MAX / 1_000_000] { for d in -2..=2 { v.push(m + d); v.push(-m + d); } }
    for _ in 0..300 { v.push(r.i64_any()); }
    v
}
fn td_grid(r: &mut Rng) -> Vec<TimeDelta> {
    let mut v = vec![TimeDelta::MIN, TimeDelta::MAX, TimeDelta::zero()];
    let secs: Vec<i64> = vec![0, 1, -1, 2, -2, 59, -59, 60, -60, 61, -61, 119, -119, 120, -120, 3599, -3600, 86399, -86400, 86400, -86401, 604799, -604800,
        9_223_372_036_854_775, 9_223_372_036_854_774, -9_223_372_036_854_775, -9_223_372_036_854_776, 4_611_686_018_427_387, -4_611_686_018_427_388,
        368_934_881_474_191, -368_934_881_474_191, 2_147_483_647, -2_147_483_648, 9_223_372_036, -9_223_372_037];
    let nanos: [u32; 12] = [0, 1, 2, 999, 1000, 499_999_999, 500_000_000, 36_000_000, 193_000_000, 807_000_000, 999_999_998, 999_999_999];
    for &s in &secs { for &n in &nanos { if let Some(t) = TimeDelta::new(s, n) { v.push(t); } } }
    for _ in 0..200 { let s = r.i64_any() % 9_223_372_036_854_775; let n = (r.next() % 1_000_000_000) as u32; if let Some(t) = TimeDelta::new(s, n) { v.push(t); } }
    v
}
/// exact nanosecond count of a TimeDelta, through accessors that are themselves cross-checked in `timedelta`
fn ns(t: TimeDelta) -> i128 { t.num_seconds() as i128 * 1_000_000_000 + t.subsec_nanos() as i128 }
fn tdiv(a: i128, b: i128) -> i128 { a / b }            // i128 `/` truncates toward zero

fn twin_timedelta(r: &mut Rng) {
    let g = i64_grid(r);
    // constructors
    for &x in &g {
        let mk = |u: i128| -> Option<i128> { let v = x as i128 * u; if -LIM <= v && v <= LIM { Some(v) } else { None } };
        chk!("TimeDelta::try_weeks", x, guard(|| TimeDelta::try_weeks(x).map(ns)), Ok(mk(604_800_000_000_000)));
        chk!("TimeDelta::try_days", x, guard(|| TimeDelta::try_days(x).map(ns)), Ok(mk(DAYNS)));
        chk!("TimeDelta::try_hours", x, guard(|| TimeDelta::try_hours(x).map(ns)), Ok(mk(3_600_000_000_000)));
        chk!("TimeDelta::try_minutes", x, guard(|| TimeDelta::try_minutes(x).map(ns)), Ok(mk(60_000_000_000)));
        chk!("TimeDelta::try_seconds", x, guard(|| TimeDelta::try_seconds(x).map(ns)), Ok(mk(1_000_000_000)));
        chk!("TimeDelta::try_milliseconds", x, guard(|| TimeDelta::try_milliseconds(x).map(ns)), Ok(mk(1_000_000)));
        chk!("TimeDelta::microseconds", x, guard(|| ns(TimeDelta::microseconds(x))), Ok(x as i128 * 1000));
        chk!("TimeDelta::nanoseconds", x, guard(|| ns(TimeDelta::nanoseconds(x))), Ok(x as i128));
        for n in [0u32, 1, 999_999_999, 1_000_000_000, 193_000_000, 192_999_999, 807_000_000, 807_000_001, u32::MAX] {
            let v = x as i128 * 1_000_000_000 + n as i128;
            let want = if n < 1_000_000_000 && -LIM <= v && v <= LIM { Some(v) } else { None };
            chk!("TimeDelta::new", (x, n), guard(|| TimeDelta::new(x, n).map(ns)), Ok(want));
        }
    }
    let tds = td_grid(r);
    for &t in &tds {
        // raw representation: ns() relies on num_seconds/subsec_nanos; check them against each other and the range
        let n = ns(t);
        chk!("TimeDelta range invariant", t, -LIM <= n && n <= LIM, true);
        chk!("TimeDelta::num_weeks", t, t.num_weeks() as i128, tdiv(n, 604_800_000_000_000));
        chk!("TimeDelta::num_days", t, t.num_days() as i128, tdiv(n, DAYNS));
        chk!("TimeDelta::num_hours", t, t.num_hours() as i128, tdiv(n, 3_600_000_000_000));
        chk!("TimeDelta::num_minutes", t, t.num_minutes() as i128, tdiv(n, 60_000_000_000));
        chk!("TimeDelta::num_seconds", t, t.num_seconds() as i128, tdiv(n, 1_000_000_000));
        chk!("TimeDelta::num_milliseconds", t, t.num_milliseconds() as i128, tdiv(n, 1_000_000));
        chk!("TimeDelta::subsec_nanos", t, t.subsec_nanos() as i128, n % 1_000_000_000);
        chk!("TimeDelta::subsec_millis", t, t.subsec_millis() as i128, (n % 1_000_000_000) / 1_000_000);
        chk!("TimeDelta::subsec_micros", t, t.subsec_micros() as i128, (n % 1_000_000_000) / 1_000);
        let us = tdiv(n, 1000);
        chk!("TimeDelta::num_microseconds", t, t.num_microseconds().map(|v| v as i128), if us >= i64::MIN as i128 && us <= i64::MAX as i128 { Some(us) } else { None });
        chk!("TimeDelta::num_nanoseconds", t, t.num_nanoseconds().map(|v| v as i128), if n >= i64::MIN as i128 && n <= i64::MAX as i128 { Some(n) } else { None });
        chk!("TimeDelta::abs", t, guard(|| ns(t.abs())), Ok(n.abs()));
        chk!("TimeDelta::neg", t, guard(|| ns(-t)), Ok(-n));
        chk!("TimeDelta::is_zero", t, t.is_zero(), n == 0);
        chk!("TimeDelta::to_std", t, t.to_std().ok().map(|d| d.as_nanos() as i128), if n >= 0 { Some(n) } else { None });
        for k in [0i32, 1, -1, 2, -2, 3, -3, 7, 25, -25, 1000, i32::MAX, i32::MIN, i32::MIN + 1, 86400, 1_000_000_000] {
            let p = n * k as i128;
            chk!("TimeDelta::checked_mul", (t, k), guard(|| t.checked_mul(k).map(ns)), Ok(if -LIM <= p && p <= LIM { Some(p) } else { None }));
            case();
            match guard(|| t.checked_div(k)) {
                Ok(None) => if k != 0 { found("TimeDelta::checked_div", format!("{:?}", (t, k)), "None".into(), "Some".into()) },
                Ok(Some(q)) => { let e = (ns(q) * k as i128 - n).abs(); if k == 0 || e >= 2 * (k as i128).abs() || ns(q).abs() > LIM { found("TimeDelta::checked_div", format!("{:?}", (t, k)), format!("{:?} (|q*k - n| = {})", q, e), "within 2 ns of the exact quotient".into()) } }
                Err(()) => found("TimeDelta::checked_div", format!("{:?}", (t, k)), "panic".into(), "value".into()),
            }
        }
    }
    for (i, &a) in tds.iter().enumerate() { for &b in tds.iter().skip(i % 7).step_by(7) {
        let (x, y) = (ns(a), ns(b));
        chk!("TimeDelta::checked_add", (a, b), guard(|| a.checked_add(&b).map(ns)), Ok(if -LIM <= x + y && x + y <= LIM { Some(x + y) } else { None }));
        chk!("TimeDelta::checked_sub", (a, b), guard(|| a.checked_sub(&b).map(ns)), Ok(if -LIM <= x - y && x - y <= LIM { Some(x - y) } else { None }));
        chk!("TimeDelta::cmp", (a, b), a.cmp(&b), x.cmp(&y));
    } }
    for &s in &[0u64, 1, 9_223_372_036_854_775, 9_223_372_036_854_776, 9_223_372_036_854_774, u64::MAX, i64::MAX as u64, i64::MAX as u64 + 1] { for n in [0u32, 1, 806_999_999, 807_000_000, 807_000_001, 999_999_999] {
        let d = std::time::Duration::new(s, n); let v = s as i128 * 1_000_000_000 + n as i128;
        chk!("TimeDelta::from_std", d, guard(|| TimeDelta::from_std(d).ok().map(ns)), Ok(if v <= LIM { Some(v) } else { None }));
    } }
}

// ---- independent calendar spec (Howard Hinnant's days_from_civil, shifted so that day 1 = 0001-01-01) -------------------------
fn is_leap(y: i128) -> bool { y.rem_euclid(4) == 0 && (y.rem_euclid(100) != 0 || y.rem_euclid(400) == 0) }
fn dby(y: i128) -> i128 { let p = y - 1; 365 * p + p.div_euclid(4) - p.div_euclid(100) + p.div_euclid(400) }
fn dn_of(d: NaiveDate) -> i128 { dby(d.year() as i128) + d.ordinal() as i128 }
fn dn_min() -> i128 { dby(MIN_Y) + 1 }
fn dn_max() -> i128 { dby(MAX_Y) + 365 }
/// (year, ordinal) of a day number by linear search around an estimate (independent of chrono's cycle tables)
fn yo_of(n: i128) -> (i128, i128) {
    let mut y = (n - 1).div_euclid(146_097) * 400 + ((n - 1).rem_euclid(146_097)) / 366 + 1;
    while dby(y + 1) < n { y += 1; }
    while dby(y) >= n { y -= 1; }
    (y, n - dby(y))
}
fn date_grid(r: &mut Rng) -> Vec<NaiveDate> {
    let mut v = vec![NaiveDate::MIN, NaiveDate::MAX];
    let mut ns: Vec<i128> = vec![];
    for k in -3..=3 { ns.push(dn_min() + k); ns.push(dn_max() + k); ns.push(k); ns.push(719_163 + k); }
    for c in [-5i128, -2, -1, 0, 1, 2, 4, 5, 6] { for k in -6..=6 { ns.push(c * 146_097 + k); ns.push(c * 146_097 - 365 + k); ns.push(c * 146_097 + 366 + k); } }
    for y in [-262143i128, -100_400, -100_000, -10_000, -9999, -1000, -999, -500, -401, -400, -399, -100, -99, -10, -9, -1, 0, 1, 4, 9, 10, 99, 100, 400, 999, 1000, 1600, 1900, 1969, 1970, 1999, 2000, 2024, 2069, 2070, 2399, 2400, 9999, 10_000, 10_001, 25_700, 99_999, 100_000, 262142] { for k in [-1i128, 0, 1, 59, 60, 365, 366] { ns.push(dby(y) + k); } }
    for _ in 0..400 { ns.push((r.i64_any() as i128).rem_euclid(dn_max() - dn_min() + 1) + dn_min()); }
    for n in ns { if n >= dn_min() && n <= dn_max() { let (y, o) = yo_of(n); if let Some(d) = NaiveDate::from_yo_opt(y as i32, o as u32) { v.push(d); } } }
    v
}

fn twin_date(r: &mut Rng) {
    let dates = date_grid(r);
    let g = i64_grid(r);
    for &x in &g { if x >= i32::MIN as i64 && x <= i32::MAX as i64 {
        let n = x as i128;
        let want = if n >= dn_min() && n <= dn_max() { let (y, o) = yo_of(n); Some((y as i32, o as u32)) } else { None };
        chk!("NaiveDate::from_num_days_from_ce_opt", x, guard(|| NaiveDate::from_num_days_from_ce_opt(x as i32).map(|d| (d.year(), d.ordinal()))), Ok(want));
    } }
    for &d in &dates {
        let n = dn_of(d);
        chk!("Datelike::num_days_from_ce", d, guard(|| Datelike::num_days_from_ce(&d) as i128), Ok(n));
        chk!("NaiveDate::from_num_days_from_ce_opt", n, guard(|| NaiveDate::from_num_days_from_ce_opt(n as i32)), Ok(Some(d)));
        for &k in g.iter().step_by(3) {
            let ku = k as u64;
            let t = n + ku as i128;
            chk!("NaiveDate::checked_add_days", (d, ku), guard(|| d.checked_add_days(Days::new(ku)).map(dn_of)), Ok(if t <= dn_max() { Some(t) } else { None }));
            let t = n - ku as i128;
            chk!("NaiveDate::checked_sub_days", (d, ku), guard(|| d.checked_sub_days(Days::new(ku)).map(dn_of)), Ok(if t >= dn_min() { Some(t) } else { None }));
            if let Some(td) = TimeDelta::try_seconds(k) {
                let t = n + ns(td) / DAYNS;
                chk!("NaiveDate::checked_add_signed", (d, td), guard(|| d.checked_add_signed(td).map(dn_of)), Ok(if t >= dn_min() && t <= dn_max() { Some(t) } else { None }));
                let t = n - ns(td) / DAYNS;
                chk!("NaiveDate::checked_sub_signed", (d, td), guard(|| d.checked_sub_signed(td).map(dn_of)), Ok(if t >= dn_min() && t <= dn_max() { Some(t) } else { None }));
            }
        }
        chk!("NaiveDate::succ_opt", d, guard(|| d.succ_opt().map(dn_of)), Ok(if n < dn_max() { Some(n + 1) } else { None }));
        chk!("NaiveDate::pred_opt", d, guard(|| d.pred_opt().map(dn_of)), Ok(if n > dn_min() { Some(n - 1) } else { None }));
        chk!("NaiveDate::weekday", d, d.weekday().num_days_from_monday() as i128, (n - 1).rem_euclid(7));
        chk!("NaiveDate::leap_year", d, d.leap_year(), is_leap(d.year() as i128));
    }
    for (i, &a) in dates.iter().enumerate() { for &b in dates.iter().skip(i % 11).step_by(11) {
        chk!("NaiveDate::signed_duration_since", (a, b), guard(|| ns(a.signed_duration_since(b))), Ok((dn_of(a) - dn_of(b)) * DAYNS));
        chk!("NaiveDate::cmp", (a, b), a.cmp(&b), dn_of(a).cmp(&dn_of(b)));
    } }
}

fn twin_iters(r: &mut Rng) {
    for &d in &date_grid(r) {
        let n = dn_of(d);
        let mut it = d.iter_days();
        chk!("NaiveDateDaysIterator::size_hint", d, it.size_hint(), ((dn_max() - n) as usize, Some((dn_max() - n) as usize)));
        chk!("NaiveDateDaysIterator::next", d, guard(|| { let a = it.next(); (a, it.next().map(dn_of)) }), Ok((if n < dn_max() { Some(d) } else { None }, if n + 1 < dn_max() { Some(n + 1) } else { None })));
        let mut ib = d.iter_days();
        chk!("NaiveDateDaysIterator::next_back", d, guard(|| { let a = ib.next_back(); (a, ib.next_back().map(dn_of)) }), Ok((if n > dn_min() { Some(d) } else { None }, if n - 1 > dn_min() { Some(n - 1) } else { None })));
        let mut iw = d.iter_weeks();
        let w = ((dn_max() - n) / 7) as usize;
        chk!("NaiveDateWeeksIterator::size_hint", d, iw.size_hint(), (w, Some(w)));
        chk!("NaiveDateWeeksIterator::next", d, guard(|| { let a = iw.next(); (a, iw.next().map(dn_of)) }), Ok((if n + 7 <= dn_max() { Some(d) } else { None }, if n + 14 <= dn_max() { Some(n + 7) } else { None })));
        let mut ib = d.iter_weeks();
        chk!("NaiveDateWeeksIterator::next_back", d, guard(|| { let a = ib.next_back(); (a, ib.next_back().map(dn_of)) }), Ok((if n - 7 >= dn_min() { Some(d) } else { None }, if n - 14 >= dn_min() { Some(n - 7) } else { None })));
        if dn_max() - n <= 40 { chk!("NaiveDateDaysIterator count == len", d, d.iter_days().count(), d.iter_days().len()); chk!("NaiveDateWeeksIterator count == len", d, d.iter_weeks().count(), d.iter_weeks().len()); }
    }
}

// ---- time of day ----------------------------------------------------------------------------------------------------
fn time_grid(r: &mut Rng) -> Vec<NaiveTime> {
    let mut v = vec![];
    let secs = [0u32, 1, 58, 59, 60, 61, 119, 3599, 3600, 43199, 43200, 86339, 86340, 86398, 86399, 11159];
    let fr = [0u32, 1, 500_000_000, 999_999_999, 1_000_000_000, 1_000_000_001, 1_200_000_000, 1_500_000_000, 1_900_000_000, 1_999_999_999];
    for &s in &secs { for &f in &fr { if let Some(t) = NaiveTime::from_num_seconds_from_midnight_opt(s, f) { v.push(t); } if f >= 1_000_000_000 { if let Some(t) = NaiveTime::from_num_seconds_from_midnight_opt(s, 0).and_then(|t| t.with_nanosecond(f)) { v.push(t); } } } }
    for _ in 0..80 { let s = (r.next() % 86400) as u32; let f = (r.next() % 2_000_000_000) as u32; if let Some(t) = NaiveTime::from_num_seconds_from_midnight_opt(s, 0).and_then(|t| t.with_nanosecond(f)) { v.push(t); } }
    v
}
fn tpos(t: NaiveTime) -> i128 { t.num_seconds_from_midnight() as i128 * 1_000_000_000 + t.nanosecond() as i128 }
/// leap-line model of the documentation: (stayed, position)
fn add_model(t: NaiveTime, d: i128) -> (bool, i128) {
    let p = tpos(t); let rr = p + d; let s = t.num_seconds_from_midnight() as i128 * 1_000_000_000;
    if t.nanosecond() < 1_000_000_000 { (false, rr) } else if rr >= s + 2_000_000_000 { (false, rr - 1_000_000_000) } else if rr >= s { (true, rr) } else { (false, rr) }
}
fn td_small_grid(r: &mut Rng) -> Vec<TimeDelta> {
    let mut v = vec![TimeDelta::zero(), TimeDelta::MAX, TimeDelta::MIN];
    for s in [0i64, 1, -1, 2, -2, 59, 60, -60, 3600, -3600, 86399, 86400, -86400, 86401, -86401, 172800, 31_536_000, -31_536_000, 8_000_000_000_000, -8_000_000_000_000] {
        for n in [0u32, 1, 100_000_000, 300_000_000, 500_000_000, 700_000_000, 800_000_000, 999_999_999] { if let Some(t) = TimeDelta::new(s, n) { v.push(t); } } }
    for _ in 0..60 { if let Some(t) = TimeDelta::new(r.i64_any() % 200_000, (r.next() % 1_000_000_000) as u32) { v.push(t); } }
    // day counts around the i32 / u32 wrap points and the width of the date range
    for d in [1i64 << 31, (1 << 31) - 1, (1 << 31) + 1, 1 << 32, (1 << 32) + 1, (1 << 32) - 1, 1 << 33, 191_491_528, 191_491_529, 95_745_399, 95_746_129] { for sg in [1i64, -1] { for extra in [0i64, 1, -1] {
        if let Some(t) = TimeDelta::try_seconds(sg * d * 86_400 + extra) { v.push(t); } } } }
    v
}
fn jpos(x: NaiveTime, o: NaiveTime) -> i128 { tpos(x) + if o.nanosecond() >= 1_000_000_000 && o.num_seconds_from_midnight() < x.num_seconds_from_midnight() { 1_000_000_000 } else { 0 } }

fn twin_time(r: &mut Rng) {
    for h in [0u32, 1, 12, 23, 24, 25, u32::MAX] { for m in [0u32, 1, 59, 60, u32::MAX] { for s in [0u32, 1, 58, 59, 60, u32::MAX] { for n in [0u32, 1, 999_999_999, 1_000_000_000, 1_000_000_001, 1_999_999_999, 2_000_000_000, u32::MAX] {
        let ok = h < 24 && m < 60 && s < 60 && (n < 1_000_000_000 || (n < 2_000_000_000 && s == 59));
        chk!("NaiveTime::from_hms_nano_opt", (h, m, s, n), guard(|| NaiveTime::from_hms_nano_opt(h, m, s, n).map(|t| (t.num_seconds_from_midnight(), t.nanosecond()))), Ok(if ok { Some((h * 3600 + m * 60 + s, n)) } else { None }));
    } } } }
    for s in [0u32, 1, 58, 59, 60, 119, 86399, 86400, u32::MAX] { for n in [0u32, 999_999_999, 1_000_000_000, 1_000_000_001, 1_999_999_999, 2_000_000_000, u32::MAX] {
        let ok = s < 86400 && (n < 1_000_000_000 || (n < 2_000_000_000 && s % 60 == 59));
        chk!("NaiveTime::from_num_seconds_from_midnight_opt", (s, n), guard(|| NaiveTime::from_num_seconds_from_midnight_opt(s, n).map(|t| (t.num_seconds_from_midnight(), t.nanosecond()))), Ok(if ok { Some((s, n)) } else { None }));
        for (ms, unit, name) in [(n / 1_000_000, 1_000_000u64, "milli"), (n / 1000, 1000u64, "micro")] {
            let nn = ms as u64 * unit; let (h, m, sec) = (s / 3600 % 24, s / 60 % 60, s % 60);
            let ok = nn < 1_000_000_000 || (nn < 2_000_000_000 && sec == 59);
            let got = guard(|| if name == "milli" { NaiveTime::from_hms_milli_opt(h, m, sec, ms) } else { NaiveTime::from_hms_micro_opt(h, m, sec, ms) }.map(|t| t.nanosecond() as u64));
            chk!("NaiveTime::from_hms_milli/micro_opt", (h, m, sec, ms, name), got, Ok(if ok { Some(nn) } else { None }));
        }
    } }
    let ts = time_grid(r); let ds = td_small_grid(r);
    for &t in &ts {
        let s = t.num_seconds_from_midnight();
        chk!("NaiveTime::hour/minute/second", t, (t.hour(), t.minute(), t.second()), (s / 3600, s / 60 % 60, s % 60));
        chk!("Timelike::hour12", t, t.hour12(), (s / 3600 >= 12, if (s / 3600) % 12 == 0 { 12 } else { (s / 3600) % 12 }));
        for v in [0u32, 1, 23, 24, 59, 60, 999_999_999, 1_000_000_000, 1_999_999_999, 2_000_000_000, u32::MAX] {
            chk!("NaiveTime::with_hour", (t, v), t.with_hour(v).map(|x| (x.num_seconds_from_midnight(), x.nanosecond())), if v < 24 { Some((v * 3600 + s % 3600, t.nanosecond())) } else { None });
            chk!("NaiveTime::with_minute", (t, v), t.with_minute(v).map(|x| (x.num_seconds_from_midnight(), x.nanosecond())), if v < 60 { Some((s / 3600 * 3600 + v * 60 + s % 60, t.nanosecond())) } else { None });
            chk!("NaiveTime::with_second", (t, v), t.with_second(v).map(|x| (x.num_seconds_from_midnight(), x.nanosecond())), if v < 60 { Some((s / 60 * 60 + v, t.nanosecond())) } else { None });
            chk!("NaiveTime::with_nanosecond", (t, v), t.with_nanosecond(v).map(|x| (x.num_seconds_from_midnight(), x.nanosecond())), if v < 2_000_000_000 { Some((s, v)) } else { None });
        }
        for &d in &ds { for sign in [1i128, -1] {
            let dd = ns(d) * sign;
            let m = add_model(t, dd);
            let want = if m.0 { (s as i128, m.1 - s as i128 * 1_000_000_000, 0i128) } else { let p = m.1.rem_euclid(DAYNS); (p / 1_000_000_000, p % 1_000_000_000, (m.1 - p) / 1_000_000_000) };
            let got = guard(|| { let (x, c) = if sign == 1 { t.overflowing_add_signed(d) } else { t.overflowing_sub_signed(d) }; (x.num_seconds_from_midnight() as i128, x.nanosecond() as i128, c as i128 * sign) });
            chk!(if sign == 1 { "NaiveTime::overflowing_add_signed" } else { "NaiveTime::overflowing_sub_signed" }, (t, d), got, Ok(want));
        } }
        for o in [0i32, 1, -1, 3600, -3600, 86399, -86399, 43200, 19800] {
            let off = FixedOffset::east_opt(o).unwrap();
            let tot = s as i128 + o as i128;
            chk!("NaiveTime + FixedOffset", (t, o), guard(|| { let x = t + off; (x.num_seconds_from_midnight() as i128, x.nanosecond()) }), Ok((tot.rem_euclid(86400), t.nanosecond())));
            let tot = s as i128 - o as i128;
            chk!("NaiveTime - FixedOffset", (t, o), guard(|| { let x = t - off; (x.num_seconds_from_midnight() as i128, x.nanosecond()) }), Ok((tot.rem_euclid(86400), t.nanosecond())));
        }
    }
    for &a in &ts { for &b in &ts {
        chk!("NaiveTime::signed_duration_since", (a, b), guard(|| ns(a.signed_duration_since(b))), Ok(jpos(a, b) - jpos(b, a)));
    } }
}

// ---- date-times -----------------------------------------------------------------------------------------------------
fn ndt_grid(r: &mut Rng) -> Vec<NaiveDateTime> {
    let ds = date_grid(r); let ts = time_grid(r);
    let mut v = vec![NaiveDateTime::MIN, NaiveDateTime::MAX];
    for (i, d) in ds.iter().enumerate() { for t in ts.iter().skip(i % 13).step_by(13) { v.push(d.and_time(*t)); } }
    // the i64-nanosecond window ends
    for s in [-9_223_372_037i64, -9_223_372_036, 9_223_372_036, 9_223_372_037, -9_223_372_038] { for n in [0u32, 145_224_192, 145_224_191, 854_775_807, 854_775_808, 500_000_000] { if let Some(d) = DateTime::from_timestamp(s, n) { v.push(d.naive_utc()); if let Some(l) = d.naive_utc().with_nanosecond(n + 1_000_000_000) { v.push(l); } } } }
    v
}
fn inst(x: NaiveDateTime) -> i128 { dn_of(x.date()) * DAYNS + tpos(x.time()) }
fn unix_s(x: NaiveDateTime) -> i128 { (dn_of(x.date()) - 719_163) * 86400 + x.time().num_seconds_from_midnight() as i128 }
fn in_dt_range(total: i128) -> bool { total >= dn_min() * DAYNS && total < (dn_max() + 1) * DAYNS }

fn twin_datetime(r: &mut Rng) {
    let g = i64_grid(r);
    for &x in &g {
        for n in [0u32, 1, 999_999_999, 1_000_000_000, 1_500_000_000, 1_999_999_999, 2_000_000_000, u32::MAX] {
            let day = (x as i128).div_euclid(86400) + 719_163; let sod = (x as i128).rem_euclid(86400);
            let ok = day >= dn_min() && day <= dn_max() && (n < 1_000_000_000 || (n < 2_000_000_000 && sod % 60 == 59));
            chk!("DateTime::from_timestamp", (x, n), guard(|| DateTime::from_timestamp(x, n).map(|d| (dn_of(d.naive_utc().date()), d.naive_utc().time().num_seconds_from_midnight() as i128, d.naive_utc().time().nanosecond()))), Ok(if ok { Some((day, sod, n)) } else { None }));
            chk!("TimeZone::timestamp_opt", (x, n), guard(|| Utc.timestamp_opt(x, n).single().map(|d| d.timestamp())), Ok(if ok { Some(x) } else { None }));
            chk!("TimeZone::timestamp_opt at an offset", (x, n), guard(|| FixedOffset::east_opt(5400).unwrap().timestamp_opt(x, n).single().map(|d| (d.timestamp(), d.timestamp_subsec_nanos()))), Ok(if ok { Some((x, n)) } else { None }));
        }
        for (unit, name) in [(1000i128, "millis"), (1_000_000, "micros"), (1_000_000_000, "nanos")] {
            let secs = (x as i128).div_euclid(unit); let sub = (x as i128).rem_euclid(unit) * (1_000_000_000 / unit);
            let day = secs.div_euclid(86400) + 719_163;
            let ok = day >= dn_min() && day <= dn_max();
            let got = guard(|| match name { "millis" => DateTime::from_timestamp_millis(x), "micros" => DateTime::from_timestamp_micros(x), _ => Some(DateTime::from_timestamp_nanos(x)) }.map(|d| (unix_s(d.naive_utc()), d.timestamp_subsec_nanos() as i128)));
            chk!("DateTime::from_timestamp_millis/micros/nanos", (x, name), got, Ok(if ok { Some((secs, sub)) } else { None }));
            let fo = FixedOffset::west_opt(12_600).unwrap();
            let gotz = guard(|| match name { "millis" => fo.timestamp_millis_opt(x).single(), "micros" => fo.timestamp_micros(x).single(), _ => Some(fo.timestamp_nanos(x)) }.map(|d| (unix_s(d.naive_utc()), d.timestamp_subsec_nanos() as i128)));
            chk!("TimeZone::timestamp_millis_opt/micros/nanos", (x, name), gotz, Ok(if ok { Some((secs, sub)) } else { None }));
        }
    }
    // conversion to and from the system clock type preserves the instant (both sides of the epoch, whole and fractional seconds)
    {
        use std::time::{Duration, SystemTime, UNIX_EPOCH};
        for secs in [0u64, 1, 2, 59, 60, 61, 86_399, 86_400, 1_000_000_000, 4_102_444_800, 253_402_300_799, 8_000_000_000_000] { for ns in [0u32, 1, 500_000_000, 999_999_999] { for before in [false, true] {
            let d = Duration::new(secs, ns);
            let st = if before { UNIX_EPOCH.checked_sub(d) } else { UNIX_EPOCH.checked_add(d) };
            let st = match st { Some(s) => s, None => continue };
            let want = if before { -(secs as i128 * 1_000_000_000 + ns as i128) } else { secs as i128 * 1_000_000_000 + ns as i128 };
            chk!("DateTime<Utc>::from(SystemTime)", (secs, ns, before), guard(|| { let dt = DateTime::<Utc>::from(st); dt.timestamp() as i128 * 1_000_000_000 + dt.timestamp_subsec_nanos() as i128 }), Ok(want));
            if let Ok(dt) = guard(|| DateTime::<Utc>::from(st)) {
                chk!("SystemTime::from(DateTime)", (secs, ns, before), guard(|| SystemTime::from(dt)), Ok(st));
                chk!("SystemTime::from(DateTime<FixedOffset>)", (secs, ns, before), guard(|| SystemTime::from(dt.with_timezone(&FixedOffset::east_opt(3600).unwrap()))), Ok(st));
            }
        } } }
    }
    // ... also for a date-time inside a leap second (nanosecond field >= 10^9 on second 59): the instant is timestamp + field
    {
        use std::time::{Duration, SystemTime, UNIX_EPOCH};
        for ts in [-1i64, -61, -86_401, -1_000_000_021, 59, 119, 86_399, 1_483_228_799, -62_135_596_801] { for ns in [1_000_000_000u32, 1_000_000_001, 1_500_000_000, 1_999_999_999] {
            let dt = match DateTime::from_timestamp(ts, ns) { Some(d) => d, None => continue };
            let total = ts as i128 * 1_000_000_000 + ns as i128;
            let mag = total.unsigned_abs();
            let d = Duration::new((mag / 1_000_000_000) as u64, (mag % 1_000_000_000) as u32);
            let want = if total >= 0 { UNIX_EPOCH.checked_add(d) } else { UNIX_EPOCH.checked_sub(d) };
            let want = match want { Some(w) => w, None => continue };
            chk!("SystemTime::from(DateTime) in a leap second", (ts, ns), guard(|| SystemTime::from(dt)), Ok(want));
        } }
    }
    // operator forms with core::time::Duration agree with the checked TimeDelta forms whenever those succeed (durations around 2^63 / 2^64 ns included)
    {
        use std::time::Duration;
        let durs = [Duration::new(0, 0), Duration::new(0, 1), Duration::new(1, 0), Duration::new(86_399, 999_999_999), Duration::new(86_400, 0), Duration::new(9_223_372_036, 854_775_807),
                    Duration::new(9_223_372_036, 854_775_808), Duration::new(9_223_372_037, 0), Duration::new(18_446_744_073, 709_551_616), Duration::new(10_000_000_000, 0),
                    Duration::new(4_503_599_627_370_496, 0), Duration::new(9_223_372_036_854_775, 807_000_000), Duration::new(9_223_372_036_854_775, 807_000_001), Duration::new(u64::MAX, 999_999_999), Duration::new(u64::MAX / 2 + 1, 0)];
        for &x in ndt_grid(r).iter().step_by(7) { for d in durs {
            {
                // NaiveTime wraps modulo a day for EVERY Duration (also those beyond the TimeDelta range)
                let t = x.time();
                chk!("NaiveTime += Duration", (t, d), guard(|| { let mut y = t; y += d; y }), guard(|| t + d));
                chk!("NaiveTime -= Duration", (t, d), guard(|| { let mut y = t; y -= d; y }), guard(|| t - d));
                if t.nanosecond() < 1_000_000_000 {
                    let step = TimeDelta::new((d.as_secs() % 86_400) as i64, d.subsec_nanos()).unwrap();
                    chk!("NaiveTime + Duration", (t, d), guard(|| t + d), Ok(t.overflowing_add_signed(step).0));
                    chk!("NaiveTime - Duration", (t, d), guard(|| t - d), Ok(t.overflowing_sub_signed(step).0));
                }
            }
            let td = match TimeDelta::from_std(d) { Ok(t) => t, Err(_) => continue };
            if let Some(want) = x.checked_add_signed(td) {
                chk!("NaiveDateTime + Duration", (x, d), guard(|| x + d), Ok(want));
                chk!("NaiveDateTime += Duration", (x, d), guard(|| { let mut y = x; y += d; y }), Ok(want));
                chk!("DateTime<Utc> + Duration", (x, d), guard(|| (x.and_utc() + d).naive_utc()), Ok(want));
                chk!("DateTime<FixedOffset> += Duration", (x, d), guard(|| { let mut y = x.and_utc().fixed_offset(); y += d; y.naive_utc() }), Ok(want));
            }
            if let Some(want) = x.checked_sub_signed(td) {
                chk!("NaiveDateTime - Duration", (x, d), guard(|| x - d), Ok(want));
                chk!("NaiveDateTime -= Duration", (x, d), guard(|| { let mut y = x; y -= d; y }), Ok(want));
                chk!("DateTime<Utc> - Duration", (x, d), guard(|| (x.and_utc() - d).naive_utc()), Ok(want));
                chk!("DateTime<FixedOffset> -= Duration", (x, d), guard(|| { let mut y = x.and_utc().fixed_offset(); y -= d; y.naive_utc() }), Ok(want));
            }
        } }
    }
    let xs = ndt_grid(r); let ds = td_small_grid(r);
    for &x in &xs {
        let dt = x.and_utc();
        let (s, f) = (unix_s(x), x.time().nanosecond() as i128);
        chk!("DateTime::timestamp", x, guard(|| dt.timestamp() as i128), Ok(s));
        chk!("DateTime::timestamp_millis", x, guard(|| dt.timestamp_millis() as i128), Ok(s * 1000 + f / 1_000_000));
        chk!("DateTime::timestamp_micros", x, guard(|| dt.timestamp_micros() as i128), Ok(s * 1_000_000 + f / 1000));
        let v = s * 1_000_000_000 + f;
        chk!("DateTime::timestamp_nanos_opt", x, guard(|| dt.timestamp_nanos_opt().map(|v| v as i128)), Ok(if v >= i64::MIN as i128 && v <= i64::MAX as i128 { Some(v) } else { None }));
        chk!("DateTime::timestamp_subsec", x, (dt.timestamp_subsec_millis() as i128, dt.timestamp_subsec_micros() as i128, dt.timestamp_subsec_nanos() as i128), (f / 1_000_000, f / 1000, f));
        for &d in &ds { for sign in [1i128, -1] {
            let m = add_model(x.time(), ns(d) * sign);
            let got = guard(|| if sign == 1 { x.checked_add_signed(d) } else { x.checked_sub_signed(d) }.map(|y| (dn_of(y.date()), tpos(y.time()))));
            let want = if m.0 { Some((dn_of(x.date()), m.1)) } else { let total = dn_of(x.date()) * DAYNS + m.1; if in_dt_range(total) { Some((total.div_euclid(DAYNS), total.rem_euclid(DAYNS))) } else { None } };
            chk!(if sign == 1 { "NaiveDateTime::checked_add_signed" } else { "NaiveDateTime::checked_sub_signed" }, (x, d), got, Ok(want));
        } }
        for k in [0u64, 1, 7, 365, 146_097, i32::MAX as u64, i32::MAX as u64 + 1, u32::MAX as u64, u32::MAX as u64 + 1, u64::MAX] {
            let t = dn_of(x.date()) + k as i128;
            chk!("NaiveDateTime::checked_add_days", (x, k), guard(|| x.checked_add_days(Days::new(k)).map(|y| (dn_of(y.date()), y.time()))), Ok(if t <= dn_max() { Some((t, x.time())) } else { None }));
            let t = dn_of(x.date()) - k as i128;
            chk!("NaiveDateTime::checked_sub_days", (x, k), guard(|| x.checked_sub_days(Days::new(k)).map(|y| (dn_of(y.date()), y.time()))), Ok(if t >= dn_min() { Some((t, x.time())) } else { None }));
            // (results after DateTime::MAX_UTC -- a leap second on the very last day -- are refused by design: `.filter(|dt| dt <= MAX_UTC)`)
            if x.time().nanosecond() < 1_000_000_000 {
                chk!("DateTime::checked_add_days", (x, k), guard(|| dt.checked_add_days(Days::new(k)).map(|y| inst(y.naive_utc()))), Ok(if dn_of(x.date()) + k as i128 <= dn_max() { Some(inst(x) + k as i128 * DAYNS) } else { None }));
            }
        }
        for o in [0i32, 1, -1, 3600, -3600, 86399, -86399, 19800] {
            let off = FixedOffset::east_opt(o).unwrap();
            for sign in [1i128, -1] {
                let tot = dn_of(x.date()) * 86400 + x.time().num_seconds_from_midnight() as i128 + sign * o as i128;
                let want = if tot >= dn_min() * 86400 && tot < (dn_max() + 1) * 86400 { Some((tot, x.time().nanosecond())) } else { None };
                let got = guard(|| if sign == 1 { x.checked_add_offset(off) } else { x.checked_sub_offset(off) }.map(|y| (dn_of(y.date()) * 86400 + y.time().num_seconds_from_midnight() as i128, y.time().nanosecond())));
                chk!("NaiveDateTime::checked_add/sub_offset", (x, o, sign), got, Ok(want));
            }
            // zone-aware forms: same instants whatever the offset
            let z = off.from_utc_datetime(&x);
            for &d in ds.iter().step_by(5) {
                chk!("DateTime<FixedOffset>::checked_add_signed", (x, o, d), guard(|| z.checked_add_signed(d).map(|y| y.naive_utc())), guard(|| x.checked_add_signed(d)));
                chk!("DateTime<FixedOffset>::checked_sub_signed", (x, o, d), guard(|| z.checked_sub_signed(d).map(|y| y.naive_utc())), guard(|| x.checked_sub_signed(d)));
            }
        }
    }
    for (i, &a) in xs.iter().enumerate() { for &b in xs.iter().skip(i % 17).step_by(17) {
        let want = (dn_of(a.date()) - dn_of(b.date())) * DAYNS + jpos(a.time(), b.time()) - jpos(b.time(), a.time());
        chk!("NaiveDateTime::signed_duration_since", (a, b), guard(|| ns(a.signed_duration_since(b))), Ok(want));
        chk!("DateTime::signed_duration_since", (a, b), guard(|| ns(a.and_utc().signed_duration_since(FixedOffset::east_opt(3600).unwrap().from_utc_datetime(&b)))), Ok(want));
        if a.time().nanosecond() < 1_000_000_000 && b.time().nanosecond() < 1_000_000_000 {
            chk!("b + (a - b) == a", (a, b), guard(|| b.checked_add_signed(a.signed_duration_since(b))), Ok(Some(a)));
        }
    } }
}


// ---- zone-aware date-times with a fixed offset: everything acts on the wall-clock reading (C04) ----------------------------
fn twin_zoned(r: &mut Rng) {
    let xs = ndt_grid(r);
    let offs = [0i32, 1, -1, 59, 3600, -3600, 19800, -12600, 86399, -86399, 13236, -13236];
    let in_range = |u: NaiveDateTime| u >= NaiveDateTime::MIN && u <= NaiveDateTime::MAX;
    for (i, &x) in xs.iter().enumerate() { for &o in offs.iter().skip(i % 3).step_by(3) {
        let off = FixedOffset::east_opt(o).unwrap();
        let z = off.from_utc_datetime(&x);
        let wall = match x.checked_add_offset(off) { Some(w) => w, None => continue };     // wall-clock readings inside the nominal range
        // a leap second on the very last day lies after NaiveDateTime::MAX; chrono's operations disagree on whether that is in range (not part of any contract here)
        if x.time().nanosecond() >= 1_000_000_000 && x.year() >= 262141 { continue; }
        // re-anchor a new wall-clock reading: instant = wall - offset, must stay in range
        let back = |w: Option<NaiveDateTime>| w.and_then(|w| w.checked_sub_offset(off)).filter(|u| in_range(*u));
        chk!("DateTime getters", (x, o), (z.year(), z.month(), z.day(), z.ordinal(), z.weekday(), z.hour(), z.minute(), z.second(), z.nanosecond()),
             (wall.year(), wall.month(), wall.day(), wall.ordinal(), wall.weekday(), wall.hour(), wall.minute(), wall.second(), wall.nanosecond()));
        chk!("DateTime::naive_local", (x, o), guard(|| z.naive_local()), Ok(wall));
        // the difference of two zone-aware values is the distance of their instants, whatever the two offsets (by value, by reference, method form)
        {
            let other = xs[(i * 7 + 3) % xs.len()];
            let o2 = offs[(i + 5) % offs.len()];
            let z2 = FixedOffset::east_opt(o2).unwrap().from_utc_datetime(&other);
            let want = x.signed_duration_since(other);
            chk!("DateTime - DateTime (different offsets)", (x, o, other, o2), guard(|| z - z2), Ok(want));
            chk!("DateTime - &DateTime (different offsets)", (x, o, other, o2), guard(|| z - &z2), Ok(want));
            chk!("DateTime::signed_duration_since (different offsets)", (x, o, other, o2), guard(|| z.signed_duration_since(z2)), Ok(want));
            chk!("DateTime::signed_duration_since<Utc>", (x, o, other), guard(|| z.signed_duration_since(other.and_utc())), Ok(want));
        }
        for t in [NaiveTime::MIN, NaiveTime::from_hms_opt(23, 59, 59).unwrap(), NaiveTime::from_hms_opt(12, 0, 0).unwrap(), wall.time()] {
            chk!("DateTime::with_time", (x, o, t), guard(|| z.with_time(t).single().map(|d| (d.naive_utc(), d.offset().local_minus_utc()))), Ok(back(Some(wall.date().and_time(t))).map(|u| (u, o))));
        }
        for v in [0u32, 1, 2, 12, 13, 28, 29, 30, 31, 32, 59, 60, 365, 366, 367, u32::MAX] {
            chk!("DateTime::with_month", (x, o, v), guard(|| z.with_month(v).map(|d| d.naive_utc())), Ok(back(wall.with_month(v))));
            chk!("DateTime::with_day", (x, o, v), guard(|| z.with_day(v).map(|d| d.naive_utc())), Ok(back(wall.with_day(v))));
            chk!("DateTime::with_ordinal", (x, o, v), guard(|| z.with_ordinal(v).map(|d| d.naive_utc())), Ok(back(wall.with_ordinal(v))));
            chk!("DateTime::with_hour", (x, o, v), guard(|| z.with_hour(v).map(|d| d.naive_utc())), Ok(back(wall.with_hour(v))));
            chk!("DateTime::with_minute", (x, o, v), guard(|| z.with_minute(v).map(|d| d.naive_utc())), Ok(back(wall.with_minute(v))));
            chk!("DateTime::with_second", (x, o, v), guard(|| z.with_second(v).map(|d| d.naive_utc())), Ok(back(wall.with_second(v))));
        }
        for y in [wall.year(), wall.year() + 1, wall.year() - 1, 2024, 2023, -262143, 262142, 262143, i32::MIN, i32::MAX] {
            chk!("DateTime::with_year", (x, o, y), guard(|| z.with_year(y).map(|d| d.naive_utc())), Ok(back(wall.with_year(y))));
        }
        for n in [0u32, 1, 11, 12, 13, 24, 1200, i32::MAX as u32, i32::MAX as u32 + 1, u32::MAX] {
            let m = chrono::Months::new(n);
            let want = if n == 0 { Some(x) } else { back(wall.checked_add_months(m)) };
            chk!("DateTime::checked_add_months", (x, o, n), guard(|| z.checked_add_months(m).map(|d| d.naive_utc())), Ok(want));
            let want = if n == 0 { Some(x) } else { back(wall.checked_sub_months(m)) };
            chk!("DateTime::checked_sub_months", (x, o, n), guard(|| z.checked_sub_months(m).map(|d| d.naive_utc())), Ok(want));
        }
        for k in [0u64, 1, 2, 7, 365, 366, 146_097, u64::MAX] {
            // results must stay within MIN_UTC..=MAX_UTC; a leap second on the last day is refused by design
            let f = |w: Option<NaiveDateTime>| if k == 0 { Some(x) } else { back(w) };
            chk!("DateTime::checked_add_days", (x, o, k), guard(|| z.checked_add_days(Days::new(k)).map(|d| d.naive_utc())), Ok(f(wall.checked_add_days(Days::new(k)))));
            chk!("DateTime::checked_sub_days", (x, o, k), guard(|| z.checked_sub_days(Days::new(k)).map(|d| d.naive_utc())), Ok(f(wall.checked_sub_days(Days::new(k)))));
        }
    } }
}


// ---- rendering (C10 / C12): documented text of every numeric specifier, offsets, fractions, RFC 3339 both ways ---------------
fn year_txt(y: i32) -> String { if (0..=9999).contains(&y) { format!("{:04}", y) } else { format!("{:+05}", y) } }

/// independent strict recogniser of the RFC 3339 date-time grammar (with chrono's documented latitude: T/t/space, Z/z, any number of
/// fraction digits, U+2212 as minus); returns (unix seconds, nanosecond field incl. leap, offset seconds)
fn rfc3339_spec(s: &str) -> Option<(i128, u32, i32)> {
    let c: Vec<char> = s.chars().collect();
    let mut i = 0usize;
    let num = |c: &Vec<char>, i: &mut usize, n: usize| -> Option<u32> { let mut v = 0u32; for _ in 0..n { let ch = *c.get(*i)?; if !ch.is_ascii_digit() { return None; } v = v * 10 + ch as u32 - '0' as u32; *i += 1; } Some(v) };
    let lit = |c: &Vec<char>, i: &mut usize, set: &[char]| -> Option<char> { let ch = *c.get(*i)?; if set.contains(&ch) { *i += 1; Some(ch) } else { None } };
    let y = num(&c, &mut i, 4)?; lit(&c, &mut i, &['-'])?; let mo = num(&c, &mut i, 2)?; lit(&c, &mut i, &['-'])?; let d = num(&c, &mut i, 2)?;
    lit(&c, &mut i, &['T', 't', ' '])?;
    let h = num(&c, &mut i, 2)?; lit(&c, &mut i, &[':'])?; let mi = num(&c, &mut i, 2)?; lit(&c, &mut i, &[':'])?; let sec = num(&c, &mut i, 2)?;
    let mut ns: u64 = 0;
    if c.get(i) == Some(&'.') { i += 1; let mut k = 0; while i < c.len() && c[i].is_ascii_digit() { if k < 9 { ns = ns * 10 + (c[i] as u64 - '0' as u64); } k += 1; i += 1; } if k == 0 { return None; } while k < 9 { ns *= 10; k += 1; } }
    let off: i32 = match *c.get(i)? {
        'Z' | 'z' => { i += 1; 0 }
        sg @ ('+' | '-' | '\u{2212}') => { i += 1; let oh = num(&c, &mut i, 2)?; lit(&c, &mut i, &[':'])?; let om = num(&c, &mut i, 2)?; if oh > 23 || om > 59 { return None; } let v = (oh * 3600 + om * 60) as i32; if sg == '+' { v } else { -v } }
        _ => return None,
    };
    if i != c.len() { return None; }
    let ml = |y: u32, m: u32| -> u32 { match m { 2 => if is_leap(y as i128) { 29 } else { 28 }, 4 | 6 | 9 | 11 => 30, _ => 31 } };
    if mo < 1 || mo > 12 || d < 1 || d > ml(y, mo) || h > 23 || mi > 59 || sec > 60 { return None; }
    let cum: u32 = (1..mo).map(|m| ml(y, m)).sum();
    let n = dby(y as i128) + (cum + d) as i128;
    let (sec, ns) = if sec == 60 { (59, ns as u32 + 1_000_000_000) } else { (sec, ns as u32) };
    Some(((n - 719_163) * 86400 + (h * 3600 + mi * 60 + sec) as i128 - off as i128, ns, off))
}
fn rfc3339_mutation_sweep(bases: &[String]) {
    let repl = ['0', '5', '9', 'Z', 'z', ':', '-', '+', 'T', ' ', '.', '\u{0663}', '\u{00bd}', 'a', '\u{2212}'];
    for b in bases {
        let cs: Vec<char> = b.chars().collect();
        let mut variants: Vec<String> = vec![b.clone()];
        for i in 0..cs.len() {
            let mut v = cs.clone(); v.remove(i); variants.push(v.iter().collect());
            for r in repl { let mut v = cs.clone(); v[i] = r; variants.push(v.iter().collect()); let mut v = cs.clone(); v.insert(i, r); variants.push(v.iter().collect()); }
        }
        for r in repl { let mut v = cs.clone(); v.push(r); variants.push(v.iter().collect()); }
        for v in variants {
            let got = guard(|| DateTime::parse_from_rfc3339(&v).ok().map(|p| (p.timestamp() as i128, p.timestamp_subsec_nanos(), p.offset().local_minus_utc())));
            chk!("parse_from_rfc3339 (grammar mutation)", &v, got, Ok(rfc3339_spec(&v)));
        }
    }
}
fn twin_fmt(r: &mut Rng) {
    use chrono::SecondsFormat::*;
    let xs = ndt_grid(r);
    let offs = [0i32, 60, -60, 3600, -3600, 19800, -12600, 86340, -86340, 13236, -1, 59, -59];
    let wd3 = ["Mon", "Tue", "Wed", "Thu", "Fri", "Sat", "Sun"];
    let wdl = ["Monday", "Tuesday", "Wednesday", "Thursday", "Friday", "Saturday", "Sunday"];
    let mo3 = ["Jan", "Feb", "Mar", "Apr", "May", "Jun", "Jul", "Aug", "Sep", "Oct", "Nov", "Dec"];
    let mol = ["January", "February", "March", "April", "May", "June", "July", "August", "September", "October", "November", "December"];
    for (i, &x) in xs.iter().enumerate() { for &o in offs.iter().skip(i % 4).step_by(4) {
        let off = FixedOffset::east_opt(o).unwrap();
        let z = off.from_utc_datetime(&x);
        let w = match x.checked_add_offset(off) { Some(w) => w, None => continue };
        let (y, m, d) = (w.year(), w.month(), w.day());
        let sod = w.time().num_seconds_from_midnight();
        let (h, mi) = (sod / 3600, sod / 60 % 60);
        let leap = w.time().nanosecond() >= 1_000_000_000;
        let sec = sod % 60 + leap as u32;
        let ns = w.time().nanosecond() % 1_000_000_000;
        let n = dn_of(w.date());
        let wdi = ((n - 1).rem_euclid(7)) as usize;                       // Mon = 0
        let ord = w.ordinal();
        let from_sun = (ord as i128 + 6 - ((wdi as i128 + 1) % 7)) / 7;
        let from_mon = (ord as i128 + 6 - wdi as i128) / 7;
        let (iy, iwk) = { let t = ord as i128 + 3 - wdi as i128; let yl = |yy: i128| if is_leap(yy) { 366 } else { 365 }; if t < 1 { (y as i128 - 1, (t + yl(y as i128 - 1) + 6) / 7) } else if t > yl(y as i128) { (y as i128 + 1, (t - yl(y as i128) + 6) / 7) } else { (y as i128, (t + 6) / 7) } };
        let a = o.unsigned_abs(); let sg = if o < 0 { '-' } else { '+' };
        let am = (a + 30) / 60;
        let h12 = if h % 12 == 0 { 12 } else { h % 12 };
        let cases: Vec<(&str, String)> = vec![
            ("%Y", year_txt(y)), ("%C", format!("{:02}", y.div_euclid(100))), ("%m", format!("{:02}", m)), ("%d", format!("{:02}", d)), ("%e", format!("{:2}", d)),
            ("%-d", format!("{}", d)), ("%_m", format!("{:2}", m)), ("%0e", format!("{:02}", d)), ("%j", format!("{:03}", ord)), ("%-j", format!("{}", ord)),
            ("%H", format!("{:02}", h)), ("%k", format!("{:2}", h)), ("%I", format!("{:02}", h12)), ("%l", format!("{:2}", h12)), ("%M", format!("{:02}", mi)), ("%S", format!("{:02}", sec)),
            ("%P", (if h < 12 { "am" } else { "pm" }).to_string()), ("%p", (if h < 12 { "AM" } else { "PM" }).to_string()),
            ("%f", format!("{:09}", ns)), ("%3f", format!("{:03}", ns / 1_000_000)), ("%6f", format!("{:06}", ns / 1000)), ("%9f", format!("{:09}", ns)),
            ("%.3f", format!(".{:03}", ns / 1_000_000)), ("%.6f", format!(".{:06}", ns / 1000)), ("%.9f", format!(".{:09}", ns)),
            ("%.f", if ns == 0 { String::new() } else if ns % 1_000_000 == 0 { format!(".{:03}", ns / 1_000_000) } else if ns % 1000 == 0 { format!(".{:06}", ns / 1000) } else { format!(".{:09}", ns) }),
            ("%U", format!("{:02}", from_sun)), ("%W", format!("{:02}", from_mon)), ("%V", format!("{:02}", iwk)), ("%G", year_txt(iy as i32)),
            ("%u", format!("{}", wdi + 1)), ("%w", format!("{}", (wdi + 1) % 7)), ("%q", format!("{}", (m + 2) / 3)),
            ("%a", wd3[wdi].to_string()), ("%A", wdl[wdi].to_string()), ("%b", mo3[m as usize - 1].to_string()), ("%B", mol[m as usize - 1].to_string()), ("%h", mo3[m as usize - 1].to_string()),
            ("%z", format!("{}{:02}{:02}", sg, am / 60, am % 60)), ("%:z", format!("{}{:02}:{:02}", sg, am / 60, am % 60)),
            ("%::z", format!("{}{:02}:{:02}:{:02}", sg, a / 3600, a / 60 % 60, a % 60)), ("%:::z", format!("{}{:02}", sg, a / 3600)),
            ("%s", format!("{}", unix_s(x) + if false { 1 } else { 0 })),
            ("%F", format!("{}-{:02}-{:02}", year_txt(y), m, d)), ("%T", format!("{:02}:{:02}:{:02}", h, mi, sec)), ("%R", format!("{:02}:{:02}", h, mi)),
            ("%D", format!("{:02}/{:02}/{:02}", m, d, y.rem_euclid(100))), ("%v", format!("{:2}-{}-{}", d, mo3[m as usize - 1], year_txt(y))),
            ("%r", format!("{:02}:{:02}:{:02} {}", h12, mi, sec, if h < 12 { "AM" } else { "PM" })),
            ("%c", format!("{} {} {:2} {:02}:{:02}:{:02} {}", wd3[wdi], mo3[m as usize - 1], d, h, mi, sec, year_txt(y))),
            ("lit %% %Y%n%t.", format!("lit % {}\n\t.", year_txt(y))),
        ];
        for (f, want) in cases { chk!("format", (x, o, f), guard(|| z.format(f).to_string()), Ok(want)); }
        if y >= 0 { chk!("format", (x, o, "%y"), guard(|| z.format("%y").to_string()), Ok(format!("{:02}", y % 100))); }
        if iy >= 0 { chk!("format", (x, o, "%g"), guard(|| z.format("%g").to_string()), Ok(format!("{:02}", iy % 100))); }
        // RFC 3339: wall-clock year 0..=9999 and a whole-minute offset (the property's domain)
        if (0..=9999).contains(&y) && o % 60 == 0 {
            for (sf, name) in [(Secs, "Secs"), (Millis, "Millis"), (Micros, "Micros"), (Nanos, "Nanos"), (AutoSi, "AutoSi")] { for use_z in [false, true] {
                let frac = match name { "Secs" => String::new(), "Millis" => format!(".{:03}", ns / 1_000_000), "Micros" => format!(".{:06}", ns / 1000), "Nanos" => format!(".{:09}", ns),
                    _ => if ns == 0 { String::new() } else if ns % 1_000_000 == 0 { format!(".{:03}", ns / 1_000_000) } else if ns % 1000 == 0 { format!(".{:06}", ns / 1000) } else { format!(".{:09}", ns) } };
                let offs = if use_z && o == 0 { "Z".to_string() } else { format!("{}{:02}:{:02}", sg, a / 3600, a / 60 % 60) };
                let want = format!("{:04}-{:02}-{:02}T{:02}:{:02}:{:02}{}{}", y, m, d, h, mi, sec, frac, offs);
                chk!("to_rfc3339_opts", (x, o, name, use_z), guard(|| z.to_rfc3339_opts(sf, use_z)), Ok(want.clone()));
                if name == "Nanos" && !(leap && sod % 60 != 59) {     // a leap-second representation on a second other than 59 has no text form that reads back
                    for v in [want.clone(), want.replace('T', "t").replace('Z', "z"), want.replace('T', " ")] {
                        chk!("parse_from_rfc3339", (x, o, &v), guard(|| DateTime::parse_from_rfc3339(&v).ok().map(|p| (p.naive_utc(), p.offset().local_minus_utc()))), Ok(Some((x, o))));
                    }
                }
            } }
            chk!("to_rfc3339", (x, o), guard(|| z.to_rfc3339()), guard(|| z.to_rfc3339_opts(AutoSi, false)));
        }
    } }
    let bases: Vec<String> = ["2015-01-20T17:35:20-08:00", "2024-02-29T23:59:60.5Z", "1999-12-09 00:00:00.123456789012+05:30", "0000-01-01t00:00:00z", "9999-12-31T23:59:59.9+23:59"].iter().map(|s| s.to_string()).collect();
    rfc3339_mutation_sweep(&bases);
    // strict RFC 3339 parser rejects near misses
    for bad in ["2024-01-01T00:00:00", "2024-01-01 00:00:00+0000", "2024-1-01T00:00:00Z", "2024-01-01T24:00:00Z", "2024-02-30T00:00:00Z", "2024-01-01T00:00:00+24:00", "2024-01-01T00:00:00Z ", " 2024-01-01T00:00:00Z",
                "2024-01-01T00:00:00.Z", "2024-01-01T00:60:00Z", "2024-01-01T00:00:61Z", "20240101T000000Z", "2024-01-01T00:00:00+00", "2024-01-01T00:00:00+00:60", "2023-02-29T00:00:00Z"] {
        chk!("parse_from_rfc3339 rejects", bad, DateTime::parse_from_rfc3339(bad).is_err(), true);
    }
    for (good, secs, off) in [("2024-01-01T00:00:00Z", 1_704_067_200i64, 0i32), ("2024-01-01T00:00:00.5+01:00", 1_704_063_600, 3600), ("2024-01-01t00:00:00z", 1_704_067_200, 0),
                              ("2024-01-01T00:00:00\u{2212}02:30", 1_704_076_200, -9000), ("2016-12-31T23:59:60Z", 1_483_228_799, 0), ("2024-01-01T00:00:00.123456789123Z", 1_704_067_200, 0)] {
        chk!("parse_from_rfc3339 accepts", good, DateTime::parse_from_rfc3339(good).ok().map(|p| (p.timestamp(), p.offset().local_minus_utc())), Some((secs, off)));
    }
}


// ---- local time from zone data (C05 / C16): POSIX TZ rules and synthetic TZif files through the public route (TZ variable, fresh thread) ----
#[derive(Clone, Copy, Debug)]
enum RD { M(u32, u32, u32), J(u32), Z(u32) }      // Mm.w.d (d: 0 = Sunday) / Jn (1..=365, no leap day) / n (0..=365)
fn days_civil(y: i128, m: i128, d: i128) -> i128 { let cum = [0, 31, 59, 90, 120, 151, 181, 212, 243, 273, 304, 334][(m - 1) as usize] + if m > 2 && is_leap(y) { 1 } else { 0 }; dby(y) + cum + d - 719_163 }   // days since 1970-01-01
fn rd_day(rd: RD, y: i128) -> i128 {
    match rd {
        RD::J(n) => { let n = n as i128; days_civil(y, 1, 1) + n - 1 + if is_leap(y) && n >= 60 { 1 } else { 0 } }
        RD::Z(n) => days_civil(y, 1, 1) + n as i128,
        RD::M(m, w, d) => {
            let first = days_civil(y, m as i128, 1);
            let wd_first = (first + 4).rem_euclid(7);                         // 1970-01-01 was a Thursday (Sunday = 0)
            let mut day = first + (d as i128 - wd_first).rem_euclid(7) + 7 * (w as i128 - 1);
            let ml = [31, if is_leap(y) { 29 } else { 28 }, 31, 30, 31, 30, 31, 31, 30, 31, 30, 31][(m - 1) as usize] as i128;
            if day >= first + ml { day -= 7; }                                // week 5 = last
            day
        }
    }
}
fn rd_txt(rd: RD) -> String { match rd { RD::M(m, w, d) => format!("M{}.{}.{}", m, w, d), RD::J(n) => format!("J{}", n), RD::Z(n) => format!("{}", n) } }
fn posix_off(east: i32) -> String { let w = -east; let a = w.unsigned_abs(); let mut s = format!("{}{}", if w < 0 { "-" } else { "" }, a / 3600); if a % 3600 != 0 { s += &format!(":{:02}", a / 60 % 60); if a % 60 != 0 { s += &format!(":{:02}", a % 60); } } s }
fn hms_txt(t: i32) -> String { let a = t.unsigned_abs(); let mut s = format!("{}{}", if t < 0 { "-" } else { "" }, a / 3600); if a % 3600 != 0 { s += &format!(":{:02}", a / 60 % 60); if a % 60 != 0 { s += &format!(":{:02}", a % 60); } } s }
#[derive(Clone, Debug)]
struct Rule { std: i32, dst: i32, start: RD, st: i32, end: RD, et: i32 }
impl Rule {
    fn tz(&self) -> String { format!("AAA{}BBB{},{}/{},{}/{}", posix_off(self.std), posix_off(self.dst), rd_txt(self.start), hms_txt(self.st), rd_txt(self.end), hms_txt(self.et)) }
    /// (instant, becomes_dst) for years y-1 ..= y+1, sorted
    fn events(&self, y: i128) -> Vec<(i128, bool)> {
        let mut v = vec![];
        for yy in y - 1..=y + 1 { v.push((rd_day(self.start, yy) * 86400 + self.st as i128 - self.std as i128, true)); v.push((rd_day(self.end, yy) * 86400 + self.et as i128 - self.dst as i128, false)); }
        v.sort(); v
    }
    fn offset_at(&self, t: i128) -> i32 {
        let y = yo_of(t.div_euclid(86400) + 719_163).0;
        let ev = self.events(y);
        let mut dst = !ev[0].1;
        for (u, d) in ev { if u <= t { dst = d; } }
        if dst { self.dst } else { self.std }
    }
}
fn run_zone<F: FnOnce() + Send + 'static>(tz: String, f: F) { std::thread::spawn(move || { std::env::set_var("TZ", &tz); f(); }).join().ok(); }
fn ndt_of(t: i128) -> Option<NaiveDateTime> { DateTime::from_timestamp(t as i64, 0).map(|d| d.naive_utc()) }

fn check_zone(name: String, offset_at: &dyn Fn(i128) -> i32, offsets: &[i32], probes: &[i128], boundaries: &[i128]) {
    use chrono::{Local, LocalResult};
    for &t in probes {
        let u = match ndt_of(t) { Some(u) => u, None => continue };
        chk!("Local::offset_from_utc_datetime", (&name, t), guard(|| Local.offset_from_utc_datetime(&u).local_minus_utc()), Ok(offset_at(t)));
        // wall -> instants: the instant's own wall-clock reading, and readings around it
        for dw in [0i128, 1, -1, 1800, -1800, 3599, -3600, 7200] {
            let w = t + offset_at(t) as i128 + dw;
            if boundaries.iter().any(|&b| w == b + offset_at(b - 1) as i128) { continue; }     // the documented boundary second: transition time read with the offset in effect before it
            let wl = match ndt_of(w) { Some(x) => x, None => continue };
            let mut cands: Vec<i128> = offsets.iter().map(|&o| w - o as i128).filter(|&c| offset_at(c) as i128 == w - c).collect();
            cands.sort(); cands.dedup();
            let got = guard(|| match Local.from_local_datetime(&wl) { LocalResult::None => vec![], LocalResult::Single(a) => vec![a.timestamp() as i128], LocalResult::Ambiguous(a, b) => vec![a.timestamp() as i128, b.timestamp() as i128] });
            chk!("Local::from_local_datetime", (&name, w), got, Ok(cands));
        }
    }
}

fn twin_tz(r: &mut Rng) {
    // --- POSIX rules: both hemispheres, negative DST, Mm.w.d / Jn / n, explicit times; transitions well inside the year
    let mut rules = vec![
        Rule { std: -18000, dst: -14400, start: RD::M(3, 2, 0), st: 7200, end: RD::M(11, 1, 0), et: 7200 },       // EST5EDT
        Rule { std: 3600, dst: 7200, start: RD::M(3, 5, 0), st: 7200, end: RD::M(10, 5, 0), et: 10800 },          // CET
        Rule { std: 36000, dst: 39600, start: RD::M(10, 1, 0), st: 7200, end: RD::M(4, 1, 0), et: 10800 },        // Sydney (southern)
        Rule { std: 3600, dst: 0, start: RD::M(10, 5, 0), st: 7200, end: RD::M(3, 5, 0), et: 3600 },              // Dublin style negative DST
        Rule { std: -10800, dst: -14400, start: RD::M(4, 1, 6), st: 0, end: RD::M(9, 1, 6), et: 0 },              // negative DST, start < end
        Rule { std: -18000, dst: -14400, start: RD::J(70), st: 7200, end: RD::J(300), et: 7200 },
        Rule { std: 7200, dst: 10800, start: RD::Z(80), st: 3600, end: RD::Z(290), et: 0 },
        Rule { std: 10800, dst: 14400, start: RD::Z(90), st: 7200, end: RD::Z(340), et: 7200 },                     // late-year zero-based day (leap years shift it)
        Rule { std: -7200, dst: -3600, start: RD::J(59), st: 0, end: RD::J(335), et: 3600 },                        // Jn around the (uncounted) leap day and in December
        Rule { std: 12600, dst: 16200, start: RD::J(80), st: 86400, end: RD::J(264), et: 86400 },                 // hour 24
        Rule { std: 20700, dst: 24300, start: RD::M(5, 3, 3), st: 5400, end: RD::M(8, 2, 5), et: 1830 },          // odd offsets and times
    ];
    // day-of-year rules reaching into every month (one cell of a cumulative month table is only exercised by a day in that month)
    for (a, b) in [(15u32, 200u32), (45, 230), (75, 260), (100, 290), (130, 320), (160, 350)] {
        rules.push(Rule { std: 3600, dst: 7200, start: RD::Z(a), st: 7200, end: RD::Z(b), et: 10800 });
        rules.push(Rule { std: -21600, dst: -18000, start: RD::J(a + 1), st: 7200, end: RD::J(b + 1), et: 7200 });
    }
    for _ in 0..6 {
        let std = ((r.next() % 97) as i32 - 48) * 900; let d = if r.next() % 4 == 0 { -3600 } else { [1800, 3600, 7200][(r.next() % 3) as usize] };
        let (m1, m2) = (2 + (r.next() % 4) as u32, 8 + (r.next() % 4) as u32);
        let (a, b) = (RD::M(m1, 1 + (r.next() % 5) as u32, (r.next() % 7) as u32), RD::M(m2, 1 + (r.next() % 5) as u32, (r.next() % 7) as u32));
        let (st, et) = ((r.next() % 25) as i32 * 3600, (r.next() % 25) as i32 * 3600);
        rules.push(if r.next() % 2 == 0 { Rule { std, dst: std + d, start: a, st, end: b, et } } else { Rule { std, dst: std + d, start: b, st, end: a, et } });
    }
    let seeds: Vec<u64> = (0..rules.len()).map(|_| r.next()).collect();
    for (rule, seed) in rules.into_iter().zip(seeds) {
        let tz = rule.tz();
        run_zone(tz.clone(), move || {
            let mut rr = Rng(seed | 1);
            let mut probes: Vec<i128> = vec![];
            let mut bounds: Vec<i128> = vec![];
            for y in [1901i128, 1948, 1968, 1969, 1970, 1971, 1999, 2000, 2021, 2023, 2024, 2037, 2038, 2100, 2399, 2400, 9999] {
                for (u, _) in rule.events(y) { bounds.push(u); for d in [-86400i128, -3601, -3600, -1, 0, 1, 1799, 3599, 3600, 3601, 86400] { probes.push(u + d); } }
                for mth in 1..=12 { probes.push(days_civil(y, mth, 10) * 86400 + 43_200); }
            }
            for _ in 0..200 { probes.push((rr.next() % 8_000_000_000) as i128 - 2_500_000_000); }
            let rl = rule.clone();
            check_zone(tz, &move |t| rl.offset_at(t), &[rule.std, rule.dst], &probes, &bounds);
        });
    }
    // --- synthetic TZif v2 files (transition table, optional fixed footer), written by an independent writer
    let dir = std::env::temp_dir().join(format!("verif-twin-{}", std::process::id()));
    std::fs::create_dir_all(&dir).ok();
    for zi in 0..10u32 {
        let k = (r.next() % 5) as usize;
        let ntypes = 1 + (r.next() % 4) as usize;
        let types: Vec<i32> = (0..ntypes).map(|i| if zi == 0 && i > 0 { 3600 } else { ((r.next() % 105) as i32 - 48) * 900 }).collect();
        let types: Vec<i32> = if zi == 0 { vec![3600; ntypes.max(2)] } else { types };                 // zone 0: transitions that keep the offset (only the abbreviation changes)
        let mut times: Vec<i64> = vec![]; let mut t = -2_000_000_000i64 + (r.next() % 1_000_000_000) as i64;
        for _ in 0..k { times.push(t); t += 400_000 + (r.next() % 900_000_000) as i64; }
        let idx: Vec<u8> = (0..k).map(|_| (r.next() % types.len() as u64) as u8).collect();
        let footer = r.next() % 2 == 0 && k > 0;
        let mut f: Vec<u8> = vec![];
        let block = |f: &mut Vec<u8>, wide: bool, times: &[i64], idx: &[u8], types: &[i32]| {
            f.extend_from_slice(b"TZif2"); f.extend_from_slice(&[0u8; 15]);
            for c in [0u32, 0, 0, times.len() as u32, types.len() as u32, (types.len() * 4) as u32] { f.extend_from_slice(&c.to_be_bytes()); }
            for &t in times { if wide { f.extend_from_slice(&t.to_be_bytes()); } else { f.extend_from_slice(&(t as i32).to_be_bytes()); } }
            f.extend_from_slice(idx);
            for (i, &o) in types.iter().enumerate() { f.extend_from_slice(&o.to_be_bytes()); f.push(0); f.push((i * 4) as u8); }
            for i in 0..types.len() { f.extend_from_slice(&[b'A' + i as u8, b'A' + i as u8, b'A' + i as u8, 0]); }
        };
        block(&mut f, false, &[], &[], &types[..1]);
        block(&mut f, true, &times, &idx, &types);
        f.push(b'\n');
        if footer { let last = types[*idx.last().unwrap() as usize]; let i = *idx.last().unwrap(); f.extend_from_slice(format!("{}{}", String::from_utf8(vec![b'A' + i, b'A' + i, b'A' + i]).unwrap(), posix_off(last)).as_bytes()); }
        f.push(b'\n');
        let path = dir.join(format!("z{}.tzif", zi));
        std::fs::write(&path, &f).ok();
        let (tm, ix, ty) = (times.clone(), idx.clone(), types.clone());
        let model = move |t: i128| -> i32 { let mut o = ty[0]; for (j, &tt) in tm.iter().enumerate() { if tt as i128 <= t { o = ty[ix[j] as usize]; } } o };
        let mut probes: Vec<i128> = vec![0, 1_700_000_000, -2_100_000_000, 4_000_000_000];
        for &tt in &times { for d in [-90_000i128, -3601, -1, 0, 1, 3599, 3600, 90_000] { probes.push(tt as i128 + d); } }
        let bounds: Vec<i128> = times.iter().enumerate().filter(|(j, _)| { let before = if *j == 0 { types[0] } else { types[idx[j - 1] as usize] }; before != types[idx[*j] as usize] }).map(|(_, &t)| t as i128).collect();
        let name = format!(":{}", path.display());
        let (tys, pr, bd) = (types.clone(), probes, bounds);
        let nm = format!("{} times={:?} idx={:?} types={:?} footer={}", name, times, idx, types, footer);
        run_zone(name, move || { check_zone(nm, &model, &tys, &pr, &bd); });
    }
    // --- C16: readers survive everything else: structured mutations of a valid file and of valid TZ strings must never panic
    //     (a rejected source silently falls back to another zone on the public route, so only panics are observable here)
    let base: Vec<u8> = {
        let mut f: Vec<u8> = vec![];
        let blk = |f: &mut Vec<u8>, wide: bool, times: &[i64]| {
            f.extend_from_slice(b"TZif2"); f.extend_from_slice(&[0u8; 15]);
            for c in [2u32, 2, 0, times.len() as u32, 2, 8] { f.extend_from_slice(&c.to_be_bytes()); }
            for &t in times { if wide { f.extend_from_slice(&t.to_be_bytes()); } else { f.extend_from_slice(&(t as i32).to_be_bytes()); } }
            for i in 0..times.len() { f.push((i % 2) as u8); }
            for (o, d, ix) in [(3600i32, 0u8, 0u8), (7200, 1, 4)] { f.extend_from_slice(&o.to_be_bytes()); f.push(d); f.push(ix); }
            f.extend_from_slice(b"CET\0CES\0"); f.extend_from_slice(&[0, 0, 0, 0]);
        };
        blk(&mut f, false, &[100_000, 900_000]); blk(&mut f, true, &[100_000, 900_000, 1_700_000_000]);
        f.extend_from_slice(b"\nCET-1CEST,M3.5.0,M10.5.0/3\n"); f
    };
    let mut muts: Vec<Vec<u8>> = vec![base.clone()];
    for cut in (0..base.len()).step_by(3) { muts.push(base[..cut].to_vec()); }
    for pos in 20..44 { for v in [0u8, 1, 0x7f, 0x80, 0xff] { let mut m = base.clone(); m[pos] = v; muts.push(m); } }                          // v1 header counts
    let h2 = base.windows(5).rposition(|w| w == b"TZif2").unwrap();
    for pos in h2 + 20..h2 + 44 { for v in [0u8, 1, 0x7f, 0x80, 0xff] { let mut m = base.clone(); m[pos] = v; muts.push(m); } }               // v2 header counts
    for pos in h2 + 44..h2 + 44 + 24 { for v in [0x7fu8, 0x80, 0xff] { let mut m = base.clone(); m[pos] = v; muts.push(m); } }               // 64-bit transition times (extremes)
    for _ in 0..150 { let mut m = base.clone(); for _ in 0..1 + r.next() % 4 { let p = (r.next() % m.len() as u64) as usize; m[p] = r.next() as u8; } muts.push(m); }
    for (mi, m) in muts.into_iter().enumerate() {
        let path = dir.join(format!("m{}.tzif", mi));
        std::fs::write(&path, &m).ok();
        let name = format!(":{}", path.display());
        let nm = name.clone();
        run_zone(name, move || {
            use chrono::Local;
            for t in [-2_000_000_000i64, 0, 100_000, 900_000, 1_700_000_000, 4_000_000_000, 8_000_000_000_000] { if let Some(u) = ndt_of(t as i128) {
                case();
                if guard(|| { let _ = Local.offset_from_utc_datetime(&u); let _ = Local.from_local_datetime(&u); }).is_err() { found("TZif reader / lookup", format!("mutated file #{} ({}) at t={}", mi, nm, t), format!("panic: {}", last_panic()), "a zone or a silent fallback".into()); }
            } }
        });
    }
    // --- C16: truncated / inconsistent files are rejected (observable as the fallback zone), well-formed variants are accepted
    {
        use chrono::Local;
        let probe = ndt_of(500_000).unwrap();                                   // between the first two transitions of the base file: type 0 = +01:00
        let fallback = std::sync::Arc::new(std::sync::Mutex::new(0i32));
        { let fb = fallback.clone(); run_zone(":/nonexistent/verif-twin".to_string(), move || { *fb.lock().unwrap() = Local.offset_from_utc_datetime(&probe).local_minus_utc(); }); }
        let fb = *fallback.lock().unwrap();
        let h2 = base.windows(5).rposition(|w| w == b"TZif2").unwrap();
        let foot = base.len() - b"\nCET-1CEST,M3.5.0,M10.5.0/3\n".len();
        let mut variants: Vec<(String, Vec<u8>, bool)> = vec![("base file".into(), base.clone(), true)];
        for cut in 1..base.len() { variants.push((format!("truncated to {} bytes", cut), base[..cut].to_vec(), false)); }
        let mut set = |name: &str, pos: usize, val: u8, ok: bool| { let mut m = base.clone(); m[pos] = val; variants.push((name.to_string(), m, ok)); };
        set("bad magic", 0, b'X', false); set("bad magic in the second header", h2 + 1, b'z', false); set("unsupported version 1", 4, b'1', false); set("version 3", 4, b'3', true);
        set("type count 0 (v2 header)", h2 + 20 + 19, 0, false); set("char count 0 (v2 header)", h2 + 20 + 23, 0, false); set("isut count mismatch", h2 + 20 + 3, 1, false);
        let d2 = h2 + 44;                                                      // v2 data: 3 x 8 time bytes, 3 index bytes, 2 x 6 type bytes, 8 chars, 2 isstd, 2 isut
        set("transition type index out of bounds", d2 + 24, 2, false); set("isdst = 2", d2 + 27 + 4, 2, false); set("abbreviation index out of bounds", d2 + 27 + 5, 8, false);
        set("abbreviation with an invalid character", d2 + 39, b'!', false); set("(isstd, isut) = (0, 1)", d2 + 47 + 2, 1, false);
        // indicator counts that disagree with the type count, with the data block sized to match the (wrong) counts
        { let mut m = base.clone(); m[h2 + 20 + 7] = 1; m.remove(d2 + 47); variants.push(("isstd count 1 of 2 types (v2 block, data trimmed to match)".into(), m, false)); }
        { let mut m = base.clone(); m[h2 + 20 + 3] = 1; m.remove(d2 + 49); variants.push(("isut count 1 of 2 types (v2 block, data trimmed to match)".into(), m, false)); }
        { let mut m = base.clone(); m[h2 + 20 + 7] = 3; m.insert(d2 + 47, 0); variants.push(("isstd count 3 of 2 types (v2 block, data padded to match)".into(), m, false)); }
        { let mut m = base.clone(); m[20 + 7] = 1; m.remove(44 + 30); variants.push(("isstd count 1 of 2 types (v1 block, data trimmed to match)".into(), m, false)); }
        { let mut m = base.clone(); m[20 + 3] = 1; m.remove(44 + 32); variants.push(("isut count 1 of 2 types (v1 block, data trimmed to match)".into(), m, false)); }
        { let mut m = base.clone(); m[d2 + 7] = 0xA0; m[d2 + 6] = 0xBB; m[d2 + 5] = 0x0D; variants.push(("transitions not increasing".into(), m, false)); }
        { let mut m = base.clone(); m.remove(foot); variants.push(("footer without the leading newline".into(), m, false)); }
        { let mut m = base.clone(); m.pop(); variants.push(("footer without the trailing newline".into(), m, false)); }
        { let mut m = base.clone(); m.truncate(foot); m.extend_from_slice(b"\n\n"); variants.push(("empty footer".into(), m, false)); }   // no rule: inconsistent? last transition then governs -> accepted; expectation set below
        variants.last_mut().unwrap().2 = true;
        { let mut m = base.clone(); m.truncate(foot); m.extend_from_slice(b"\n:CET\n"); variants.push(("footer starting with ':'".into(), m, false)); }
        for (vi, (name, bytes, ok)) in variants.into_iter().enumerate() {
            let path = dir.join(format!("v{}.tzif", vi));
            std::fs::write(&path, &bytes).ok();
            let got = std::sync::Arc::new(std::sync::Mutex::new(None));
            { let g = got.clone(); run_zone(format!(":{}", path.display()), move || { *g.lock().unwrap() = guard(|| Local.offset_from_utc_datetime(&probe).local_minus_utc()).ok(); }); }
            let g = *got.lock().unwrap();
            case();
            let want = if ok { 3600 } else { fb };
            if g != Some(want) { found("TZif reader accept/reject", name.clone(), format!("offset {:?} at t=500000", g), format!("{} (offset {})", if ok { "accepted" } else { "rejected -> fallback zone" }, want)); }
        }
    }
    // --- TZif v3 footers with extended rule times (negative and beyond 24 h), read through a file
    for (zi, (st, et)) in [(-5400i32, 95_400i32), (-3600, 7200), (93_600, -2_700), (-601_200, 601_200)].iter().enumerate() {
        let rule = Rule { std: 3600, dst: 7200, start: RD::M(3, 5, 0), st: *st, end: RD::M(10, 5, 0), et: *et };
        let mut f: Vec<u8> = vec![];
        for wide in [false, true] { f.extend_from_slice(b"TZif3"); f.extend_from_slice(&[0u8; 15]); for c in [0u32, 0, 0, 0, 1, 4] { f.extend_from_slice(&c.to_be_bytes()); } let _ = wide; f.extend_from_slice(&3600i32.to_be_bytes()); f.push(0); f.push(0); f.extend_from_slice(b"AAA\0"); }
        f.push(b'\n'); f.extend_from_slice(rule.tz().as_bytes()); f.push(b'\n');
        let path = dir.join(format!("x{}.tzif", zi));
        std::fs::write(&path, &f).ok();
        let name = format!(":{}", path.display());
        let rl = rule.clone(); let nm = format!("{} footer={}", name, rule.tz());
        run_zone(name, move || {
            let mut probes: Vec<i128> = vec![]; let mut bounds: Vec<i128> = vec![];
            for y in [1999i128, 2024, 2037] { for (u, _) in rl.events(y) { bounds.push(u); for d in [-3601i128, -1, 0, 1, 1799, 3600] { probes.push(u + d); } } }
            let r2 = rl.clone();
            check_zone(nm, &move |t| r2.offset_at(t), &[rl.std, rl.dst], &probes, &bounds);
        });
    }
    let tzs = ["EST5EDT,M3.2.0,M11.1.0", "CET-1CEST,M3.5.0,M10.5.0/3", "AAA-3", "<+03>-3", "AAA5BBB,J60/25,J300", "AAA5BBB,0/0,365/24:59:59"];
    let alphabet: Vec<char> = "0123456789,./:+-<>MJAZaz \u{00e9}".chars().collect();
    for b in tzs { let cs: Vec<char> = b.chars().collect(); for i in 0..=cs.len() { for &c in &alphabet {
        let mut v = cs.clone(); if i < cs.len() && r.next() % 2 == 0 { v[i] = c; } else { v.insert(i, c); }
        let tz: String = v.iter().collect(); let t2 = tz.clone();
        run_zone(tz, move || { use chrono::Local; for t in [0i64, 1_700_000_000, -5_000_000_000] { let u = ndt_of(t as i128).unwrap(); case();
            if guard(|| { let _ = Local.offset_from_utc_datetime(&u); let _ = Local.from_local_datetime(&u); }).is_err() { found("TZ string reader / lookup", format!("TZ={:?} at t={}", t2, t), format!("panic: {}", last_panic()), "a zone or a silent fallback".into()); } } });
    } } }
    std::fs::remove_dir_all(&dir).ok();
}


// a zone with one fold and one gap (offset +02:00 before T, +01:00 from T to G, +02:00 from G on) to exercise to_datetime_with_timezone
#[derive(Clone, Copy, Debug)]
struct FoldTz;
const FOLD_T: i64 = 1_635_642_000;     // 2021-10-31T01:00:00Z
const GAP_T: i64 = 1_648_342_800;      // 2022-03-27T01:00:00Z
impl FoldTz { fn off_at(t: i64) -> i32 { if t < FOLD_T || t >= GAP_T { 7200 } else { 3600 } } }
impl chrono::TimeZone for FoldTz {
    type Offset = FixedOffset;
    fn from_offset(_: &FixedOffset) -> Self { FoldTz }
    fn offset_from_local_date(&self, _: &NaiveDate) -> chrono::LocalResult<FixedOffset> { chrono::LocalResult::None }
    fn offset_from_local_datetime(&self, l: &NaiveDateTime) -> chrono::LocalResult<FixedOffset> {
        let w = l.and_utc().timestamp();
        let mut c: Vec<i32> = [7200, 3600].iter().copied().filter(|&o| FoldTz::off_at(w - o as i64) == o).collect();
        c.sort_by_key(|&o| w - o as i64);
        match c.len() { 0 => chrono::LocalResult::None, 1 => chrono::LocalResult::Single(FixedOffset::east_opt(c[0]).unwrap()), _ => chrono::LocalResult::Ambiguous(FixedOffset::east_opt(c[0]).unwrap(), FixedOffset::east_opt(c[1]).unwrap()) }
    }
    fn offset_from_utc_date(&self, _: &NaiveDate) -> FixedOffset { FixedOffset::east_opt(0).unwrap() }
    fn offset_from_utc_datetime(&self, u: &NaiveDateTime) -> FixedOffset { FixedOffset::east_opt(FoldTz::off_at(u.and_utc().timestamp())).unwrap() }
}
fn twin_parsed_zone() {
    use chrono::format::Parsed;
    for t in [FOLD_T - 7200, FOLD_T - 3600, FOLD_T - 1800, FOLD_T - 1, FOLD_T, FOLD_T + 1, FOLD_T + 1800, FOLD_T + 3599, FOLD_T + 3600, FOLD_T + 7200, GAP_T - 1, GAP_T, GAP_T + 1, 0, 1_700_000_000] {
        let o = FoldTz::off_at(t);
        let w = DateTime::from_timestamp(t + o as i64, 0).unwrap().naive_utc();
        for (with_off, with_ts) in [(true, false), (true, true), (false, true), (false, false)] {
            let mut p = Parsed::new();
            p.set_year(w.year() as i64).ok(); p.set_month(w.month() as i64).ok(); p.set_day(w.day() as i64).ok();
            p.set_hour(w.hour() as i64).ok(); p.set_minute(w.minute() as i64).ok(); p.set_second(w.second() as i64).ok();
            if with_off { p.set_offset(o as i64).ok(); }
            if with_ts { p.set_timestamp(t).ok(); }
            let got = guard(|| p.to_datetime_with_timezone(&FoldTz).ok().map(|d| (d.timestamp(), d.offset().local_minus_utc())));
            // how many instants read as this wall clock?
            let cands: Vec<i64> = [7200i64, 3600].iter().map(|&oo| w.and_utc().timestamp() - oo).filter(|&c| FoldTz::off_at(c) as i64 == w.and_utc().timestamp() - c).collect();
            let want = if with_off || with_ts || cands.len() == 1 { Some((t, o)) } else { None };      // without offset and timestamp an ambiguous wall clock is not enough
            chk!("Parsed::to_datetime_with_timezone", (t, with_off, with_ts), got, Ok(want));
            // a supplied offset that contradicts the zone is impossible
            if with_off { let mut q = p.clone(); q.offset = Some(if o == 7200 { 3600 } else { 7200 });
                let other_ok = cands.len() == 2 && !with_ts;
                let got = guard(|| q.to_datetime_with_timezone(&FoldTz).ok().map(|d| d.offset().local_minus_utc()));
                chk!("Parsed::to_datetime_with_timezone (other offset)", (t, with_ts), got, Ok(if other_ok { q.offset } else { None })); }
        }
    }
}

// ---- field resolution (C14): bounded random search over field sets derived from real values, with drops and perturbations ----
fn twin_parsed(r: &mut Rng) {
    use chrono::format::Parsed;
    twin_parsed_zone();
    // extreme timestamps / offsets: an error, never a panic
    for ts in [i64::MAX, i64::MAX - 1, i64::MAX - 86_400, i64::MIN, i64::MIN + 1, i64::MIN + 86_400, 8_210_266_876_799, 8_210_266_876_800, 8_210_266_876_740, -8_334_601_228_800, -8_334_601_228_801, -8_334_601_228_799, -8_334_601_228_740, 0, 60, -60] { for off in [0i32, 1, -1, 3600, -3600, 86_399, -86_399, i32::MAX, i32::MIN] {
        // ... also with a seconds field beside the timestamp (second 60: the timestamp-derived value is stepped back one second)
        for sec in [Some(60u32), Some(59), Some(0), Some(61)] { for ns in [None, Some(0u32), Some(999_999_999)] {
            let mut q = Parsed::new(); q.timestamp = Some(ts); q.second = sec; q.nanosecond = ns;
            case();
            if guard(|| { let _ = q.to_naive_datetime_with_offset(off); }).is_err() { found("Parsed::to_naive_datetime_with_offset", format!("timestamp={} second={:?} nanosecond={:?} offset={}", ts, sec, ns, off), format!("panic: {}", last_panic()), "Ok or Err".into()); }
            q.offset = Some(off);
            case();
            if guard(|| { let _ = q.to_datetime(); let _ = q.to_datetime_with_timezone(&Utc); }).is_err() { found("Parsed::to_datetime", format!("timestamp={} second={:?} offset={}", ts, sec, off), format!("panic: {}", last_panic()), "Ok or Err".into()); }
        } }
        let mut p = Parsed::new(); p.timestamp = Some(ts);
        case();
        if guard(|| { let _ = p.to_naive_datetime_with_offset(off); }).is_err() { found("Parsed::to_naive_datetime_with_offset", format!("timestamp={} offset={}", ts, off), format!("panic: {}", last_panic()), "Ok or Err".into()); }
        p.offset = Some(off);
        case();
        if guard(|| { let _ = p.to_datetime(); let _ = p.to_datetime_with_timezone(&Utc); let _ = p.to_datetime_with_timezone(&FixedOffset::east_opt(3600).unwrap()); }).is_err() { found("Parsed::to_datetime", format!("timestamp={} offset={}", ts, off), format!("panic: {}", last_panic()), "Ok or Err".into()); }
    } }
    let xs = ndt_grid(r);
    let offs = [0i32, 3600, -3600, 19800, -12600, 86399, -86399, 1];
    for (i, &x) in xs.iter().enumerate() { for rep in 0..6u64 {
        let o = offs[((i as u64 + rep) % offs.len() as u64) as usize];
        let off = FixedOffset::east_opt(o).unwrap();
        let w = match x.checked_add_offset(off) { Some(w) => w, None => continue };       // wall clock
        let leap = w.time().nanosecond() >= 1_000_000_000;
        if leap && w.second() != 59 { continue; }                                           // not expressible as fields
        let iw = w.iso_week();
        let mut p = Parsed::new();
        let mut perturbed = false;
        // each field: keep / drop / perturb
        macro_rules! fld { ($f:ident, $v:expr, $t:ty) => {{ let k = r.next() % 10; let v: $t = $v; if k < 6 { p.$f = Some(v); } else if k == 9 { perturbed = true; let d = [1i64, -1, 7, 100][(r.next() % 4) as usize]; p.$f = Some((v as i64).wrapping_add(d) as $t); } }}; }
        fld!(year, w.year(), i32);
        if w.year() >= 0 { fld!(year_div_100, w.year() / 100, i32); fld!(year_mod_100, w.year() % 100, i32); }
        fld!(isoyear, iw.year(), i32);
        if iw.year() >= 0 { fld!(isoyear_div_100, iw.year() / 100, i32); fld!(isoyear_mod_100, iw.year() % 100, i32); }
        fld!(quarter, (w.month() + 2) / 3, u32); fld!(month, w.month(), u32); fld!(day, w.day(), u32); fld!(ordinal, w.ordinal(), u32);
        fld!(isoweek, iw.week(), u32);
        fld!(week_from_sun, (w.ordinal() + 6 - w.weekday().num_days_from_sunday()) / 7, u32); fld!(week_from_mon, (w.ordinal() + 6 - w.weekday().num_days_from_monday()) / 7, u32);
        if r.next() % 10 < 6 { p.weekday = Some(w.weekday()); } else if r.next() % 10 == 0 { perturbed = true; p.weekday = Some(w.weekday().succ()); }
        fld!(hour_div_12, w.hour() / 12, u32); fld!(hour_mod_12, w.hour() % 12, u32); fld!(minute, w.minute(), u32);
        fld!(second, w.second() + leap as u32, u32);
        if p.second.is_some() { fld!(nanosecond, w.nanosecond() % 1_000_000_000, u32); }
        let ts = x.and_utc().timestamp();
        fld!(timestamp, ts, i64);
        if r.next() % 10 < 8 { p.offset = Some(o); }
        let sup = p.clone();
        let res = guard(|| p.to_datetime());
        case();
        match res {
            Err(()) => found("Parsed::to_datetime", format!("{:?}", sup), "panic".into(), "a value (Ok or Err)".into()),
            Ok(Ok(dt)) => {
                // soundness: agrees with every supplied field
                let l = dt.naive_local(); let liw = l.iso_week(); let lleap = l.nanosecond() >= 1_000_000_000;
                let mut bad: Vec<&str> = vec![];
                if sup.year.map_or(false, |v| v != l.year()) { bad.push("year"); }
                if sup.year_div_100.map_or(false, |v| l.year() < 0 || v != l.year() / 100) { bad.push("year_div_100"); }
                if sup.year_mod_100.map_or(false, |v| l.year() < 0 || v != l.year() % 100) { bad.push("year_mod_100"); }
                if sup.isoyear.map_or(false, |v| v != liw.year()) { bad.push("isoyear"); }
                if sup.isoyear_div_100.map_or(false, |v| liw.year() < 0 || v != liw.year() / 100) { bad.push("isoyear_div_100"); }
                if sup.isoyear_mod_100.map_or(false, |v| liw.year() < 0 || v != liw.year() % 100) { bad.push("isoyear_mod_100"); }
                if sup.quarter.map_or(false, |v| v != (l.month() + 2) / 3) { bad.push("quarter"); }
                if sup.month.map_or(false, |v| v != l.month()) { bad.push("month"); }
                if sup.day.map_or(false, |v| v != l.day()) { bad.push("day"); }
                if sup.ordinal.map_or(false, |v| v != l.ordinal()) { bad.push("ordinal"); }
                if sup.isoweek.map_or(false, |v| v != liw.week()) { bad.push("isoweek"); }
                if sup.weekday.map_or(false, |v| v != l.weekday()) { bad.push("weekday"); }
                if sup.week_from_sun.map_or(false, |v| v != (l.ordinal() + 6 - l.weekday().num_days_from_sunday()) / 7) { bad.push("week_from_sun"); }
                if sup.week_from_mon.map_or(false, |v| v != (l.ordinal() + 6 - l.weekday().num_days_from_monday()) / 7) { bad.push("week_from_mon"); }
                if sup.hour_div_12.map_or(false, |v| v != l.hour() / 12) { bad.push("hour_div_12"); }
                if sup.hour_mod_12.map_or(false, |v| v != l.hour() % 12) { bad.push("hour_mod_12"); }
                if sup.minute.map_or(false, |v| v != l.minute()) { bad.push("minute"); }
                if sup.second.map_or(false, |v| v != l.second() + lleap as u32) { bad.push("second"); }
                if sup.nanosecond.map_or(false, |v| v != l.nanosecond() % 1_000_000_000) { bad.push("nanosecond"); }
                if sup.timestamp.map_or(false, |v| v != dt.timestamp() && !(lleap && v == dt.timestamp() + 1)) { bad.push("timestamp"); }
                if sup.offset.map_or(false, |v| v != dt.offset().local_minus_utc()) { bad.push("offset"); }
                if !bad.is_empty() { found("Parsed::to_datetime", format!("{:?}", sup), format!("Ok({:?}) contradicting {:?}", dt, bad), "a result that agrees with every supplied field".into()); }
            }
            Ok(Err(_)) => {
                // completeness: unperturbed fields of one value with determinate year groups and a sufficient combination must resolve
                let ydet = sup.year.is_some() || (sup.year_div_100.is_some() && sup.year_mod_100.is_some());
                let yabs = sup.year.is_none() && sup.year_div_100.is_none() && sup.year_mod_100.is_none();
                let idet = sup.isoyear.is_some() || (sup.isoyear_div_100.is_some() && sup.isoyear_mod_100.is_some());
                let iabs = sup.isoyear.is_none() && sup.isoyear_div_100.is_none() && sup.isoyear_mod_100.is_none();
                let date_ok = (ydet && ((sup.month.is_some() && sup.day.is_some()) || sup.ordinal.is_some() || (sup.week_from_sun.is_some() && sup.weekday.is_some()) || (sup.week_from_mon.is_some() && sup.weekday.is_some())))
                    || (idet && sup.isoweek.is_some() && sup.weekday.is_some());
                let time_ok = sup.hour_div_12.is_some() && sup.hour_mod_12.is_some() && sup.minute.is_some();
                let sec_ok = sup.second.is_some() || (w.second() == 0 && !leap) || sup.timestamp.is_none();   // missing seconds read as zero and must then agree with a supplied timestamp
                if !perturbed && (ydet || yabs) && (idet || iabs) && date_ok && time_ok && sec_ok && sup.offset.is_some() {
                    found("Parsed::to_datetime", format!("{:?}", sup), "Err".into(), format!("Ok({:?} {:+})", w, o));
                }
            }
        }
    } }
}


// ---- C15 (strings, BOUNDED): every parser and the format-string iterator return normally on arbitrary text -------------------
fn twin_strings(r: &mut Rng) {
    use chrono::format::StrftimeItems;
    let pieces = ["%", "%Y", "%-", "%_", "%0", "%:", "%::", "%:::", "%#", "%.", "%.3", "%.3f", "%3", "%3f", "%9f", "%+", "%z", "%:z", "%Z", "%s", "%c", "%D", "%F", "%T", "%%", "%n", "%t", "%A", "%b", "%p", "%e", "%j",
                  "%U", "%G", "%V", "%q", "%E", "%O", "%!", "%\u{00e9}", "\u{00e9}", "\u{1F600}", " ", "  ", "\t", "\u{3000}", "\u{00a0}", "\u{2002}", "\u{1680}", "\u{000b}", "\u{2028}", "\u{0085}", "-", ":", "T", "Z", "+", "00", "1", "99999999999999999999", "2024", "12", "31", "Mon", "monday", "Jan", "PM", "\u{2212}", "\0", "(", ")", "\\", ","];
    let texts = ["2024-02-29T23:59:60.5+01:00", "Tue, 1 Jul 2003 10:52:37 +0200", "2024-01-01", "23:59:59.999999999", "2024-01-01 00:00:00 UTC", "Wed, 02 Jan (a (nested) comment) 2013 10:52:37 GMT", "+262143-01-01", "-262144-12-31", "12:00:60", "Jul 8 2001"];
    let mut inputs: Vec<String> = texts.iter().map(|s| s.to_string()).collect();
    for _ in 0..1500 { let n = 1 + r.next() % 6; let mut s = String::new(); for _ in 0..n { s += pieces[(r.next() % pieces.len() as u64) as usize]; } inputs.push(s); }
    for t in texts { let cs: Vec<char> = t.chars().collect(); for i in 0..=cs.len() { let mut v = cs.clone(); v.truncate(i); inputs.push(v.iter().collect()); if i < cs.len() { let mut v = cs.clone(); v[i] = ['\u{00e9}', '9', ' ', '%', '-'][(r.next() % 5) as usize]; inputs.push(v.iter().collect()); } } }
    let fmts: Vec<String> = inputs.iter().filter(|s| s.contains('%')).take(60).cloned().collect();
    let d = NaiveDate::from_ymd_opt(2024, 2, 29).unwrap().and_hms_nano_opt(23, 59, 59, 1_500_000_000).unwrap();
    for s in &inputs {
        current(s);
        case();
        let n = guard(|| StrftimeItems::new(s).count());
        match n { Ok(n) if n <= 7 * s.len() + 8 => {}, other => found("StrftimeItems", format!("{:?}", s), format!("{:?}", other), "a number of items linear in the input length (composite specifiers expand to at most 13 items per 2 bytes)".into()) }
        case();
        if guard(|| { let _ = DateTime::parse_from_rfc3339(s); let _ = DateTime::parse_from_rfc2822(s); let _ = s.parse::<NaiveDate>(); let _ = s.parse::<NaiveTime>(); let _ = s.parse::<NaiveDateTime>();
                      let _ = s.parse::<DateTime<Utc>>(); let _ = s.parse::<DateTime<FixedOffset>>(); let _ = s.parse::<FixedOffset>(); let _ = s.parse::<Weekday>(); let _ = s.parse::<chrono::Month>(); }).is_err() {
            found("parsers", format!("{:?}", s), format!("panic: {}", last_panic()), "Ok or Err".into());
        }
        // formatting with an arbitrary format string into a String either succeeds or reports an error (write! to a String: use fmt::Write to observe the error instead of the documented Display panic)
        case();
        if guard(|| { use std::fmt::Write; let mut out = String::new(); let _ = write!(out, "{}", d.and_utc().format(s)); }).is_err() && !last_panic().contains("a Display implementation returned an error") {
            found("format", format!("{:?}", s), format!("panic: {}", last_panic()), "text or fmt::Error".into());
        }
    }
    for f in &fmts { for s in inputs.iter().step_by(23) {
        case();
        if guard(|| { let _ = NaiveDate::parse_from_str(s, f); let _ = NaiveTime::parse_from_str(s, f); let _ = NaiveDateTime::parse_from_str(s, f); let _ = DateTime::parse_from_str(s, f); let _ = NaiveDate::parse_and_remainder(s, f); }).is_err() {
            found("parse_from_str", format!("{:?}", (s, f)), format!("panic: {}", last_panic()), "Ok or Err".into());
        }
    } }
}

fn twin_round(r: &mut Rng) {
    let mut xs: Vec<NaiveDateTime> = vec![];
    for s in [-9_223_372_036i64, -9_223_372_035, 9_223_372_036, 9_223_372_035, 0, -1, 1, 86399, -86400, 1_700_000_000, -1_700_000_000, -9_223_372_037, 9_223_372_037, 253_402_300_799] { for n in [0u32, 1, 499_999_999, 500_000_000, 500_000_001, 999_999_999, 145_224_192, 854_775_807] { if let Some(d) = DateTime::from_timestamp(s, n) { xs.push(d.naive_utc()); } } }
    for _ in 0..60 { if let Some(d) = DateTime::from_timestamp(r.i64_any() % 9_300_000_000, (r.next() % 1_000_000_000) as u32) { xs.push(d.naive_utc()); } }
    xs.push(NaiveDateTime::MIN); xs.push(NaiveDateTime::MAX);
    let mut spans: Vec<TimeDelta> = vec![TimeDelta::zero(), TimeDelta::nanoseconds(-1), TimeDelta::MAX, TimeDelta::MIN, TimeDelta::nanoseconds(i64::MAX), TimeDelta::nanoseconds(i64::MAX) + TimeDelta::nanoseconds(1)];
    for p in [1i64, 2, 3, 7, 10, 1000, 999_999_999, 1_000_000_000, 1_000_000_001, 60_000_000_000, 3_600_000_000_000, 86_400_000_000_000, 604_800_000_000_000, i64::MAX - 1, i64::MAX / 2, i64::MAX / 2 + 1] { spans.push(TimeDelta::nanoseconds(p)); }
    for _ in 0..20 { spans.push(TimeDelta::nanoseconds((r.i64_any()).abs().max(1))); }
    for &x in &xs { for &sp in &spans {
        let p = ns(sp); let s = unix_s(x) * 1_000_000_000 + x.time().nanosecond() as i128;
        let fits = s >= i64::MIN as i128 && s <= i64::MAX as i128;
        let stamp = |y: NaiveDateTime| unix_s(y) * 1_000_000_000 + y.time().nanosecond() as i128;
        let lo = s - s.rem_euclid(p.max(1)); let hi = if s.rem_euclid(p.max(1)) == 0 { s } else { lo + p };
        let ok = p > 0 && p <= i64::MAX as i128 && fits;
        let e = |k: u8| if !(p > 0 && p <= i64::MAX as i128) { Err(chrono::RoundingError::DurationExceedsLimit) } else if !fits { Err(chrono::RoundingError::TimestampExceedsLimit) } else { Ok(match k { 0 => lo, 1 => hi, _ => if hi - s <= s - lo { hi } else { lo } }) };
        let _ = ok;
        chk!("duration_trunc", (x, sp), guard(|| x.duration_trunc(sp).map(stamp)), Ok(e(0)));
        chk!("duration_round_up", (x, sp), guard(|| x.duration_round_up(sp).map(stamp)), Ok(e(1)));
        chk!("duration_round", (x, sp), guard(|| x.duration_round(sp).map(stamp)), Ok(e(2)));
    }
    if x.date() > NaiveDate::MIN && x.date() < NaiveDate::MAX { for dg in [0u16, 1, 2, 3, 5, 6, 8, 9, 10, 255, 256, 257, 259, 264, 512, 515, u16::MAX] {
        let p = 10i128.pow(9 - dg.min(9) as u32); let f = x.time().nanosecond() as i128; let dd = f % p;
        chk!("trunc_subsecs", (x, dg), guard(|| inst(x.trunc_subsecs(dg))), Ok(inst(x) - dd));
        chk!("round_subsecs", (x, dg), guard(|| inst(x.round_subsecs(dg))), Ok(if dd == 0 { inst(x) } else if p - dd <= dd { inst(x) + p - dd } else { inst(x) - dd }));
    } } }
}

fn twin_week(r: &mut Rng) {
    for &d in &date_grid(r) { for w in [Weekday::Mon, Weekday::Tue, Weekday::Wed, Weekday::Thu, Weekday::Fri, Weekday::Sat, Weekday::Sun] {
        let n = dn_of(d); let k = ((n - 1).rem_euclid(7) - w.num_days_from_monday() as i128).rem_euclid(7);
        let wk = d.week(w);
        chk!("NaiveWeek::checked_first_day", (d, w), guard(|| wk.checked_first_day().map(dn_of)), Ok(if n - k >= dn_min() { Some(n - k) } else { None }));
        chk!("NaiveWeek::checked_last_day", (d, w), guard(|| wk.checked_last_day().map(dn_of)), Ok(if n - k + 6 <= dn_max() { Some(n - k + 6) } else { None }));
    } }
}

fn main() {
    let a: Vec<String> = std::env::args().collect();
    let unit = a.get(1).map(|s| s.as_str()).unwrap_or("all");
    let seed: u64 = a.get(2).and_then(|s| s.parse().ok()).unwrap_or(1);
    std::panic::set_hook(Box::new(|info| { if let Ok(mut l) = LAST_PANIC.lock() { *l = info.to_string().replace('\n', " "); } }));
    // watchdog: an operation that makes no progress for 30 s is reported as a hang (C15: never loops forever)
    let unit_name = unit.to_string();
    std::thread::spawn(move || { let mut last = 0u64; let mut idle = 0; loop { std::thread::sleep(std::time::Duration::from_secs(5)); let c = unsafe { CASES };
        if c == last { idle += 1; } else { idle = 0; last = c; }
        if idle >= 6 { println!("FOUND hang :: {:?} :: got no progress for 30 s :: want termination", CURRENT.lock().map(|c| c.clone()).unwrap_or_default()); println!("DONE {} cases={} found={}", unit_name, c, unsafe { FOUND } + 1); std::process::exit(0); } } });
    let mut r = Rng(seed.wrapping_mul(0x9E3779B97F4A7C15) | 1);
    match unit {
        "timedelta" => twin_timedelta(&mut r),
        "date" => twin_date(&mut r),
        "iters" => twin_iters(&mut r),
        "time" => twin_time(&mut r),
        "datetime" => twin_datetime(&mut r),
        "round" => twin_round(&mut r),
        "week" => twin_week(&mut r),
        "zoned" => twin_zoned(&mut r),
        "fmt" => twin_fmt(&mut r),
        "tz" => twin_tz(&mut r),
        "parsed" => twin_parsed(&mut r),
        "strings" => twin_strings(&mut r),
        _ => { twin_timedelta(&mut r); twin_date(&mut r); twin_iters(&mut r); twin_time(&mut r); twin_datetime(&mut r); twin_round(&mut r); twin_week(&mut r); twin_zoned(&mut r); twin_fmt(&mut r); twin_tz(&mut r); twin_parsed(&mut r); twin_strings(&mut r); }
    }
    unsafe { println!("DONE {} cases={} found={}", unit, CASES, FOUND); }
}
