#!/usr/bin/env python3
"""Native counterexample search against the real crate (DESIGN.md 2.4 step 4): builds /verif/twin against a scratch copy
of the current working tree and runs one unit's searchers."""
import os, re, shutil, subprocess, tempfile, time

ROOT = os.path.dirname(os.path.dirname(os.path.abspath(__file__)))
REPO = os.environ.get('VERIF_REPO', '/repo')
SCRATCH_BASE = os.environ.get('VERIF_SCRATCH', '/var/tmp')
UNITS = ('timedelta', 'date', 'iters', 'time', 'datetime', 'round', 'week', 'zoned', 'fmt', 'tz', 'parsed', 'strings')


def run(unit, seed=1, timeout=600):
    d = tempfile.mkdtemp(prefix='verif-twin-', dir=SCRATCH_BASE)
    t0 = time.time()
    try:
        cdst = os.path.join(d, 'chrono')
        subprocess.run(['rsync', '-a', '--exclude', 'target', '--exclude', '.git', '--exclude', 'fuzz', '--exclude', 'bench', REPO + '/', cdst + '/'], check=True)
        tdst = os.path.join(d, 'twin')
        shutil.copytree(os.path.join(ROOT, 'twin', 'src'), os.path.join(tdst, 'src'))
        open(os.path.join(tdst, 'Cargo.toml'), 'w').write(open(os.path.join(ROOT, 'twin', 'Cargo.toml.in')).read().replace('@@CHRONO@@', cdst))
        lock = os.path.join(REPO, 'Cargo.lock')
        env = dict(os.environ, CARGO_NET_OFFLINE='true', CARGO_TERM_COLOR='never')
        b = subprocess.run(['cargo', 'build', '--offline', '--quiet'], cwd=tdst, env=env, capture_output=True, text=True, timeout=timeout)
        if b.returncode != 0:
            return dict(ok=False, built=False, output=b.stderr[-3000:], found=[], cases=0, wall_s=round(time.time() - t0, 1))
        p = subprocess.run([os.path.join(tdst, 'target', 'debug', 'verif_twin'), unit, str(seed)], capture_output=True, text=True, timeout=timeout)
        out = p.stdout
        found = [ln[6:] for ln in out.splitlines() if ln.startswith('FOUND ')]
        m = re.search(r'DONE \S+ cases=(\d+) found=(\d+)', out)
        return dict(ok=bool(m), built=True, output=out + p.stderr[-500:], found=found, cases=int(m.group(1)) if m else 0,
                    nfound=int(m.group(2)) if m else 0, wall_s=round(time.time() - t0, 1),
                    cmd='verif_twin %s %d   (cargo build of /verif/twin against a scratch copy of the working tree)' % (unit, seed))
    except subprocess.TimeoutExpired:
        return dict(ok=False, built=True, output='timeout', found=[], cases=0, wall_s=round(time.time() - t0, 1))
    finally:
        shutil.rmtree(d, ignore_errors=True)
