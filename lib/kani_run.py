#!/usr/bin/env python3
"""Kani route: scratch copy of the current /repo working tree + harness modules appended to the real
source files (DESIGN.md 2.2), run, parse, concrete playback."""
import os, re, shutil, subprocess, tempfile, time, glob, signal

ROOT = os.path.dirname(os.path.dirname(os.path.abspath(__file__)))
REPO = os.environ.get('VERIF_REPO', '/repo')
SCRATCH_BASE = os.environ.get('VERIF_SCRATCH', '/var/tmp')
ENV = dict(os.environ, CARGO_NET_OFFLINE='true', CARGO_TERM_COLOR='never')


def harness_files():
    """kani/*.rs, each starting with `// @append: <path relative to /repo>`"""
    out = []
    for p in sorted(glob.glob(os.path.join(ROOT, 'kani', '*.rs'))):
        first = open(p).readline()
        m = re.match(r'//\s*@append:\s*(\S+)', first)
        if m:
            out.append((p, m.group(1)))
    return out


def harness_index():
    """harness name -> (harness file, target source file)"""
    idx = {}
    for p, target in harness_files():
        txt = open(p).read()
        for m in re.finditer(r'#\[kani::proof(?:_for_contract\([^)]*\))?\]\s*(?:#\[[^\]]*\]\s*)*(?:pub )?fn (\w+)', txt):
            idx[m.group(1)] = (p, target)
    return idx


def make_scratch(only_files=None):
    d = tempfile.mkdtemp(prefix='verif-kani-', dir=SCRATCH_BASE)
    dst = os.path.join(d, 'chrono')
    subprocess.run(['rsync', '-a', '--exclude', 'target', '--exclude', '.git', '--exclude', 'fuzz', '--exclude', 'bench',
                    REPO + '/', dst + '/'], check=True)
    shared = os.path.join(ROOT, 'kani', 'common.rs.inc')
    common = open(shared).read() if os.path.exists(shared) else ''
    appended = []
    for p, target in harness_files():
        if only_files is not None and p not in only_files:
            continue
        tp = os.path.join(dst, target)
        if not os.path.exists(tp):
            raise FileNotFoundError('anchor lost: ' + target)
        body = open(p).read().replace('//@@COMMON@@', common)
        with open(tp, 'a') as f:
            f.write('\n' + body)
        appended.append((os.path.relpath(p, ROOT), target))
    return d, dst, appended


def cleanup(d):
    shutil.rmtree(d, ignore_errors=True)


def _run(cmd, cwd, timeout):
    t0 = time.time()
    p = subprocess.Popen(cmd, cwd=cwd, env=ENV, stdout=subprocess.PIPE, stderr=subprocess.STDOUT, text=True,
                         start_new_session=True)
    try:
        out, _ = p.communicate(timeout=timeout)
        to = False
    except subprocess.TimeoutExpired:
        try:
            os.killpg(p.pid, signal.SIGKILL)
        except Exception:
            pass
        out, _ = p.communicate()
        to = True
    return out, p.returncode, to, time.time() - t0


TOOL_LIMIT_PAT = re.compile(r'unwinding assertion|not currently supported by Kani|unsupported|recursion unwinding', re.I)


def parse(out):
    """per-harness results from `cargo kani --output-format terse [-j N]` output.  With -j the result blocks are
    printed atomically as `Thread N: <block>` after that thread's `Thread N: Checking harness X...` line."""
    res = {}
    cur = {}
    blocks = []          # (full harness name, block text)
    lines = out.split('\n')
    i = 0
    n = len(lines)
    while i < n:
        ln = lines[i]
        m = re.match(r'(?:Thread (\d+): )?Checking harness ([\w:]+)\.\.\.', ln)
        if m:
            cur[m.group(1) or '-'] = m.group(2)
            i += 1
            continue
        m = re.match(r'(?:Thread (\d+): )?\s*$', ln)
        if (m and i + 1 < n and lines[i + 1].startswith('VERIFICATION RESULT')) or ln.startswith('VERIFICATION RESULT'):
            th = (m.group(1) if m else None) or '-'
            j = i
            buf = []
            while j < n:
                buf.append(lines[j])
                if lines[j].startswith('Verification Time') or lines[j].startswith('VERIFICATION:- ') and j + 1 < n and not lines[j + 1].startswith('Verification Time'):
                    break
                j += 1
            if th in cur:
                blocks.append((cur.pop(th), '\n'.join(buf)))
            i = j + 1
            continue
        i += 1
    for full, blk in blocks:
        name = full.split('::')[-1]
        r = dict(full=full, status='UNKNOWN', failed=[], covers=None, time_s=None, checks=None)
        m = re.search(r'VERIFICATION:- (SUCCESSFUL|FAILED)', blk)
        if m:
            r['status'] = m.group(1)
        m = re.search(r'\*\* (\d+) of (\d+) failed', blk)
        if m:
            r['checks'] = int(m.group(2))
            r['n_failed'] = int(m.group(1))
        m = re.search(r'\*\* (\d+) of (\d+) cover properties satisfied', blk)
        if m:
            r['covers'] = (int(m.group(1)), int(m.group(2)))
        m = re.search(r'Verification Time: ([\d.]+)s', blk)
        if m:
            r['time_s'] = float(m.group(1))
        for fm in re.finditer(r'Failed Checks: (.*)\n\s*File: "([^"]*)", line (\d+), in ([^\n]*)', blk):
            r['failed'].append(dict(desc=fm.group(1).strip(), file=fm.group(2), line=int(fm.group(3)), fn=fm.group(4).strip()))
        for fm in re.finditer(r'Failed Checks: (.*)\n(?!\s*File:)', blk):
            r['failed'].append(dict(desc=fm.group(1).strip(), file='', line=0, fn=''))
        if 'CBMC failed' in blk or 'CBMC timed out' in blk or 'out of memory' in blk.lower():
            r['status'] = 'TOOL'
        r['tool_limit'] = [f for f in r['failed'] if TOOL_LIMIT_PAT.search(f['desc'])]
        r['raw'] = blk[-3000:]
        res[name] = r
    # harnesses that were started but produced no block (crash / timeout)
    for th, full in cur.items():
        res.setdefault(full.split('::')[-1], dict(full=full, status='NO_RESULT', failed=[], covers=None, time_s=None, checks=None, tool_limit=[], raw=''))
    return res


def run_harnesses(dst, names, jobs=8, timeout=1500, extra=()):
    cmd = ['cargo', 'kani', '--output-format', 'terse', '-j', str(jobs), '-Z', 'stubbing']     # stubbing: modular harnesses replace proved callees by their contracts
    for n in names:
        cmd += ['--harness', n]
    cmd += list(extra)
    out, rc, to, wall = _run(cmd, dst, timeout)
    res = parse(out)
    build_failed = ('error: could not compile' in out) or ('error[E' in out and not res)
    return dict(cmd='CARGO_NET_OFFLINE=true ' + ' '.join(cmd), rc=rc, timed_out=to, wall_s=round(wall, 1), results=res,
                build_failed=build_failed, tail=out[-6000:])


def playback(dst, name, extra=(), timeout=900):
    """counterexample of a failing harness replayed natively against the real crate (Kani concrete playback)"""
    cmd = ['cargo', 'kani', '--output-format', 'terse', '--harness', name, '-Z', 'concrete-playback',
           '--concrete-playback=inplace'] + list(extra)
    out, rc, to, wall = _run(cmd, dst, timeout)
    tests = re.findall(r'^\s*- (kani_concrete_playback_\w+)', out, flags=re.M)
    info = dict(gen_cmd='CARGO_NET_OFFLINE=true ' + ' '.join(cmd), tests=[], replayed=False)
    if not tests:
        info['note'] = 'Kani produced no concrete playback test: ' + out[-800:]
        return info
    # collect the generated test texts from the scratch sources
    srcs = {}
    for root, _, files in os.walk(os.path.join(dst, 'src')):
        for fn in files:
            if fn.endswith('.rs'):
                p = os.path.join(root, fn)
                srcs[p] = open(p).read()
    for t in tests:
        for p, s in srcs.items():
            i = s.find('fn ' + t + '(')
            if i >= 0:
                j = s.rfind('#[test]', 0, i)
                k0 = s.rfind('///', 0, j)
                doc = s[s.rfind('\n', 0, s.rfind('/// Test generated', 0, j)) + 1:j] if '/// Test generated' in s[max(0, j - 400):j] else ''
                b = s.index('{', i)
                depth = 0
                k = b
                while True:
                    if s[k] == '{':
                        depth += 1
                    elif s[k] == '}':
                        depth -= 1
                        if depth == 0:
                            break
                    k += 1
                text = s[j:k + 1]
                vals = re.findall(r'//\s*(.+)\n\s*vec!\[([^\]]*)\]', text)
                info['tests'].append(dict(name=t, file=os.path.relpath(p, dst), doc=doc.strip(), text=text,
                                          inputs=[dict(value=a.strip(), bytes=b.strip()) for a, b in vals],
                                          is_failure=('Check for' in doc and 'cover' not in doc.lower()) or 'assertion' in doc))
    # run each generated test natively
    pcmd = ['cargo', 'kani', 'playback', '-Z', 'concrete-playback', '--', 'kani_concrete_playback_' + name]
    out2, rc2, to2, wall2 = _run(pcmd, dst, timeout)
    info['playback_cmd'] = 'CARGO_NET_OFFLINE=true ' + ' '.join(pcmd)
    info['playback_tail'] = out2[-3000:]
    failed = re.findall(r'^test .*?(kani_concrete_playback_\w+) \.\.\. FAILED', out2, flags=re.M)
    panics = re.findall(r"panicked at ([^\n]*)\n([^\n]*)", out2)
    info['native_failed_tests'] = failed
    info['native_panics'] = [' '.join(p) for p in panics][:6]
    info['replayed'] = bool(failed) and 'test result: FAILED' in out2
    return info
