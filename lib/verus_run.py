#!/usr/bin/env python3
"""Run one assembled Verus unit file and classify the outcome."""
import json, os, re, subprocess, time

VERDICT_KINDS = (
    'postcondition not satisfied', 'precondition not satisfied', 'assertion failed',
    'possible arithmetic underflow/overflow', 'possible division by zero', 'invariant not satisfied',
    'loop invariant not', 'decreases not satisfied', 'possible bit shift underflow/overflow',
    'recommendation not met', 'unreachable', 'could not prove termination', 'index out of bounds',
    'possible index out of bounds', 'const-eval', 'termination',
)
RESOURCE_KINDS = ('Resource limit (rlimit) exceeded', 'resource limit', 'timed out', 'timeout')


def run_unit(unit, outdir, threads=8, seed=None, timeout=420):
    """Run the unit; if the only problems are solver resource limits (no verdict), retry under other Z3 random seeds:
    a function is discharged if ANY run proves it (each successful run is a complete proof of that function)."""
    r = _run_unit_once(unit, outdir, threads, seed, timeout)
    tries = [dict(seed=seed, resource=[f['fn'] for f in r['resource']], verified=r['verified'], errors=r['errors'])]
    pending = set(f['fn'] for f in r['resource'])
    for s2 in (7, 23, 101):
        if not pending or r['tool_error']:
            break
        r2 = _run_unit_once(unit, outdir, threads, s2, timeout)
        if r2['tool_error']:
            break
        still = set(f['fn'] for f in r2['resource']) | set(f['fn'] for f in r2['failures'])
        proved_now = pending - still
        tries.append(dict(seed=s2, resource=[f['fn'] for f in r2['resource']], verified=r2['verified'], errors=r2['errors'], newly_proved=sorted(proved_now)))
        if proved_now:
            r['resource'] = [f for f in r['resource'] if f['fn'] not in proved_now]
            r['verified'] += len(proved_now)
            r['errors'] = max(0, r['errors'] - len(proved_now))
            pending -= proved_now
        r['smt_ms'] += r2.get('smt_ms', 0)
        r['wall_s'] = round(r['wall_s'] + r2['wall_s'], 2)
    r['seed_runs'] = tries
    return r


def _run_unit_once(unit, outdir, threads=8, seed=None, timeout=900):
    text = unit.text()
    os.makedirs(outdir, exist_ok=True)
    path = os.path.join(outdir, unit.name + '.rs')
    with open(path, 'w') as f:
        f.write(text)
    cmd = ['verus', path, '--output-json', '--time', '--multiple-errors', '30', '--rlimit', str(unit.rlimit),
           '--num-threads', str(threads), '-V', 'spinoff-all'] + list(unit.extra_args)   # every function in its own solver: isolation = stable proofs
    if seed is not None:
        cmd += ['--smt-option', 'smt.random_seed=%d' % seed]
    t0 = time.time()
    try:
        p = subprocess.run(cmd, capture_output=True, text=True, timeout=timeout, cwd=outdir)
        out, err, rc = p.stdout, p.stderr, p.returncode
    except subprocess.TimeoutExpired as e:
        out, err, rc = '', 'verus wall-clock timeout after %ds' % timeout, -9
    wall = time.time() - t0
    res = dict(unit=unit.name, file=path, cmd=' '.join(cmd), wall_s=round(wall, 2), rc=rc, verified=0, errors=0,
               failures=[], resource=[], tool_error=None, smt_ms=0, stderr_tail=err[-4000:])
    try:
        j = json.loads(out)
        vr = j.get('verification-results', {})
        res['verified'] = vr.get('verified', 0)
        res['errors'] = vr.get('errors', 0)
        res['smt_ms'] = j.get('times-ms', {}).get('smt', {}).get('total', 0)
        res['total_ms'] = j.get('times-ms', {}).get('total', 0)
        res['functions'] = sorted(k.split('::', 1)[1] for k in j.get('func-details', {}) if not k.startswith('vstd::'))
        if vr.get('encountered-vir-error'):
            res['tool_error'] = 'verus reported a VIR/type error'
    except Exception:
        res['tool_error'] = 'no JSON from verus (rc=%s)' % rc
    ranges = unit.locate(text)
    text_lines = text.split('\n')
    base = os.path.basename(path)

    def fn_at(line):
        best = None
        for lo, hi, name in ranges:
            if lo <= line <= hi and (best is None or lo >= best[0]):
                best = (lo, hi, name)
        return best[2] if best else '?'

    # parse diagnostics
    blocks = re.split(r'\n(?=error|warning|note: )', '\n' + err)
    for b in blocks:
        m = re.match(r'\s*error(?:\[[A-Z0-9]+\])?: (.*)', b)
        if not m:
            continue
        msg = m.group(1).strip()
        if msg.startswith('aborting due to') or msg.startswith('could not compile'):
            continue
        loc = re.search(r'--> [^\n:]*' + re.escape(base) + r':(\d+):(\d+)', b)
        line = int(loc.group(1)) if loc else 0
        fn = fn_at(line) if line else '?'
        # the *failed* clause location (for post/preconditions verus points at the clause with a label)
        src_line = text_lines[line - 1] if 0 < line <= len(text_lines) else ''
        entry = dict(fn=fn, kind=msg, line=line, text=b.strip()[:1500], in_ghost=('/*@ghost*/' in src_line))
        if any(k.lower() in msg.lower() for k in RESOURCE_KINDS):
            res['resource'].append(entry)
        elif any(msg.startswith(k) or k in msg for k in VERDICT_KINDS):
            res['failures'].append(entry)
        else:
            # type errors, unsupported constructs, etc.: tool problem, never a verdict
            res['tool_error'] = (res['tool_error'] or '') + ' | ' + msg + (' @%s:%d' % (fn, line))
            res.setdefault('tool_error_blocks', []).append(b.strip()[:1500])
    if res['tool_error'] is None and rc != 0 and not res['failures'] and not res['resource']:
        res['tool_error'] = 'verus exit %s without a recognised diagnostic' % rc
    return res
