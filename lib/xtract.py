#!/usr/bin/env python3
"""Mechanical extractor: pulls fn / const / struct items out of the /repo source text *verbatim* on every
run and splices contracts + anchored ghost hints for Verus.  See DESIGN.md section 2.1 for the list of
rewrites (R1..R9); every rewrite applied is counted in `DROPS` so the evidence file can report it.

A lost anchor raises AnchorLost -> the check exits 2 (undecided), never 1.
"""
import re, os, collections

REPO = os.environ.get('VERIF_REPO', '/repo')
DROPS = collections.Counter()
LOST_HINTS = []      # (anchor) of ghost hints whose anchor line no longer exists: the hint is skipped, the function is flagged


class AnchorLost(Exception):
    pass


def match_close(s, j, open_c='{', close_c='}'):
    """index of the bracket closing the one at s[j]; understands strings, chars, comments"""
    depth = 0
    k = j
    n = len(s)
    while k < n:
        c = s[k]
        if s.startswith('//', k):
            e = s.find('\n', k)
            k = n if e < 0 else e
            continue
        if s.startswith('/*', k):
            k = s.index('*/', k) + 2
            continue
        if c == '"':
            k += 1
            while s[k] != '"':
                if s[k] == '\\':
                    k += 1
                k += 1
        elif c == "'":
            m = re.match(r"'(\\x[0-9a-fA-F]{2}|\\u\{[0-9a-fA-F]+\}|\\.|[^\\'])'", s[k:k + 12])
            if m:
                k += len(m.group(0)) - 1
        elif c == open_c:
            depth += 1
        elif c == close_c:
            depth -= 1
            if depth == 0:
                return k
        k += 1
    raise AnchorLost('unbalanced brackets')


def strip_attrs(s):
    """R1: doc comments, plain comments and attributes are removed (they are not code)"""
    n0 = len(re.findall(r'^[ \t]*//[/!].*\n', s, flags=re.M))
    s = re.sub(r'^[ \t]*//.*\n', '', s, flags=re.M)
    s = re.sub(r'[ \t]+//[^\n"]*$', '', s, flags=re.M)
    DROPS['R1 doc/comment lines'] += n0
    # attributes, possibly multi-line
    out = []
    i = 0
    while True:
        m = re.compile(r'^[ \t]*#!?\[', flags=re.M).search(s, i)
        if not m:
            out.append(s[i:])
            break
        out.append(s[i:m.start()])
        b = s.index('[', m.start())
        e = match_close(s, b, '[', ']')
        i = e + 1
        if s[i:i + 1] == '\n':
            i += 1
        DROPS['R1 attributes'] += 1
    return ''.join(out)


def r4_debug_assert(body):
    """R4: debug_assert!(e[, msg]) -> assert(e) (a Verus proof obligation).  Only the first macro
    argument is kept."""
    out = []
    i = 0
    while True:
        m = re.search(r'\bdebug_assert!\(', body[i:])
        if not m:
            out.append(body[i:])
            break
        st = i + m.start()
        p = i + m.end() - 1
        e = match_close(body, p, '(', ')')
        args = body[p + 1:e]
        # first top-level comma
        depth = 0
        cut = len(args)
        for k, c in enumerate(args):
            if c in '([{':
                depth += 1
            elif c in ')]}':
                depth -= 1
            elif c == ',' and depth == 0:
                cut = k
                break
        out.append(body[i:st] + 'assert(' + args[:cut].strip() + ')')
        DROPS['R4 debug_assert -> assert obligation'] += 1
        i = e + 1
    return ''.join(out)


def r9_compound(body):
    """R9: `a %= b;` / `a /= b;` -> `a = a % (b);` (Verus rejects the compound form on signed ints)"""
    def rep(m):
        DROPS['R9 compound %=,/= desugared'] += 1
        return '%s%s = %s %s (%s);' % (m.group(1), m.group(2), m.group(2), m.group(3), m.group(4).strip())
    return re.sub(r'^([ \t]*)([A-Za-z_][A-Za-z0-9_\.]*) ([%/])= ([^;]+);', rep, body, flags=re.M)


class Src:
    def __init__(self, rel):
        self.rel = rel
        self.path = os.path.join(REPO, rel)
        try:
            self.s = open(self.path).read()
        except OSError as e:
            raise AnchorLost('source file missing: ' + rel)

    def line_of(self, idx):
        return self.s.count('\n', 0, idx) + 1

    def impl_span(self, header, nth=0):
        i = -1
        for _ in range(nth + 1):
            i = self.s.find(header, i + 1)
            if i < 0:
                raise AnchorLost('impl header %r in %s' % (header, self.rel))
        j = self.s.index('{', i + len(header) - 1)
        k = match_close(self.s, j)
        return j + 1, k

    def fn(self, name, impl=None, nth=0):
        """(sig_text, body_text, line) of `fn name` inside the impl block with the given header, or at
        file level (first match at column 0) when impl is None"""
        if impl is None:
            lo, hi = 0, len(self.s)
            pat = r'^(?:pub(?:\([a-z]+\))? )?(?:const )?(?:unsafe )?fn ' + re.escape(name) + r'\b'
            ms = list(re.finditer(pat, self.s, flags=re.M))
        else:
            lo, hi = self.impl_span(impl) if isinstance(impl, str) else self.impl_span(*impl)
            pat = r'(?:pub(?:\([a-z]+\))? )?(?:const )?(?:unsafe )?fn ' + re.escape(name) + r'\b'
            ms = [m for m in re.finditer(pat, self.s) if lo <= m.start() < hi]
        if len(ms) <= nth:
            raise AnchorLost('fn %s in %s%s' % (name, self.rel, ' / ' + str(impl) if impl else ''))
        m = ms[nth]
        # parameter list
        p = self.s.index('(', m.end())
        pe = match_close(self.s, p, '(', ')')
        b = self.s.index('{', pe)
        semi = self.s.find(';', pe)
        if 0 <= semi < b:
            raise AnchorLost('fn %s has no body' % name)
        e = match_close(self.s, b)
        return self.s[m.start():b], self.s[b:e + 1], self.line_of(m.start())

    def const(self, name, impl=None):
        if impl is None:
            lo, hi = 0, len(self.s)
        else:
            lo, hi = self.impl_span(impl) if isinstance(impl, str) else self.impl_span(*impl)
        for m in re.finditer(r'(?:pub(?:\([a-z]+\))? )?(?:const|static) ' + re.escape(name) + r'\b[^=\n]*?=\s', self.s):
            if not (lo <= m.start() < hi):
                continue
            k = m.end()
            depth = 0
            while True:
                c = self.s[k]
                if c in '[({':
                    depth += 1
                elif c in '])}':
                    depth -= 1
                elif c == ';' and depth == 0:
                    break
                k += 1
            return self.s[m.start():k + 1]
        raise AnchorLost('const %s in %s' % (name, self.rel))

    def struct(self, name):
        m = re.search(r'^(?:pub(?:\([a-z]+\))? )?struct ' + re.escape(name) + r'\b[^;{(]*([;{(])', self.s, flags=re.M)
        if not m:
            raise AnchorLost('struct %s in %s' % (name, self.rel))
        if m.group(1) == ';':
            return self.s[m.start():m.end()]
        b = m.end() - 1
        e = match_close(self.s, b, m.group(1), {'{': '}', '(': ')'}[m.group(1)])
        t = self.s[m.start():e + 1]
        if m.group(1) == '(':
            t += ';'
        return t

    def enum(self, name):
        m = re.search(r'^(?:pub(?:\([a-z]+\))? )?enum ' + re.escape(name) + r'\b[^{]*\{', self.s, flags=re.M)
        if not m:
            raise AnchorLost('enum %s in %s' % (name, self.rel))
        e = match_close(self.s, m.end() - 1)
        return self.s[m.start():e + 1]


def unpub(t):
    n = len(re.findall(r'\bpub(\([a-z]+\))? ', t))
    DROPS['R2 visibility qualifiers'] += n
    return re.sub(r'\bpub(\([a-z]+\))? ', '', t)


def clean_struct(txt, derive='Clone, Copy'):
    t = unpub(strip_attrs(txt + '\n').strip())
    return ('#[derive(%s)]\n' % derive if derive else '') + t


def clean_const(txt):
    t = unpub(strip_attrs(txt + '\n').strip())
    t2 = re.sub(r': &\[', ": &'static [", t)
    if t2 != t:
        DROPS["R3 const slice refs given 'static"] += 1
    return t2


HINT_OK = re.compile(r'^\s*(proof\s*\{|assert\s*\(|assert\s+forall|let ghost |reveal\(|//|broadcast use )')


GHOST_MARK = '/*@ghost*/'


def mark_ghost(text):
    """every spliced ghost line (proof hint, loop invariant) carries a marker, so a Verus diagnostic located on it can be told
    apart from one located on the real code: a failed proof *step* is not by itself a verdict on the code"""
    return '\n'.join(ln + ' ' + GHOST_MARK if ln.strip() else ln for ln in text.split('\n'))


def check_hint(text):
    if re.search(r'\b(assume|admit)\s*\(', text):
        raise Exception('hint contains assume/admit: ' + text[:80])
    first = text.strip().split('\n')[0]
    if not HINT_OK.match(first):
        raise Exception('hint is not ghost code: ' + first[:80])


def emit_fn(sig, body, requires='', ensures='', hints=(), hints_all=(), loops=(), retname='r', decreases='',
            rename=None, stub=False, attrs='', replace_sig=None, subst=(), no_unwind=False):
    """Emit one function for the Verus unit.
    hints : [(anchor_substring, ghost_text)]  inserted on its own line(s) *before* the source line holding anchor
    loops : [(anchor_substring, spec_text)]   loop invariants/decreases inserted between loop header and `{`
    subst : [(old, new, why)] logged textual substitutions (R6/R7 call re-pointing); each must match
    """
    sig = unpub(strip_attrs(sig + '\n').strip())
    if replace_sig:
        sig = replace_sig
    if rename:
        sig = re.sub(r'\bfn \w+', 'fn ' + rename, sig, count=1)
        DROPS['R6 trait methods emitted under inherent name'] += 1
    m = re.search(r'\)\s*->\s*(.+?)(\s+where\b.*)?$', sig, flags=re.S)
    if m:
        ret = m.group(1).strip()
        where = m.group(2) or ''
        sig = sig[:m.start()] + ') -> (' + retname + ': ' + ret + ')' + where
    spec = ''
    if requires:
        spec += '\n    requires ' + requires.strip().rstrip(',') + ','
    if ensures:
        spec += '\n    ensures ' + ensures.strip().rstrip(',') + ','
    if decreases:
        spec += '\n    decreases ' + decreases + ','
    if no_unwind:
        spec += '\n    no_unwind'
    if stub:
        return '#[verifier::external_body]\n' + attrs + sig + spec + '\n{ unimplemented!() }\n'
    body = strip_attrs(body)
    body = r4_debug_assert(body)
    body = r9_compound(body)
    for old, new, why in subst:
        if old not in body:
            raise AnchorLost('subst anchor %r' % old)
        if '\n' in new:
            # a replaced loop header that carries invariants: everything after its first line is ghost text
            ls = new.split('\n')
            new = '\n'.join([ls[0]] + [(mark_ghost(l) if l.strip() not in ('{', '') else l) for l in ls[1:]])
        body = body.replace(old, new)
        DROPS['subst: ' + why] += 1
    for anchor, text in hints:
        check_hint(text)
        i = body.find(anchor)
        if i < 0:
            LOST_HINTS.append(anchor)      # ghost code only: emit the function without this hint
            continue
        ls = body.rfind('\n', 0, i) + 1
        body = body[:ls] + mark_ghost(text) + '\n' + body[ls:]
    for anchor, text in hints_all:
        check_hint(text.replace('@@', ''))
        if anchor not in body:
            LOST_HINTS.append(anchor)
            continue
        lines = body.split('\n')
        out = []
        for ln in lines:
            if anchor in ln:
                ind = re.match(r'\s*', ln).group(0)
                out.append(mark_ghost(ind + text))
            out.append(ln)
        body = '\n'.join(out)
    for anchor, text in loops:
        if re.search(r'\b(assume|admit)\s*\(', text):
            raise Exception('loop spec contains assume/admit')
        i = body.find(anchor)
        if i < 0:
            raise AnchorLost('loop anchor %r' % anchor)
        b = body.index('{', i + len(anchor) - 1) if not anchor.rstrip().endswith('{') else i + anchor.rstrip().__len__() - 1
        body = body[:b] + '\n' + mark_ghost(text) + '\n' + body[b:]
    return attrs + sig + spec + '\n' + body + '\n'
