#!/usr/bin/env python3
"""Assembly of one Verus unit file from real /repo text + contracts (see DESIGN.md 2.1)."""
import re
import xtract
from xtract import Src, emit_fn, clean_const, clean_struct, AnchorLost, match_close

_SRC = {}


def src(rel):
    if rel not in _SRC:
        _SRC[rel] = Src(rel)
    return _SRC[rel]


def reset_sources():
    _SRC.clear()


class Unit:
    def __init__(self, name, contracts):
        self.name = name
        self.contracts = contracts          # shared contract table (specs/contracts.py)
        self.chunks = []
        self.items = []                     # dicts: name, kind, file, line, contract
        self.assumed = []                   # contract ids used as external_body stubs
        self.trusted = []                   # free-text trusted assumptions (assume_specification ...)
        self.auto_stubs = []
        self.lost_hints = {}               # emitted fn name -> [anchors] of proof hints that could not be placed
        self.lost_fns = {}                 # emitted fn name -> reason: body edited beyond its rewrite anchors, emitted as a contract stub
        self.axioms = []                    # lemma names used as axioms here (proved in the unit that owns them)
        self.rlimit = 60
        self.extra_args = []

    # ---- raw text (spec fns, lemmas, trimmed traits ...) -------------------------------------
    def raw(self, text):
        self.chunks.append(text)
        for m in re.finditer(r'^\s*(?:pub )?(?:broadcast )?proof fn (\w+)', text, flags=re.M):
            if text[max(0, m.start() - 40):m.start()].rstrip().endswith('#[verifier::external_body]'):
                self.axioms.append(m.group(1))
                continue
            self.items.append(dict(name='lemma ' + m.group(1), kind='lemma', file='(verif spec)', line=0))
        for m in re.finditer(r'assume_specification\s*(?:<[^>]*>\s*)?\[\s*([^\]]+)\]', text):
            self.trusted.append('assume_specification[%s] (documented std behaviour)' % m.group(1).strip())
        return self

    def _c(self, cid):
        if cid not in self.contracts:
            raise Exception('no contract for ' + cid)
        return self.contracts[cid]

    def prove(self, rel, name, impl=None, cid=None, hints=(), hints_all=(), loops=(), rename=None, subst=(), nth=0,
              attrs='', requires=None, ensures=None, decreases='', replace_sig=None, indent=True,
              extra_requires=None, no_unwind=False):
        """extract the real function and put it under contract `cid`"""
        s = src(rel)
        sig, body, line = s.fn(name, impl, nth)
        c = self._c(cid) if cid else {}
        req = requires if requires is not None else c.get('requires', '')
        if extra_requires:
            req = (req + ', ' if req else '') + extra_requires
        del xtract.LOST_HINTS[:]
        try:
            txt = emit_fn(sig, body, requires=req,
                          ensures=ensures if ensures is not None else c.get('ensures', ''),
                          hints=hints, hints_all=hints_all, loops=loops, rename=rename, subst=subst, attrs=attrs,
                          decreases=decreases or c.get('decreases', ''), replace_sig=replace_sig, no_unwind=no_unwind)
        except xtract.AnchorLost as e:
            # the body was edited beyond what the rewrite rules of THIS function can follow: it is emitted as a contract stub so the rest of
            # the unit is still decided; the function itself is reported as undecided (the twin has to produce an input)
            self.lost_fns[rename or name] = str(e)
            txt = emit_fn(sig, body, requires=req, ensures=ensures if ensures is not None else c.get('ensures', ''), rename=rename, stub=True,
                          replace_sig=replace_sig)
        if xtract.LOST_HINTS:
            self.lost_hints[rename or name] = list(xtract.LOST_HINTS)
        self.chunks.append(txt)
        self.items.append(dict(name=(cid or name), kind='exec', file=rel, line=line,
                               emitted=rename or name, contract=dict(requires=req, ensures=ensures if ensures is not None else c.get('ensures', ''))))
        return self

    def stub(self, rel, name, impl=None, cid=None, rename=None, nth=0, replace_sig=None, requires=None, ensures=None):
        """external_body stub: real signature, contract from the shared table (an *assumption* of this unit)"""
        s = src(rel)
        sig, body, line = s.fn(name, impl, nth)
        c = self._c(cid) if cid else {}
        txt = emit_fn(sig, body, requires=requires if requires is not None else c.get('requires', ''),
                      ensures=ensures if ensures is not None else c.get('ensures', ''), rename=rename, stub=True, replace_sig=replace_sig)
        self.chunks.append(txt)
        if cid:
            self.assumed.append(cid)
        else:
            self.trusted.append('external_body %s (%s:%d) with local contract' % (name, rel, line))
        return self

    def stub_all(self, rel, impl, prefix, only=None):
        """stub every function of the contract table with key `prefix::name` that exists in the impl block and is not yet in
        this unit, so that an edited body calling another known function still type-checks.  A stub that no proved body
        calls is not an assumption of the unit (see used_assumed)."""
        have = set(re.findall(r'\bfn (\w+)', '\n'.join(self.chunks)))
        for cid in sorted(self.contracts):
            if not cid.startswith(prefix + '::'):
                continue
            name = cid.split('::', 1)[1]
            if '__' in name or name in have or (only and name not in only):
                continue
            try:
                s = src(rel)
                sig, body, line = s.fn(name, impl)
            except AnchorLost:
                continue
            c = self.contracts[cid]
            txt = emit_fn(sig, body, requires=c.get('requires', ''), ensures=c.get('ensures', ''), stub=True)
            allt = '\n'.join(self.chunks)
            types = set(re.findall(r'\b([A-Z][A-Za-z0-9]+)\b', txt)) - {'Self', 'Option', 'Some', 'None', 'Result', 'Ok', 'Err', 'MIN', 'MAX', 'DN', 'UNIX', 'DAYNS', 'LIM', 'NonZeroI32', 'Ordering'}
            types = set(t for t in types if not t.isupper())
            if any(not re.search(r'\b(struct|enum|type|trait) ' + t + r'\b', allt) for t in types):
                continue
            specs = set(m for m in re.findall(r'(?<![.\w])([a-z_][a-z0-9_]*)\(', c.get('requires', '') + ' ' + c.get('ensures', ''))) - {'forall', 'exists', 'old', 'final'}
            if any(not re.search(r'\bspec fn ' + f + r'\b', allt) for f in specs):
                continue
            self.chunks.append(txt)
            self.auto_stubs.append((cid, name))
        return self

    def used_assumed(self):
        """contracts this unit really assumes: explicit stubs + auto stubs whose function is called by a proved body"""
        out = list(self.assumed)
        bodies = '\n'.join(c for c in self.chunks if '#[verifier::external_body]' not in c[:200])
        for cid, name in self.auto_stubs:
            if re.search(r'[.:]' + re.escape(name) + r'\(', bodies):
                out.append(cid)
        return out

    def const(self, rel, name, impl=None, replace=None):
        t = clean_const(src(rel).const(name, impl))
        if replace:
            old, new = replace
            if old not in t:
                raise AnchorLost('const %s text changed: expected %r' % (name, old))
            t = t.replace(old, new)
        self.chunks.append(t)
        self.items.append(dict(name='const ' + name, kind='const', file=rel, line=0))
        return self

    def consts_all(self, rel, types=('i32', 'i64', 'u32', 'u64', 'u8', 'i8', 'u16', 'usize')):
        """every module-level integer const of the file whose initialiser is a literal / simple arithmetic over other consts
        (robust against consts being added or removed by an edit)"""
        s = src(rel).s
        n = 0
        for m in re.finditer(r'^(?:pub(?:\([a-z]+\))? )?const ([A-Z][A-Z0-9_]*): (\w+) = ([^;{}\[\]]+);', s, flags=re.M):
            if m.group(2) not in types:
                continue
            if not re.fullmatch(r'[\w\s+\-*()]+', m.group(3)):
                continue
            if any(it['name'] == 'const ' + m.group(1) for it in self.items):
                continue
            self.chunks.append(clean_const(m.group(0)))
            self.items.append(dict(name='const ' + m.group(1), kind='const', file=rel, line=s.count('\n', 0, m.start()) + 1))
            n += 1
        return n

    def struct(self, rel, name, derive='Clone, Copy', expect_fields=None):
        t = clean_struct(src(rel).struct(name), derive)
        if expect_fields is not None:
            got = re.sub(r'\s+', ' ', t[t.index('struct'):])
            want = re.sub(r'\s+', ' ', expect_fields)
            if want not in got:
                raise AnchorLost('struct %s layout changed: %s' % (name, got))
        self.chunks.append(t)
        return self

    def text(self):
        return '\n'.join(self.chunks) + '\n'

    def locate(self, text):
        """line ranges of every fn in the assembled text: [(lo, hi, fn_name)]"""
        out = []
        for m in re.finditer(r'^[ \t]*(?:#\[[^\]]*\]\s*)*(?:pub )?(?:broadcast )?(?:exec |proof |spec |open |closed |uninterp )*(?:const )?(?:unsafe )?fn (\w+)', text, flags=re.M):
            try:
                p = text.index('(', m.end())
                pe = match_close(text, p, '(', ')')
                b = text.index('{', pe)
                semi = text.find(';', pe)
                if 0 <= semi < b:
                    e = semi
                else:
                    e = match_close(text, b)
            except Exception:
                continue
            lo = text.count('\n', 0, m.start()) + 1
            hi = text.count('\n', 0, e) + 1
            out.append((lo, hi, m.group(1)))
        for m in re.finditer(r'^[ \t]*exec const (\w+)', text, flags=re.M):
            b = text.index('{', m.end())
            e = match_close(text, b)
            out.append((text.count('\n', 0, m.start()) + 1, text.count('\n', 0, e) + 1, 'const ' + m.group(1)))
        return out


def header(prelude_header):
    """R5: the try_opt! macro is copied verbatim from src/lib.rs"""
    s = src('src/lib.rs').s
    i = s.find('macro_rules! try_opt')
    if i < 0:
        raise AnchorLost('macro try_opt in src/lib.rs')
    b = s.index('{', i)
    e = match_close(s, b)
    return prelude_header.replace('@@TRY_OPT@@', s[i:e + 1])
