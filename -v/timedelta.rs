#![allow(unused_imports, dead_code, unused_variables, non_snake_case, unused_mut, unused_parens, unused_macros)]
use vstd::prelude::*;
use vstd::arithmetic::div_mod::*;
use vstd::arithmetic::mul::*;
use core::num::NonZeroI32;
use core::cmp::Ordering;
macro_rules! try_opt {
    ($e:expr) => {
        match $e {
            Some(v) => v,
            None => return None,
        }
    };
}
verus! {

pub assume_specification [i32::rem_euclid] (x: i32, d: i32) -> (r: i32)
    requires d > 0, ensures r == (x as int) % (d as int);
pub assume_specification [i32::div_euclid] (x: i32, d: i32) -> (r: i32)
    requires d > 0, ensures r == (x as int) / (d as int);
pub assume_specification [i64::rem_euclid] (x: i64, d: i64) -> (r: i64)
    requires d > 0, ensures r == (x as int) % (d as int);
pub assume_specification [i64::div_euclid] (x: i64, d: i64) -> (r: i64)
    requires d > 0, ensures r == (x as int) / (d as int);
pub assume_specification [i64::abs] (x: i64) -> (r: i64)
    requires x > i64::MIN, ensures r == (if x < 0 { -(x as int) } else { x as int });

#[verifier::external_body]
const fn expect<T: Copy>(opt: Option<T>, msg: &str) -> (r: T)
    requires opt.is_some() ensures r == opt.unwrap()
{ unimplemented!() }

spec fn iabs(x: int) -> int { if x < 0 { -x } else { x } }
spec fn trunc_div(a: int, b: int) -> int { if a >= 0 { a / b } else { -((-a) / b) } }
spec fn trunc_rem(a: int, b: int) -> int { a - trunc_div(a, b) * b }
proof fn euclid(x: int, d: int)
    requires d != 0
    ensures x == d * (x / d) + (x % d), 0 <= x % d < iabs(d)
{
    lemma_fundamental_div_mod(x, d);
    if d > 0 { lemma_mod_bound(x, d); } else { assert(0 <= x % d < -d) by(nonlinear_arith) requires d < 0; }
}
proof fn div_neg(a: int, b: int) requires b != 0, a < 0 ensures rust_div(a, b) == -((-a) / b), rust_rem(a, b) == -((-a) % b) { reveal(rust_div); reveal(rust_rem); }
proof fn div_sym(a: int, b: int) requires b != 0, a > 0 ensures rust_div(a, b) == -rust_div(-a, b), rust_rem(a, b) == -rust_rem(-a, b) { reveal(rust_div); reveal(rust_rem); }
proof fn div_zero(b: int) requires b != 0 ensures rust_div(0, b) == 0, rust_rem(0, b) == 0 { reveal(rust_div); reveal(rust_rem); }
proof fn rust_divrem(a: int, b: int)
    requires b != 0
    ensures a == rust_div(a, b) * b + rust_rem(a, b),
            iabs(rust_rem(a, b)) < iabs(b),
            (a >= 0 ==> rust_rem(a, b) >= 0) && (a <= 0 ==> rust_rem(a, b) <= 0),
            iabs(rust_div(a, b)) <= iabs(a),
            (a >= 0 && b > 0 || a <= 0 && b < 0) ==> rust_div(a, b) >= 0,
            (a >= 0 && b < 0 || a <= 0 && b > 0) ==> rust_div(a, b) <= 0,
{
    if a < 0 {
        div_neg(a, b); euclid(-a, b);
        assert(a == (-((-a) / b)) * b + (-((-a) % b))) by(nonlinear_arith) requires -a == b * ((-a) / b) + ((-a) % b);
    } else if a > 0 {
        div_sym(a, b); div_neg(-a, b); euclid(a, b);
        assert(a == (a / b) * b + (a % b)) by(nonlinear_arith) requires a == b * (a / b) + (a % b);
    } else {
        div_zero(b);
        assert(0 == 0 * b + 0) by(nonlinear_arith);
    }
    let q = rust_div(a, b); let r = rust_rem(a, b);
    assert(iabs(q) <= iabs(a) && ((a >= 0 && b > 0 || a <= 0 && b < 0) ==> q >= 0) && ((a >= 0 && b < 0 || a <= 0 && b > 0) ==> q <= 0)) by(nonlinear_arith)
        requires a == q * b + r, iabs(r) < iabs(b), (a >= 0 ==> r >= 0), (a <= 0 ==> r <= 0), b != 0;
}

const NANOS_PER_MICRO: i32 = 1000;
const NANOS_PER_MILLI: i32 = 1_000_000;
const NANOS_PER_SEC: i32 = 1_000_000_000;
const MICROS_PER_SEC: i64 = 1_000_000;
const MILLIS_PER_SEC: i64 = 1000;
const SECS_PER_MINUTE: i64 = 60;
const SECS_PER_HOUR: i64 = 3600;
const SECS_PER_DAY: i64 = 86_400;
const SECS_PER_WEEK: i64 = 604_800;
#[derive(Clone, Copy)]
struct TimeDelta {
    secs: i64,
    nanos: i32,
}

spec fn LIM() -> int { 9223372036854775807int * 1000000int }
spec fn td_ns(t: TimeDelta) -> int { t.secs as int * 1_000_000_000 + t.nanos as int }
spec fn td_inv(t: TimeDelta) -> bool { 0 <= t.nanos < 1_000_000_000 && -LIM() <= td_ns(t) <= LIM() }

use core::time::Duration;
#[verifier::external_type_specification]
#[verifier::external_body]
pub struct ExDuration(core::time::Duration);
uninterp spec fn dur_secs(d: core::time::Duration) -> u64;
uninterp spec fn dur_nanos(d: core::time::Duration) -> u32;
pub assume_specification [core::time::Duration::as_secs] (d: &core::time::Duration) -> (r: u64) ensures r == dur_secs(*d);
pub assume_specification [core::time::Duration::subsec_nanos] (d: &core::time::Duration) -> (r: u32) ensures r == dur_nanos(*d), r < 1_000_000_000;
pub assume_specification [core::time::Duration::new] (secs: u64, nanos: u32) -> (r: core::time::Duration)
    requires nanos < 1_000_000_000 ensures dur_secs(r) == secs, dur_nanos(r) == nanos;
struct OutOfRangeError(());

// derived Ord on (secs, nanos) agrees with numeric order of the nanosecond count (the derive itself: Kani)
proof fn td_ord_is_numeric(a: TimeDelta, b: TimeDelta)
    requires 0 <= a.nanos < 1_000_000_000, 0 <= b.nanos < 1_000_000_000
    ensures (a.secs < b.secs || (a.secs == b.secs && a.nanos < b.nanos)) <==> td_ns(a) < td_ns(b),
            (a.secs == b.secs && a.nanos == b.nanos) <==> td_ns(a) == td_ns(b)
{}
proof fn trunc_div_is_rust(a: int, b: int)
    requires b > 0
    ensures trunc_div(a, b) == rust_div(a, b), trunc_rem(a, b) == rust_rem(a, b)
{ reveal(rust_div); reveal(rust_rem); rust_divrem(a, b); euclid(a, b); euclid(-a, b);
  if a < 0 { assert(a - (-((-a) / b)) * b == -((-a) % b)) by(nonlinear_arith) requires -a == b * ((-a) / b) + (-a) % b; }
  else { assert(a - (a / b) * b == a % b) by(nonlinear_arith) requires a == b * (a / b) + a % b; } }

exec const MIN: TimeDelta
    ensures td_ns(MIN) == -LIM(), 0 <= MIN.nanos < 1_000_000_000, MIN.secs == -9223372036854776i64
{ TimeDelta {
    secs: -i64::MAX / MILLIS_PER_SEC - 1,
    nanos: NANOS_PER_SEC + (-i64::MAX % MILLIS_PER_SEC) as i32 * NANOS_PER_MILLI,
} }

exec const MAX: TimeDelta
    ensures td_ns(MAX) == LIM(), 0 <= MAX.nanos < 1_000_000_000, MAX.secs == 9223372036854775i64
{ TimeDelta {
    secs: i64::MAX / MILLIS_PER_SEC,
    nanos: (i64::MAX % MILLIS_PER_SEC) as i32 * NANOS_PER_MILLI,
} }

const fn div_mod_floor_64(this: i64, other: i64) -> (r: (i64, i64))
    requires other > 0,
    ensures r.0 == this as int / other as int, r.1 == this as int % other as int,
{
    (this.div_euclid(other), this.rem_euclid(other))
}

impl TimeDelta {
const fn new(secs: i64, nanos: u32) -> (r: Option<TimeDelta>)
    ensures r.is_some() <==> (nanos < 1_000_000_000 && -LIM() <= secs as int * 1_000_000_000 + nanos as int <= LIM()), r.is_some() ==> td_inv(r.unwrap()) && td_ns(r.unwrap()) == secs as int * 1_000_000_000 + nanos as int && r.unwrap().secs == secs && r.unwrap().nanos == nanos as i32,
{
        if secs < MIN.secs
            || secs > MAX.secs
            || nanos >= 1_000_000_000
            || (secs == MAX.secs && nanos > MAX.nanos as u32)
            || (secs == MIN.secs && nanos < MIN.nanos as u32)
        {
            return None;
        }
        Some(TimeDelta { secs, nanos: nanos as i32 })
    }

const fn weeks(weeks: i64) -> (r: TimeDelta)
    requires -LIM() <= weeks as int * 604_800_000_000_000 <= LIM(),
    ensures td_inv(r), td_ns(r) == weeks as int * 604_800_000_000_000,
{
        expect(TimeDelta::try_weeks(weeks), "TimeDelta::weeks out of bounds")
    }

const fn try_weeks(weeks: i64) -> (r: Option<TimeDelta>)
    ensures r.is_some() <==> -LIM() <= weeks as int * 604_800_000_000_000 <= LIM(), r.is_some() ==> td_inv(r.unwrap()) && td_ns(r.unwrap()) == weeks as int * 604_800_000_000_000,
{
        TimeDelta::try_seconds(try_opt!(weeks.checked_mul(SECS_PER_WEEK)))
    }

const fn days(days: i64) -> (r: TimeDelta)
    requires -LIM() <= days as int * 86_400_000_000_000 <= LIM(),
    ensures td_inv(r), td_ns(r) == days as int * 86_400_000_000_000,
{
        expect(TimeDelta::try_days(days), "TimeDelta::days out of bounds")
    }

const fn try_days(days: i64) -> (r: Option<TimeDelta>)
    ensures r.is_some() <==> -LIM() <= days as int * 86_400_000_000_000 <= LIM(), r.is_some() ==> td_inv(r.unwrap()) && td_ns(r.unwrap()) == days as int * 86_400_000_000_000,
{
        TimeDelta::try_seconds(try_opt!(days.checked_mul(SECS_PER_DAY)))
    }

const fn hours(hours: i64) -> (r: TimeDelta)
    requires -LIM() <= hours as int * 3_600_000_000_000 <= LIM(),
    ensures td_inv(r), td_ns(r) == hours as int * 3_600_000_000_000,
{
        expect(TimeDelta::try_hours(hours), "TimeDelta::hours out of bounds")
    }

const fn try_hours(hours: i64) -> (r: Option<TimeDelta>)
    ensures r.is_some() <==> -LIM() <= hours as int * 3_600_000_000_000 <= LIM(), r.is_some() ==> td_inv(r.unwrap()) && td_ns(r.unwrap()) == hours as int * 3_600_000_000_000,
{
        TimeDelta::try_seconds(try_opt!(hours.checked_mul(SECS_PER_HOUR)))
    }

const fn minutes(minutes: i64) -> (r: TimeDelta)
    requires -LIM() <= minutes as int * 60_000_000_000 <= LIM(),
    ensures td_inv(r), td_ns(r) == minutes as int * 60_000_000_000,
{
        expect(TimeDelta::try_minutes(minutes), "TimeDelta::minutes out of bounds")
    }

const fn try_minutes(minutes: i64) -> (r: Option<TimeDelta>)
    ensures r.is_some() <==> -LIM() <= minutes as int * 60_000_000_000 <= LIM(), r.is_some() ==> td_inv(r.unwrap()) && td_ns(r.unwrap()) == minutes as int * 60_000_000_000,
{
        TimeDelta::try_seconds(try_opt!(minutes.checked_mul(SECS_PER_MINUTE)))
    }

const fn seconds(seconds: i64) -> (r: TimeDelta)
    requires -LIM() <= seconds as int * 1_000_000_000 <= LIM(),
    ensures td_inv(r), td_ns(r) == seconds as int * 1_000_000_000,
{
        expect(TimeDelta::try_seconds(seconds), "TimeDelta::seconds out of bounds")
    }

const fn try_seconds(seconds: i64) -> (r: Option<TimeDelta>)
    ensures r.is_some() <==> -LIM() <= seconds as int * 1_000_000_000 <= LIM(), r.is_some() ==> td_inv(r.unwrap()) && td_ns(r.unwrap()) == seconds as int * 1_000_000_000,
{
        TimeDelta::new(seconds, 0)
    }

const fn milliseconds(milliseconds: i64) -> (r: TimeDelta)
    requires -LIM() <= milliseconds as int * 1_000_000 <= LIM(),
    ensures td_inv(r), td_ns(r) == milliseconds as int * 1_000_000,
{
        expect(TimeDelta::try_milliseconds(milliseconds), "TimeDelta::milliseconds out of bounds")
    }

const fn try_milliseconds(milliseconds: i64) -> (r: Option<TimeDelta>)
    ensures r.is_some() <==> -LIM() <= milliseconds as int * 1_000_000 <= LIM(), r.is_some() ==> td_inv(r.unwrap()) && td_ns(r.unwrap()) == milliseconds as int * 1_000_000,
{
        if milliseconds < -i64::MAX {
            return None;
        }
        let (secs, millis) = div_mod_floor_64(milliseconds, MILLIS_PER_SEC);
        let d = TimeDelta { secs, nanos: millis as i32 * NANOS_PER_MILLI };
        Some(d)
    }

const fn microseconds(microseconds: i64) -> (r: TimeDelta)
    ensures td_inv(r), td_ns(r) == microseconds as int * 1000,
{
        let (secs, micros) = div_mod_floor_64(microseconds, MICROS_PER_SEC);
        let nanos = micros as i32 * NANOS_PER_MICRO;
        TimeDelta { secs, nanos }
    }

const fn nanoseconds(nanos: i64) -> (r: TimeDelta)
    ensures td_inv(r), td_ns(r) == nanos as int,
{
        let (secs, nanos) = div_mod_floor_64(nanos, NANOS_PER_SEC as i64);
        TimeDelta { secs, nanos: nanos as i32 }
    }

const fn num_weeks(&self) -> (r: i64)
    requires td_inv(*self),
    ensures r as int == trunc_div(td_ns(*self), 604_800_000_000_000),
{
        self.num_days() / 7
    }

const fn num_days(&self) -> (r: i64)
    requires td_inv(*self),
    ensures r as int == trunc_div(td_ns(*self), 86_400_000_000_000),
{
        self.num_seconds() / SECS_PER_DAY
    }

const fn num_hours(&self) -> (r: i64)
    requires td_inv(*self),
    ensures r as int == trunc_div(td_ns(*self), 3_600_000_000_000),
{
        self.num_seconds() / SECS_PER_HOUR
    }

const fn num_minutes(&self) -> (r: i64)
    requires td_inv(*self),
    ensures r as int == trunc_div(td_ns(*self), 60_000_000_000),
{
        self.num_seconds() / SECS_PER_MINUTE
    }

const fn num_seconds(&self) -> (r: i64)
    requires td_inv(*self),
    ensures r as int == trunc_div(td_ns(*self), 1_000_000_000),
{
        if self.secs < 0 && self.nanos > 0 { self.secs + 1 } else { self.secs }
    }

const fn num_milliseconds(&self) -> (r: i64)
    requires td_inv(*self),
    ensures r as int == trunc_div(td_ns(*self), 1_000_000),
{
        let secs_part = self.num_seconds() * MILLIS_PER_SEC;
        let nanos_part = self.subsec_nanos() / NANOS_PER_MILLI;
        secs_part + nanos_part as i64
    }

const fn subsec_millis(&self) -> (r: i32)
    requires td_inv(*self),
    ensures r as int == trunc_div(trunc_rem(td_ns(*self), 1_000_000_000), 1_000_000),
{
        self.subsec_nanos() / NANOS_PER_MILLI
    }

const fn num_microseconds(&self) -> (r: Option<i64>)
    requires td_inv(*self),
    ensures r.is_some() <==> i64::MIN <= trunc_div(td_ns(*self), 1000) <= i64::MAX, r.is_some() ==> r.unwrap() as int == trunc_div(td_ns(*self), 1000),
{
        let secs_part = try_opt!(self.num_seconds().checked_mul(MICROS_PER_SEC));
        let nanos_part = self.subsec_nanos() / NANOS_PER_MICRO;
        secs_part.checked_add(nanos_part as i64)
    }

const fn subsec_micros(&self) -> (r: i32)
    requires td_inv(*self),
    ensures r as int == trunc_div(trunc_rem(td_ns(*self), 1_000_000_000), 1_000),
{
        self.subsec_nanos() / NANOS_PER_MICRO
    }

const fn num_nanoseconds(&self) -> (r: Option<i64>)
    requires td_inv(*self),
    ensures r.is_some() <==> i64::MIN <= td_ns(*self) <= i64::MAX, r.is_some() ==> r.unwrap() as int == td_ns(*self),
{
        let secs_part = try_opt!(self.num_seconds().checked_mul(NANOS_PER_SEC as i64));
        let nanos_part = self.subsec_nanos();
        secs_part.checked_add(nanos_part as i64)
    }

const fn subsec_nanos(&self) -> (r: i32)
    requires td_inv(*self),
    ensures r as int == trunc_rem(td_ns(*self), 1_000_000_000), -1_000_000_000 < r < 1_000_000_000, (td_ns(*self) >= 0 ==> r >= 0) && (td_ns(*self) <= 0 ==> r <= 0),
{
        if self.secs < 0 && self.nanos > 0 { self.nanos - NANOS_PER_SEC } else { self.nanos }
    }

const fn checked_add(&self, rhs: &TimeDelta) -> (r: Option<TimeDelta>)
    requires td_inv(*self), td_inv(*rhs),
    ensures r.is_some() <==> -LIM() <= td_ns(*self) + td_ns(*rhs) <= LIM(), r.is_some() ==> td_inv(r.unwrap()) && td_ns(r.unwrap()) == td_ns(*self) + td_ns(*rhs),
{
        let mut secs = self.secs + rhs.secs;
        let mut nanos = self.nanos + rhs.nanos;
        if nanos >= NANOS_PER_SEC {
            nanos -= NANOS_PER_SEC;
            secs += 1;
        }
        TimeDelta::new(secs, nanos as u32)
    }

const fn checked_sub(&self, rhs: &TimeDelta) -> (r: Option<TimeDelta>)
    requires td_inv(*self), td_inv(*rhs),
    ensures r.is_some() <==> -LIM() <= td_ns(*self) - td_ns(*rhs) <= LIM(), r.is_some() ==> td_inv(r.unwrap()) && td_ns(r.unwrap()) == td_ns(*self) - td_ns(*rhs),
{
        let mut secs = self.secs - rhs.secs;
        let mut nanos = self.nanos - rhs.nanos;
        if nanos < 0 {
            nanos += NANOS_PER_SEC;
            secs -= 1;
        }
        TimeDelta::new(secs, nanos as u32)
    }

const fn abs(&self) -> (r: TimeDelta)
    requires td_inv(*self),
    ensures td_inv(r), td_ns(r) == iabs(td_ns(*self)),
{
        if self.secs < 0 && self.nanos != 0 {
            TimeDelta { secs: (self.secs + 1).abs(), nanos: NANOS_PER_SEC - self.nanos }
        } else {
            TimeDelta { secs: self.secs.abs(), nanos: self.nanos }
        }
    }

const fn zero() -> (r: TimeDelta)
    ensures td_inv(r), td_ns(r) == 0,
{
        TimeDelta { secs: 0, nanos: 0 }
    }

const fn is_zero(&self) -> (r: bool)
    requires td_inv(*self),
    ensures r == (td_ns(*self) == 0),
{
        self.secs == 0 && self.nanos == 0
    }

const fn from_std(duration: Duration) -> (r: Result<TimeDelta, OutOfRangeError>)
    ensures r.is_ok() <==> dur_secs(duration) as int * 1_000_000_000 + dur_nanos(duration) as int <= LIM(), r.is_ok() ==> td_inv(r->Ok_0) && td_ns(r->Ok_0) == dur_secs(duration) as int * 1_000_000_000 + dur_nanos(duration) as int,
{
        if duration.as_secs() > MAX.secs as u64 {
            return Err(OutOfRangeError(()));
        }
        match TimeDelta::new(duration.as_secs() as i64, duration.subsec_nanos()) {
            Some(d) => Ok(d),
            None => Err(OutOfRangeError(())),
        }
    }

const fn to_std(&self) -> (r: Result<Duration, OutOfRangeError>)
    requires td_inv(*self),
    ensures r.is_ok() <==> td_ns(*self) >= 0, r.is_ok() ==> dur_secs(r->Ok_0) as int * 1_000_000_000 + dur_nanos(r->Ok_0) as int == td_ns(*self) && dur_nanos(r->Ok_0) < 1_000_000_000,
{
        if self.secs < 0 {
            return Err(OutOfRangeError(()));
        }
        Ok(Duration::new(self.secs as u64, self.nanos as u32))
    }

const fn neg(self) -> (r: TimeDelta)
    requires td_inv(self),
    ensures td_inv(r), td_ns(r) == -td_ns(self),
{
        let (secs_diff, nanos) = match self.nanos {
            0 => (0, 0),
            nanos => (1, NANOS_PER_SEC - nanos),
        };
        TimeDelta { secs: -self.secs - secs_diff, nanos }
    }

const fn checked_mul(&self, rhs: i32) -> (r: Option<TimeDelta>)
    requires td_inv(*self),
    ensures r.is_some() <==> -LIM() <= td_ns(*self) * rhs as int <= LIM(), r.is_some() ==> td_inv(r.unwrap()) && td_ns(r.unwrap()) == td_ns(*self) * rhs as int,
{
        proof { assert(-2147483648int * 1_000_000_000 <= self.nanos as int * rhs as int <= 2147483648int * 1_000_000_000) by(nonlinear_arith) requires 0 <= self.nanos < 1_000_000_000, -2147483648 <= rhs <= 2147483647; }
        let total_nanos = self.nanos as i64 * rhs as i64;
        let (extra_secs, nanos) = div_mod_floor_64(total_nanos, NANOS_PER_SEC as i64);
        proof { assert(-9223372036854775808int * 2147483648 <= self.secs as int * rhs as int <= 9223372036854775808int * 2147483648) by(nonlinear_arith) requires -9223372036854775808 <= self.secs <= 9223372036854775807, -2147483648 <= rhs <= 2147483647;
          assert(td_ns(*self) * rhs as int == (self.secs as int * rhs as int) * 1_000_000_000 + self.nanos as int * rhs as int) by(nonlinear_arith) requires td_ns(*self) == self.secs as int * 1_000_000_000 + self.nanos as int; }
        let secs: i128 = self.secs as i128 * rhs as i128 + extra_secs as i128;
        if secs <= i64::MIN as i128 || secs >= i64::MAX as i128 {
            return None;
        };
        Some(TimeDelta { secs: secs as i64, nanos: nanos as i32 })
    }

const fn checked_div(&self, rhs: i32) -> (r: Option<TimeDelta>)
    requires td_inv(*self),
    ensures r.is_some() <==> rhs != 0, r.is_some() ==> td_inv(r.unwrap()) && iabs(td_ns(r.unwrap()) * rhs as int - td_ns(*self)) < 2 * iabs(rhs as int),
{
        if rhs == 0 {
            return None;
        }
        proof { rust_divrem(self.secs as int, rhs as int); rust_divrem(self.nanos as int, rhs as int); }
        let secs = self.secs / rhs as i64;
        let carry = self.secs % rhs as i64;
        proof {
            assert(iabs(carry as int * 1_000_000_000) < iabs(rhs as int) * 1_000_000_000) by(nonlinear_arith) requires iabs(carry as int) < iabs(rhs as int);
            rust_divrem(carry as int * 1_000_000_000, rhs as int);
            let e = rust_div(carry as int * 1_000_000_000, rhs as int);
            assert(iabs(e) < 1_000_000_000) by(nonlinear_arith)
                requires carry as int * 1_000_000_000 == e * rhs as int + rust_rem(carry as int * 1_000_000_000, rhs as int),
                         iabs(rust_rem(carry as int * 1_000_000_000, rhs as int)) < iabs(rhs as int),
                         iabs(carry as int * 1_000_000_000) < iabs(rhs as int) * 1_000_000_000, rhs != 0,
                         (carry as int * 1_000_000_000 >= 0 ==> rust_rem(carry as int * 1_000_000_000, rhs as int) >= 0),
                         (carry as int * 1_000_000_000 <= 0 ==> rust_rem(carry as int * 1_000_000_000, rhs as int) <= 0);
        }
        let extra_nanos = carry * NANOS_PER_SEC as i64 / rhs as i64;
        let nanos = self.nanos / rhs + extra_nanos as i32;

        proof {
            // exact decomposition: ns(self) = (secs*1e9 + nanos) * rhs + (r2 + r3) with |r2|,|r3| < |rhs|
            let k = rhs as int;
            let q1 = rust_div(self.secs as int, k); let c = rust_rem(self.secs as int, k);
            let q2 = rust_div(c * 1_000_000_000, k); let r2 = rust_rem(c * 1_000_000_000, k);
            let q3 = rust_div(self.nanos as int, k); let r3 = rust_rem(self.nanos as int, k);
            assert(secs as int == q1 && extra_nanos as int == q2 && nanos as int == q3 + q2);
            assert(td_ns(*self) == (q1 * 1_000_000_000 + q2 + q3) * k + r2 + r3) by(nonlinear_arith)
                requires td_ns(*self) == self.secs as int * 1_000_000_000 + self.nanos as int,
                         self.secs as int == q1 * k + c, c * 1_000_000_000 == q2 * k + r2, self.nanos as int == q3 * k + r3;
            // range of the quotient: |(q1*1e9+q2+q3) * k| <= |ns(self)| + 2|k|  ==> within LIM after dividing
            let v = q1 * 1_000_000_000 + q2 + q3;
            assert(iabs(v * k - td_ns(*self)) < 2 * iabs(k));
            assert(-LIM() <= v <= LIM()) by(nonlinear_arith)
                requires iabs(v * k - td_ns(*self)) < 2 * iabs(k), -LIM() <= td_ns(*self) <= LIM(), k != 0, LIM() >= 4;
        }
        let (secs, nanos) = match nanos {
            i32::MIN..=-1 => (secs - 1, nanos + NANOS_PER_SEC),
            NANOS_PER_SEC..=i32::MAX => (secs + 1, nanos - NANOS_PER_SEC),
            _ => (secs, nanos),
        };

        Some(TimeDelta { secs, nanos })
    }

}
impl TimeDelta {
fn Neg__neg(self) -> (r: TimeDelta)
    requires td_inv(self),
    ensures td_inv(r), td_ns(r) == -td_ns(self),
{
        let (secs_diff, nanos) = match self.nanos {
            0 => (0, 0),
            nanos => (1, NANOS_PER_SEC - nanos),
        };
        TimeDelta { secs: -self.secs - secs_diff, nanos }
    }

fn Add__add(self, rhs: TimeDelta) -> (r: TimeDelta)
    requires td_inv(self), td_inv(rhs), -LIM() <= td_ns(self) + td_ns(rhs) <= LIM(),
    ensures td_inv(r), td_ns(r) == td_ns(self) + td_ns(rhs),
{
        self.checked_add(&rhs).expect("`TimeDelta + TimeDelta` overflowed")
    }

fn Sub__sub(self, rhs: TimeDelta) -> (r: TimeDelta)
    requires td_inv(self), td_inv(rhs), -LIM() <= td_ns(self) - td_ns(rhs) <= LIM(),
    ensures td_inv(r), td_ns(r) == td_ns(self) - td_ns(rhs),
{
        self.checked_sub(&rhs).expect("`TimeDelta - TimeDelta` overflowed")
    }

fn Mul__mul(self, rhs: i32) -> (r: TimeDelta)
    requires td_inv(self), -LIM() <= td_ns(self) * rhs as int <= LIM(),
    ensures td_inv(r), td_ns(r) == td_ns(self) * rhs as int,
{
        self.checked_mul(rhs).expect("`TimeDelta * i32` overflowed")
    }

fn Div__div(self, rhs: i32) -> (r: TimeDelta)
    requires td_inv(self), rhs != 0,
    ensures td_inv(r), iabs(td_ns(r) * rhs as int - td_ns(self)) < 2 * iabs(rhs as int),
{
        self.checked_div(rhs).expect("`i32` is zero")
    }

}

} // verus!
fn main() {}

