"""The single table of function contracts (DESIGN.md 2.3 "ledger").

key   : 'Type::method' (or free fn name)
value : requires / ensures (Verus text over the vocabulary of specs/prelude.py),
        by = who discharges it: 'verus:<unit>' | 'kani:<harness>[,<harness>]' | 'trusted:<reason>'
A unit that *assumes* a contract gets an external_body stub generated from exactly this text, and the
check of a property runs the discharging obligation of every contract it assumes (transitively).
"""

C = {}


def c(key, by, requires='', ensures='', **kw):
    C[key] = dict(requires=requires, ensures=ensures, by=by, **kw)


def td_exact(expr, arg):
    return ("r.is_some() <==> -LIM() <= {e} <= LIM(), "
            "r.is_some() ==> td_inv(r.unwrap()) && td_ns(r.unwrap()) == {e}").format(e=expr)


# ------------------------------------------------------------------------------------------------
# C06  TimeDelta  (src/time_delta.rs)
U = 'verus:timedelta'
c('TimeDelta::new', U, ensures="r.is_some() <==> (nanos < 1_000_000_000 && -LIM() <= secs as int * 1_000_000_000 + nanos as int <= LIM()), "
  "r.is_some() ==> td_inv(r.unwrap()) && td_ns(r.unwrap()) == secs as int * 1_000_000_000 + nanos as int && r.unwrap().secs == secs && r.unwrap().nanos == nanos as i32")
c('TimeDelta::try_weeks', U, ensures=td_exact("weeks as int * 604_800_000_000_000", 'weeks'))
c('TimeDelta::try_days', U, ensures=td_exact("days as int * 86_400_000_000_000", 'days'))
c('TimeDelta::try_hours', U, ensures=td_exact("hours as int * 3_600_000_000_000", 'hours'))
c('TimeDelta::try_minutes', U, ensures=td_exact("minutes as int * 60_000_000_000", 'minutes'))
c('TimeDelta::try_seconds', U, ensures=td_exact("seconds as int * 1_000_000_000", 'seconds'))
c('TimeDelta::try_milliseconds', U, ensures=td_exact("milliseconds as int * 1_000_000", 'milliseconds'))
for unit, mul in (('weeks', '604_800_000_000_000'), ('days', '86_400_000_000_000'), ('hours', '3_600_000_000_000'),
                  ('minutes', '60_000_000_000'), ('seconds', '1_000_000_000'), ('milliseconds', '1_000_000')):
    # the panicking forms are documented to panic exactly when out of range: requires = in range
    c('TimeDelta::' + unit, U, requires="-LIM() <= %s as int * %s <= LIM()" % (unit, mul),
      ensures="td_inv(r), td_ns(r) == %s as int * %s" % (unit, mul))
c('TimeDelta::microseconds', U, ensures="td_inv(r), td_ns(r) == microseconds as int * 1000")
c('TimeDelta::nanoseconds', U, ensures="td_inv(r), td_ns(r) == nanos as int")
for unit, div in (('weeks', '604_800_000_000_000'), ('days', '86_400_000_000_000'), ('hours', '3_600_000_000_000'),
                  ('minutes', '60_000_000_000'), ('seconds', '1_000_000_000'), ('milliseconds', '1_000_000')):
    c('TimeDelta::num_' + unit, U, requires="td_inv(*self)", ensures="r as int == trunc_div(td_ns(*self), %s)" % div)
c('TimeDelta::subsec_nanos', U, requires="td_inv(*self)",
  ensures="r as int == trunc_rem(td_ns(*self), 1_000_000_000), -1_000_000_000 < r < 1_000_000_000, "
          "(td_ns(*self) >= 0 ==> r >= 0) && (td_ns(*self) <= 0 ==> r <= 0)")
c('TimeDelta::subsec_millis', U, requires="td_inv(*self)", ensures="r as int == trunc_div(trunc_rem(td_ns(*self), 1_000_000_000), 1_000_000)")
c('TimeDelta::subsec_micros', U, requires="td_inv(*self)", ensures="r as int == trunc_div(trunc_rem(td_ns(*self), 1_000_000_000), 1_000)")
c('TimeDelta::num_microseconds', U, requires="td_inv(*self)",
  ensures="r.is_some() <==> i64::MIN <= trunc_div(td_ns(*self), 1000) <= i64::MAX, r.is_some() ==> r.unwrap() as int == trunc_div(td_ns(*self), 1000)")
c('TimeDelta::num_nanoseconds', U, requires="td_inv(*self)",
  ensures="r.is_some() <==> i64::MIN <= td_ns(*self) <= i64::MAX, r.is_some() ==> r.unwrap() as int == td_ns(*self)")
c('TimeDelta::checked_add', U, requires="td_inv(*self), td_inv(*rhs)", ensures=td_exact("td_ns(*self) + td_ns(*rhs)", ''))
c('TimeDelta::checked_sub', U, requires="td_inv(*self), td_inv(*rhs)", ensures=td_exact("td_ns(*self) - td_ns(*rhs)", ''))
c('TimeDelta::checked_mul', U, requires="td_inv(*self)", ensures=td_exact("td_ns(*self) * rhs as int", ''))
c('TimeDelta::checked_div', U, requires="td_inv(*self)",
  ensures="r.is_some() <==> rhs != 0, r.is_some() ==> td_inv(r.unwrap()) && "
          "iabs(td_ns(r.unwrap()) * rhs as int - td_ns(*self)) < 2 * iabs(rhs as int)")
c('TimeDelta::abs', U, requires="td_inv(*self)", ensures="td_inv(r), td_ns(r) == iabs(td_ns(*self))")
c('TimeDelta::neg', U, requires="td_inv(self)", ensures="td_inv(r), td_ns(r) == -td_ns(self)")
c('TimeDelta::Neg__neg', U, requires="td_inv(self)", ensures="td_inv(r), td_ns(r) == -td_ns(self)")
c('TimeDelta::zero', U, ensures="td_inv(r), td_ns(r) == 0")
c('TimeDelta::is_zero', U, requires="td_inv(*self)", ensures="r == (td_ns(*self) == 0)")
c('TimeDelta::from_std', U,
  ensures="r.is_ok() <==> dur_secs(duration) as int * 1_000_000_000 + dur_nanos(duration) as int <= LIM(), "
          "r.is_ok() ==> td_inv(r->Ok_0) && td_ns(r->Ok_0) == dur_secs(duration) as int * 1_000_000_000 + dur_nanos(duration) as int")
c('TimeDelta::to_std', U, requires="td_inv(*self)",
  ensures="r.is_ok() <==> td_ns(*self) >= 0, r.is_ok() ==> dur_secs(r->Ok_0) as int * 1_000_000_000 + dur_nanos(r->Ok_0) as int == td_ns(*self) && dur_nanos(r->Ok_0) < 1_000_000_000")
# operator forms = checked forms + expect (documented to panic on overflow: requires = the checked form succeeds)
c('TimeDelta::Add__add', U, requires="td_inv(self), td_inv(rhs), -LIM() <= td_ns(self) + td_ns(rhs) <= LIM()", ensures="td_inv(r), td_ns(r) == td_ns(self) + td_ns(rhs)")
c('TimeDelta::Sub__sub', U, requires="td_inv(self), td_inv(rhs), -LIM() <= td_ns(self) - td_ns(rhs) <= LIM()", ensures="td_inv(r), td_ns(r) == td_ns(self) - td_ns(rhs)")
c('TimeDelta::Mul__mul', U, requires="td_inv(self), -LIM() <= td_ns(self) * rhs as int <= LIM()", ensures="td_inv(r), td_ns(r) == td_ns(self) * rhs as int")
c('TimeDelta::Div__div', U, requires="td_inv(self), rhs != 0", ensures="td_inv(r), iabs(td_ns(r) * rhs as int - td_ns(self)) < 2 * iabs(rhs as int)")
c('div_mod_floor_64', U, requires="other > 0", ensures="r.0 == this as int / other as int, r.1 == this as int % other as int")

# ------------------------------------------------------------------------------------------------
# C01  packed-date kernel (src/naive/date/mod.rs, src/naive/internals.rs) -- proved by Kani, assumed by the Verus units.
# v_yof(d) is the abstract view "the i32 stored in the date"; flags400(r) is "the YEAR_TO_FLAGS cell r".
K = 'kani:vk_date_bits'
c('NaiveDate::yof', K, ensures="r as int == v_yof(*self)")
c('NaiveDate::year', K, ensures="r as int == v_year(*self)")
c('NaiveDate::ordinal', K, ensures="r as int == v_ord(*self)")
c('NaiveDate::year_flags', K, ensures="r.0 as int == v_flags(*self)")
c('NaiveDate::leap_year', 'kani:vk_date_accessors', requires="dwf(*self)", ensures="r == is_leap(v_year(*self))")
c('NaiveDate::from_yof', K, requires="1 <= (yof as int % 8192) / 16 <= 366, yof as int % 8 != 0", ensures="v_yof(r) == yof as int")
c('YearFlags::from_year_mod_400', 'kani:vk_year_flags_table', requires="0 <= year < 400", ensures="r.0 as int == flags400(year as int)")
c('YearFlags::from_year', 'kani:vk_year_flags_table', ensures="r.0 as int == flags_of(year as int)")
c('NaiveDate::from_ordinal_and_flags', 'kani:vk_date_from_ordinal_and_flags',
  requires="flags.0 as int == flags_of(year as int)",
  ensures="r.is_some() <==> (MIN_Y() <= year <= MAX_Y() && 1 <= ordinal <= year_len(year as int)), "
          "r.is_some() ==> v_year(r.unwrap()) == year && v_ord(r.unwrap()) == ordinal && dwf(r.unwrap())")
c('NaiveDate::from_yo_opt', 'kani:vk_date_from_yo_opt',
  ensures="r.is_some() <==> (MIN_Y() <= year <= MAX_Y() && 1 <= ordinal <= year_len(year as int)), "
          "r.is_some() ==> v_year(r.unwrap()) == year && v_ord(r.unwrap()) == ordinal && dwf(r.unwrap())")
c('NaiveDate::from_ymd_opt', 'kani:vk_date_from_ymd_opt',
  ensures="r.is_some() <==> (MIN_Y() <= year <= MAX_Y() && ymd_valid(year as int, month as int, day as int)), "
          "r.is_some() ==> v_year(r.unwrap()) == year && v_ord(r.unwrap()) == ordinal_of(year as int, month as int, day as int) && dwf(r.unwrap())")
c('NaiveDate::month', 'kani:vk_date_accessors', requires="dwf(*self)",
  ensures="1 <= r <= 12, cum_days(v_year(*self), r as int) < v_ord(*self) <= cum_days(v_year(*self), r as int) + month_len(v_year(*self), r as int)")
c('NaiveDate::day', 'kani:vk_date_accessors', requires="dwf(*self)",
  ensures="exists|m: int| 1 <= m <= 12 && 1 <= r <= month_len(v_year(*self), m) && #[trigger] cum_days(v_year(*self), m) + r as int == v_ord(*self)")
c('flags400_facts', 'kani:vk_year_flags_table', requires="0 <= ym < 400",
  ensures="0 <= flags400(ym) < 16, flags400(ym) % 8 != 0, (flags400(ym) / 8 == 0) == is_leap(ym)")

# ------------------------------------------------------------------------------------------------
# C01/C03  day-count arithmetic of NaiveDate -- proved by Verus (units/date.py)
U = 'verus:date'
RANGE = "DN_MIN() <= {e} <= DN_MAX()"
def date_move(expr):
    return ("r.is_some() <==> " + RANGE.format(e=expr) + ", r.is_some() ==> dwf(r.unwrap()) && dn(r.unwrap()) == " + expr)
c('div_mod_floor', U, requires="div > 0", ensures="r.0 == val as int / div as int, r.1 == val as int % div as int")
c('yo_to_cycle', U, requires="year_mod_400 < 400, 1 <= ordinal <= 366", ensures="r as int == cyc(year_mod_400 as int, ordinal as int)")
c('cycle_to_yo', U, requires="cycle < 146097",
  ensures="r.0 < 400, 1 <= r.1 <= year_len(r.0 as int), cyc(r.0 as int, r.1 as int) == cycle as int")
c('NaiveDate::from_num_days_from_ce_opt', U, ensures=date_move("days as int"))
c('NaiveDate::from_num_days_from_ce', U, requires=RANGE.format(e="days as int"), ensures="dwf(r), dn(r) == days as int")     # deprecated panicking form
c('NaiveDate::num_days_from_ce', U, requires="dwf(*self)", ensures="r as int == dn(*self)")
c('NaiveDate::Datelike__num_days_from_ce', U, requires="dwf(*self)", ensures="r as int == dn(*self)")
c('NaiveDate::add_days', U, requires="dwf(self)", ensures=date_move("dn(self) + days as int"))
c('NaiveDate::checked_add_days', U, requires="dwf(self)", ensures=date_move("dn(self) + days.0 as int"))
c('NaiveDate::checked_sub_days', U, requires="dwf(self)", ensures=date_move("dn(self) - days.0 as int"))
c('NaiveDate::checked_add_signed', U, requires="dwf(self), td_inv(rhs)", ensures=date_move("dn(self) + trunc_div(td_ns(rhs), 86_400_000_000_000)"))
c('NaiveDate::checked_sub_signed', U, requires="dwf(self), td_inv(rhs)", ensures=date_move("dn(self) - trunc_div(td_ns(rhs), 86_400_000_000_000)"))
def date_op(expr, pre=''):
    return dict(requires="dwf(self)%s, %s" % (pre, RANGE.format(e=expr)), ensures="dwf(r), dn(r) == " + expr)
c('NaiveDate::Add__add', U, **date_op("dn(self) + trunc_div(td_ns(rhs), 86_400_000_000_000)", ", td_inv(rhs)"))
c('NaiveDate::Sub__sub', U, **date_op("dn(self) - trunc_div(td_ns(rhs), 86_400_000_000_000)", ", td_inv(rhs)"))
c('NaiveDate::Add_Days__add', U, **date_op("dn(self) + days.0 as int"))
c('NaiveDate::Sub_Days__sub', U, **date_op("dn(self) - days.0 as int"))
c('NaiveDate::Sub_NaiveDate__sub', U, requires="dwf(self), dwf(rhs)", ensures="td_inv(r), td_ns(r) == (dn(self) - dn(rhs)) * 86_400_000_000_000")
c('NaiveDate::AddAssign__add_assign', U, requires="dwf(*old(self)), td_inv(rhs), " + RANGE.format(e="dn(*old(self)) + trunc_div(td_ns(rhs), 86_400_000_000_000)"),
  ensures="dwf(*final(self)), dn(*final(self)) == dn(*old(self)) + trunc_div(td_ns(rhs), 86_400_000_000_000)")
c('NaiveDate::SubAssign__sub_assign', U, requires="dwf(*old(self)), td_inv(rhs), " + RANGE.format(e="dn(*old(self)) - trunc_div(td_ns(rhs), 86_400_000_000_000)"),
  ensures="dwf(*final(self)), dn(*final(self)) == dn(*old(self)) - trunc_div(td_ns(rhs), 86_400_000_000_000)")
c('NaiveDate::signed_duration_since', U, requires="dwf(self), dwf(rhs)",
  ensures="td_inv(r), td_ns(r) == (dn(self) - dn(rhs)) * 86_400_000_000_000")

# ------------------------------------------------------------------------------------------------
# C07  NaiveTime (src/naive/time/mod.rs) -- proved by Verus (units/time.py)
U = 'verus:time'
def hms_ctor(nano_expr, extra=''):
    return ("r.is_some() <==> (hms_ok(hour as int, min as int, sec as int, %s)%s), "
            "r.is_some() ==> twf(r.unwrap()) && r.unwrap().secs as int == hour as int * 3600 + min as int * 60 + sec as int && r.unwrap().frac as int == %s") % (nano_expr, extra, nano_expr)
c('NaiveTime::from_hms_opt', U, ensures=hms_ctor("0int"))
c('NaiveTime::from_hms_milli_opt', U, ensures=hms_ctor("milli as int * 1_000_000"))
c('NaiveTime::from_hms_micro_opt', U, ensures=hms_ctor("micro as int * 1_000"))
c('NaiveTime::from_hms_nano_opt', U, ensures=hms_ctor("nano as int"))
c('NaiveTime::from_num_seconds_from_midnight_opt', U,
  ensures="r.is_some() <==> (secs < 86400 && (nano < 1_000_000_000 || (nano < 2_000_000_000 && secs % 60 == 59))), "
          "r.is_some() ==> twf(r.unwrap()) && r.unwrap().secs == secs && r.unwrap().frac == nano")
# deprecated panicking constructors: documented to panic on invalid input = precondition; otherwise the value of the checked form
def hms_pan(nano_expr, extra=''):
    return dict(requires="hms_ok(hour as int, min as int, sec as int, %s)%s" % (nano_expr, extra),
                ensures="twf(r) && r.secs as int == hour as int * 3600 + min as int * 60 + sec as int && r.frac as int == %s" % nano_expr)
c('NaiveTime::from_hms', U, **hms_pan("0int"))
c('NaiveTime::from_hms_milli', U, **hms_pan("milli as int * 1_000_000"))
c('NaiveTime::from_hms_micro', U, **hms_pan("micro as int * 1_000"))
c('NaiveTime::from_hms_nano', U, **hms_pan("nano as int"))
c('NaiveTime::from_num_seconds_from_midnight', U, requires="secs < 86400 && (nano < 1_000_000_000 || (nano < 2_000_000_000 && secs % 60 == 59))", ensures="twf(r) && r.secs == secs && r.frac == nano")
c('NaiveTime::hms', U, requires="twf(*self)", ensures="r.0 == self.secs / 3600, r.1 == (self.secs / 60) % 60, r.2 == self.secs % 60, r.0 < 24, r.1 < 60, r.2 < 60, r.0 * 3600 + r.1 * 60 + r.2 == self.secs")
c('NaiveTime::num_seconds_from_midnight', U, ensures="r == self.secs")
c('NaiveTime::nanosecond', U, ensures="r == self.frac")
c('NaiveTime::Timelike__hour', U, requires="twf(*self)", ensures="r == self.secs / 3600, r < 24")
c('NaiveTime::Timelike__minute', U, requires="twf(*self)", ensures="r == (self.secs / 60) % 60")
c('NaiveTime::Timelike__second', U, requires="twf(*self)", ensures="r == self.secs % 60")
c('NaiveTime::Timelike__nanosecond', U, ensures="r == self.frac")
c('NaiveTime::Timelike__num_seconds_from_midnight', U, ensures="r == self.secs")
c('NaiveTime::Timelike__hour12', U, requires="twf(*self)",
  ensures="r.0 == (self.secs / 3600 >= 12), 1 <= r.1 <= 12, r.1 % 12 == (self.secs / 3600) % 12")
c('NaiveTime::Timelike__num_seconds_from_midnight_default', U, requires="twf(*self)", ensures="r == self.secs")
# single-field replacement: exactly the named field changes
c('NaiveTime::Timelike__with_hour', U, requires="twf(*self)",
  ensures="r.is_some() <==> hour < 24, r.is_some() ==> twf(r.unwrap()) && r.unwrap().frac == self.frac && r.unwrap().secs / 3600 == hour && r.unwrap().secs % 3600 == self.secs % 3600")
c('NaiveTime::Timelike__with_minute', U, requires="twf(*self)",
  ensures="r.is_some() <==> min < 60, r.is_some() ==> twf(r.unwrap()) && r.unwrap().frac == self.frac && r.unwrap().secs / 3600 == self.secs / 3600 && (r.unwrap().secs / 60) % 60 == min && r.unwrap().secs % 60 == self.secs % 60")
c('NaiveTime::Timelike__with_second', U, requires="twf(*self)",
  ensures="r.is_some() <==> sec < 60, r.is_some() ==> twf(r.unwrap()) && r.unwrap().frac == self.frac && r.unwrap().secs / 60 == self.secs / 60 && r.unwrap().secs % 60 == sec")
c('NaiveTime::Timelike__with_nanosecond', U, requires="twf(*self)",
  ensures="r.is_some() <==> nano < 2_000_000_000, r.is_some() ==> twf(r.unwrap()) && r.unwrap().frac == nano && r.unwrap().secs == self.secs")
c('NaiveTime::overflowing_add_signed', U, requires="twf(*self), td_inv(rhs)", ensures="add_post(*self, td_ns(rhs), r.0, r.1 as int)")
c('NaiveTime::overflowing_sub_signed', U, requires="twf(*self), td_inv(rhs)", ensures="add_post(*self, -td_ns(rhs), r.0, -(r.1 as int))")
c('NaiveTime::signed_duration_since', U, requires="twf(self), twf(rhs)",
  ensures="td_inv(r), td_ns(r) == jpos(self, rhs) - jpos(rhs, self), -86_401_000_000_000 < td_ns(r) < 86_401_000_000_000")
c('NaiveTime::overflowing_add_offset', U, requires="twf(*self), offwf(offset)",
  ensures="twf(r.0), r.0.frac == self.frac, -1 <= r.1 <= 1, r.0.secs as int + r.1 as int * 86400 == self.secs as int + offset.local_minus_utc as int")
c('NaiveTime::overflowing_sub_offset', U, requires="twf(*self), offwf(offset)",
  ensures="twf(r.0), r.0.frac == self.frac, -1 <= r.1 <= 1, r.0.secs as int + r.1 as int * 86400 == self.secs as int - offset.local_minus_utc as int")
c('NaiveTime::Add__add', U, requires="twf(self), td_inv(rhs)", ensures="twf(r), (r.secs as int, r.frac as int) == add_time(self, td_ns(rhs))")
c('NaiveTime::Sub__sub', U, requires="twf(self), td_inv(rhs)", ensures="twf(r), (r.secs as int, r.frac as int) == add_time(self, -td_ns(rhs))")
c('NaiveTime::AddAssign__add_assign', U, requires="twf(*old(self)), td_inv(rhs)", ensures="twf(*final(self)), (final(self).secs as int, final(self).frac as int) == add_time(*old(self), td_ns(rhs))")
c('NaiveTime::SubAssign__sub_assign', U, requires="twf(*old(self)), td_inv(rhs)", ensures="twf(*final(self)), (final(self).secs as int, final(self).frac as int) == add_time(*old(self), -td_ns(rhs))")
c('NaiveTime::Sub_NaiveTime__sub', U, requires="twf(self), twf(rhs)", ensures="td_inv(r), td_ns(r) == jpos(self, rhs) - jpos(rhs, self)")
c('FixedOffset::local_minus_utc', 'verus:time', ensures="r == self.local_minus_utc")
c('FixedOffset::utc_minus_local', 'verus:time', requires="offwf(*self)", ensures="r == -self.local_minus_utc")

# ------------------------------------------------------------------------------------------------
# C01 kernel in day-number form (Kani proves the (year, ordinal) form; lemma succ_pred_dn_form in units/date.py links it)
c('NaiveDate::succ_opt', 'kani:vk_date_succ_pred+verus:date', requires="dwf(*self)",
  ensures="r.is_some() <==> dn(*self) < DN_MAX(), r.is_some() ==> dwf(r.unwrap()) && dn(r.unwrap()) == dn(*self) + 1")
c('NaiveDate::pred_opt', 'kani:vk_date_succ_pred+verus:date', requires="dwf(*self)",
  ensures="r.is_some() <==> dn(*self) > DN_MIN(), r.is_some() ==> dwf(r.unwrap()) && dn(r.unwrap()) == dn(*self) - 1")
c('NaiveDate::BEFORE_MIN', 'kani:vk_date_consts+verus:date', ensures="dn(r) == DN_MIN() - 1, v_year(r) == MIN_Y() - 1")
c('NaiveDate::AFTER_MAX', 'kani:vk_date_consts+verus:date', ensures="dn(r) == DN_MAX() + 1, v_year(r) == MAX_Y() + 1")
c('NaiveDate::and_time', 'verus:datetime', ensures="r.date == *self, r.time == time")

# ------------------------------------------------------------------------------------------------
# C03/C04/C07  NaiveDateTime (src/naive/datetime/mod.rs) -- Verus (units/datetime.py)
U = 'verus:datetime'
c('NaiveDateTime::new', U, ensures="r.date == date, r.time == time")
c('NaiveDateTime::date', U, ensures="r == self.date")
c('NaiveDateTime::time', U, ensures="r == self.time")
c('NaiveDateTime::and_utc', U, ensures="r.datetime == *self")
c('NaiveDateTime::checked_add_signed', U, requires="dtwf(self), td_inv(rhs)", ensures="dt_add_post(self, td_ns(rhs), r)")
c('NaiveDateTime::checked_sub_signed', U, requires="dtwf(self), td_inv(rhs)", ensures="dt_add_post(self, -td_ns(rhs), r)")
c('NaiveDateTime::signed_duration_since', U, requires="dtwf(self), dtwf(rhs)",
  ensures="td_inv(r), td_ns(r) == (dn(self.date) - dn(rhs.date)) * DAYNS() + jpos(self.time, rhs.time) - jpos(rhs.time, self.time)")
c('NaiveDateTime::checked_add_days', U, requires="dtwf(self)",
  ensures="r.is_some() <==> DN_MIN() <= dn(self.date) + days.0 as int <= DN_MAX(), r.is_some() ==> dtwf(r.unwrap()) && r.unwrap().time == self.time && dn(r.unwrap().date) == dn(self.date) + days.0 as int")
c('NaiveDateTime::checked_sub_days', U, requires="dtwf(self)",
  ensures="r.is_some() <==> DN_MIN() <= dn(self.date) - days.0 as int <= DN_MAX(), r.is_some() ==> dtwf(r.unwrap()) && r.unwrap().time == self.time && dn(r.unwrap().date) == dn(self.date) - days.0 as int")
def off_shift(sign):
    e = "(dn(self.date) * 86400 + self.time.secs as int %s rhs.local_minus_utc as int)" % sign
    return ("r.is_some() <==> DN_MIN() * 86400 <= %s < (DN_MAX() + 1) * 86400, "
            "r.is_some() ==> dtwf(r.unwrap()) && shifted(self, %srhs.local_minus_utc as int, r.unwrap())") % (e, '' if sign == '+' else '-')
c('NaiveDateTime::checked_add_offset', U, requires="dtwf(self), offwf(rhs)", ensures=off_shift('+'))
c('NaiveDateTime::checked_sub_offset', U, requires="dtwf(self), offwf(rhs)", ensures=off_shift('-'))
# always exact: the sentinels BEFORE_MIN / AFTER_MAX are exactly one day outside the range (C04 headroom)
c('NaiveDateTime::overflowing_add_offset', U, requires="dtwf(self), offwf(rhs)",
  ensures="shifted(self, rhs.local_minus_utc as int, r), DN_MIN() - 1 <= dn(r.date) <= DN_MAX() + 1, (DN_MIN() <= dn(r.date) <= DN_MAX()) ==> dwf(r.date)")
c('NaiveDateTime::overflowing_sub_offset', U, requires="dtwf(self), offwf(rhs)",
  ensures="shifted(self, -rhs.local_minus_utc as int, r), DN_MIN() - 1 <= dn(r.date) <= DN_MAX() + 1, (DN_MIN() <= dn(r.date) <= DN_MAX()) ==> dwf(r.date)")
c('NaiveDateTime::Add__add', U, requires="dtwf(self), td_inv(rhs), (add_model(self.time, td_ns(rhs)).0 || DN_MIN() * DAYNS() <= dn(self.date) * DAYNS() + add_model(self.time, td_ns(rhs)).1 < (DN_MAX() + 1) * DAYNS())",
  ensures="dt_add_post(self, td_ns(rhs), Some(r))")
c('NaiveDateTime::Sub__sub', U, requires="dtwf(self), td_inv(rhs), (add_model(self.time, -td_ns(rhs)).0 || DN_MIN() * DAYNS() <= dn(self.date) * DAYNS() + add_model(self.time, -td_ns(rhs)).1 < (DN_MAX() + 1) * DAYNS())",
  ensures="dt_add_post(self, -td_ns(rhs), Some(r))")
c('NaiveDateTime::AddAssign__add_assign', U, requires="dtwf(*old(self)), td_inv(rhs), (add_model(old(self).time, td_ns(rhs)).0 || DN_MIN() * DAYNS() <= dn(old(self).date) * DAYNS() + add_model(old(self).time, td_ns(rhs)).1 < (DN_MAX() + 1) * DAYNS())",
  ensures="dt_add_post(*old(self), td_ns(rhs), Some(*final(self)))")
c('NaiveDateTime::SubAssign__sub_assign', U, requires="dtwf(*old(self)), td_inv(rhs), (add_model(old(self).time, -td_ns(rhs)).0 || DN_MIN() * DAYNS() <= dn(old(self).date) * DAYNS() + add_model(old(self).time, -td_ns(rhs)).1 < (DN_MAX() + 1) * DAYNS())",
  ensures="dt_add_post(*old(self), -td_ns(rhs), Some(*final(self)))")
c('NaiveDateTime::Sub_NaiveDateTime__sub', U, requires="dtwf(self), dtwf(rhs)",
  ensures="td_inv(r), td_ns(r) == (dn(self.date) - dn(rhs.date)) * DAYNS() + jpos(self.time, rhs.time) - jpos(rhs.time, self.time)")

# ------------------------------------------------------------------------------------------------
# C02  DateTime<Utc> timestamps (src/datetime/mod.rs) -- Verus (units/datetime.py)
TS = "unix_secs(self.datetime)"
c('DateTime::from_naive_utc_and_offset', U, ensures="r.datetime == datetime, r.offset == offset")
c('DateTime::naive_utc', U, ensures="r == self.datetime")
c('DateTime::timestamp', U, requires="dtwf(self.datetime)", ensures="r as int == " + TS)
c('DateTime::timestamp_subsec_nanos', U, ensures="r == self.datetime.time.frac")
c('DateTime::timestamp_subsec_millis', U, ensures="r as int == self.datetime.time.frac as int / 1_000_000")
c('DateTime::timestamp_subsec_micros', U, ensures="r as int == self.datetime.time.frac as int / 1_000")
c('DateTime::timestamp_millis', U, requires="dtwf(self.datetime)", ensures="r as int == %s * 1000 + self.datetime.time.frac as int / 1_000_000" % TS)
c('DateTime::timestamp_micros', U, requires="dtwf(self.datetime)", ensures="r as int == %s * 1_000_000 + self.datetime.time.frac as int / 1_000" % TS)
c('DateTime::timestamp_nanos_opt', U, requires="dtwf(self.datetime)",
  ensures="({ let v = %s * 1_000_000_000 + self.datetime.time.frac as int; (r.is_some() <==> i64::MIN <= v <= i64::MAX) && (r.is_some() ==> r.unwrap() as int == v) })" % TS)
TS_OK = "(DN_MIN() <= secs as int / 86400 + UNIX_DAY() <= DN_MAX() && (nsecs < 1_000_000_000 || (nsecs < 2_000_000_000 && (secs as int % 86400) % 60 == 59)))"
c('DateTime::from_timestamp', U,
  ensures="r.is_some() <==> " + TS_OK + ", r.is_some() ==> dtwf(r.unwrap().datetime) && dn(r.unwrap().datetime.date) == secs as int / 86400 + UNIX_DAY() "
          "&& r.unwrap().datetime.time.secs as int == secs as int % 86400 && r.unwrap().datetime.time.frac == nsecs && unix_secs(r.unwrap().datetime) == secs as int")
c('DateTime::from_timestamp_millis', U,
  ensures="r.is_some() <==> (DN_MIN() <= (millis as int / 1000) / 86400 + UNIX_DAY() <= DN_MAX()), "
          "r.is_some() ==> dtwf(r.unwrap().datetime) && unix_secs(r.unwrap().datetime) * 1000 + r.unwrap().datetime.time.frac as int / 1_000_000 == millis as int "
          "&& r.unwrap().datetime.time.frac as int % 1_000_000 == 0 && r.unwrap().datetime.time.frac < 1_000_000_000")
c('DateTime::from_timestamp_micros', U,
  ensures="r.is_some() <==> (DN_MIN() <= (micros as int / 1_000_000) / 86400 + UNIX_DAY() <= DN_MAX()), "
          "r.is_some() ==> dtwf(r.unwrap().datetime) && unix_secs(r.unwrap().datetime) * 1_000_000 + r.unwrap().datetime.time.frac as int / 1_000 == micros as int "
          "&& r.unwrap().datetime.time.frac as int % 1_000 == 0 && r.unwrap().datetime.time.frac < 1_000_000_000")
c('DateTime::from_timestamp_nanos', U,
  ensures="dtwf(r.datetime) && unix_secs(r.datetime) * 1_000_000_000 + r.datetime.time.frac as int == nanos as int && r.datetime.time.frac < 1_000_000_000")

# deprecated NaiveDateTime forms (two of them redo the Euclidean split themselves): same contracts on the naive value
for _k in ('from_timestamp_millis', 'from_timestamp_micros', 'from_timestamp'):
    _n = {'from_timestamp': 'from_timestamp_opt'}.get(_k, _k)
    c('NaiveDateTime::' + _n, U, ensures=C['DateTime::' + _k]['ensures'].replace('r.unwrap().datetime', 'r.unwrap()'))
c('NaiveDateTime::from_timestamp_nanos', U, ensures="r.is_some(), " + C['DateTime::from_timestamp_nanos']['ensures'].replace('r.datetime', 'r.unwrap()'))
for _k in ('timestamp', 'timestamp_millis', 'timestamp_micros', 'timestamp_nanos_opt', 'timestamp_subsec_nanos', 'timestamp_subsec_millis', 'timestamp_subsec_micros'):
    c('NaiveDateTime::' + _k, U, requires=C['DateTime::' + _k].get('requires', '').replace('self.datetime', '*self'), ensures=C['DateTime::' + _k]['ensures'].replace('self.datetime', '(*self)'))
# zone-generic wrappers (provided methods of TimeZone; their real default bodies are proved as free generic functions):
# the UTC field of the result is exactly what the DateTime<Utc> constructor yields, whatever the zone
def tz_lift(ens):
    # r: MappedLocalTime<DateTime<Tz>>  from  r0: Option<DateTime<Utc>> contract text
    some = ens.split(', r.is_some() ==> ')
    cond = some[0].replace('r.is_some() <==> ', '')
    body = some[1].replace('r.unwrap()', '(r->Single_0)')
    return "!(r is Ambiguous), (r is Single) <==> %s, (r is Single) ==> %s" % (cond, body)
for _k in ('from_timestamp', 'from_timestamp_millis', 'from_timestamp_micros'):
    _name = {'from_timestamp': 'timestamp_opt', 'from_timestamp_millis': 'timestamp_millis_opt', 'from_timestamp_micros': 'timestamp_micros'}[_k]
    c('TimeZone::' + _name, U, ensures=tz_lift(C['DateTime::' + _k]['ensures']))
c('TimeZone::timestamp_nanos', U, ensures=C['DateTime::from_timestamp_nanos']['ensures'])

# ------------------------------------------------------------------------------------------------
# C03  day / week iterators (src/naive/date/mod.rs) -- Verus (units/iters.py)
U = 'verus:iters'
c('NaiveDate::MAX', 'kani:vk_date_consts+verus:date', ensures="dwf(r), dn(r) == DN_MAX()")
c('NaiveDate::MIN', 'kani:vk_date_consts+verus:date', ensures="dwf(r), dn(r) == DN_MIN()")
c('Days::new', U, ensures="r.0 == num")
c('NaiveDate::iter_days', U, ensures="r.value == *self")
c('NaiveDate::iter_weeks', U, ensures="r.value == *self")
def it_step(k, sign):
    lim = "dn(old(self).value) + %d <= DN_MAX()" % k if sign == '+' else "dn(old(self).value) - %d >= DN_MIN()" % k
    return ("r.is_some() <==> %s, "
            "r.is_some() ==> r.unwrap() == old(self).value && dwf(final(self).value) && dn(final(self).value) == dn(old(self).value) %s %d, "
            "r.is_none() ==> final(self).value == old(self).value") % (lim, sign, k)
c('NaiveDateDaysIterator::Iterator__next', U, requires="dwf(old(self).value)", ensures=it_step(1, '+'))
c('NaiveDateDaysIterator::DoubleEndedIterator__next_back', U, requires="dwf(old(self).value)", ensures=it_step(1, '-'))
c('NaiveDateDaysIterator::Iterator__size_hint', U, requires="dwf(self.value)",
  ensures="r.0 as int == DN_MAX() - dn(self.value), r.1 == Some(r.0)")
c('NaiveDateWeeksIterator::Iterator__next', U, requires="dwf(old(self).value)", ensures=it_step(7, '+'))
c('NaiveDateWeeksIterator::DoubleEndedIterator__next_back', U, requires="dwf(old(self).value)", ensures=it_step(7, '-'))
c('NaiveDateWeeksIterator::Iterator__size_hint', U, requires="dwf(self.value)",
  ensures="r.0 as int == (DN_MAX() - dn(self.value)) / 7, r.1 == Some(r.0)")

# ------------------------------------------------------------------------------------------------
# C17  rounding (src/round.rs, generic functions monomorphised at T := NaiveDateTime) -- Verus (units/round.py)
U = 'verus:round'
c('NaiveDateTime::Timelike__nanosecond', 'verus:round', ensures="r == self.time.frac")
def rounding(kind):
    target = {'trunc': "floor_mult(s, p)", 'up': "ceil_mult(s, p)",
              'round': "(if ceil_mult(s, p) - s <= s - floor_mult(s, p) { ceil_mult(s, p) } else { floor_mult(s, p) })"}[kind]
    return ("({ let s = stamp(naive); let p = td_ns(duration);"
            " ((p <= 0 || p > i64::MAX) ==> r == Err::<NaiveDateTime, RoundingError>(RoundingError::DurationExceedsLimit))"
            " && ((0 < p <= i64::MAX && !(i64::MIN <= s <= i64::MAX)) ==> r == Err::<NaiveDateTime, RoundingError>(RoundingError::TimestampExceedsLimit))"
            " && ((0 < p <= i64::MAX && i64::MIN <= s <= i64::MAX) ==> r is Ok)"
            " && ((r is Ok && nonleap(naive.time)) ==> dtwf(r->Ok_0) && nonleap((r->Ok_0).time) && stamp(r->Ok_0) == %s) })") % target
RREQ = "dtwf(naive), original == naive, td_inv(duration)"
c('duration_trunc', U, requires=RREQ, ensures=rounding('trunc'))
c('duration_round_up', U, requires=RREQ, ensures=rounding('up'))
c('duration_round', U, requires=RREQ, ensures=rounding('round'))
c('NaiveDateTime::DurationRound__duration_trunc', U, requires="dtwf(self), td_inv(duration)", ensures=rounding('trunc').replace('naive', 'self'))
c('NaiveDateTime::DurationRound__duration_round_up', U, requires="dtwf(self), td_inv(duration)", ensures=rounding('up').replace('naive', 'self'))
c('NaiveDateTime::DurationRound__duration_round', U, requires="dtwf(self), td_inv(duration)", ensures=rounding('round').replace('naive', 'self'))
def rounding_z(kind):
    target = {'trunc': "floor_mult(s, p)", 'up': "ceil_mult(s, p)",
              'round': "(if ceil_mult(s, p) - s <= s - floor_mult(s, p) { ceil_mult(s, p) } else { floor_mult(s, p) })"}[kind]
    return ("({ let s = stamp(naive); let p = td_ns(duration);"
            " ((p <= 0 || p > i64::MAX) ==> r == Err::<DateTime<Tz>, RoundingError>(RoundingError::DurationExceedsLimit))"
            " && ((0 < p <= i64::MAX && !(i64::MIN <= s <= i64::MAX)) ==> r == Err::<DateTime<Tz>, RoundingError>(RoundingError::TimestampExceedsLimit))"
            " && ((0 < p <= i64::MAX && i64::MIN <= s <= i64::MAX) ==> r is Ok)"
            # the instant moves by exactly the distance between the wall-clock stamp and its rounded value
            " && ((r is Ok && nonleap(naive.time)) ==> dtwf((r->Ok_0).datetime) && nonleap((r->Ok_0).datetime.time) && stamp((r->Ok_0).datetime) - stamp(original.datetime) == %s - s) })") % target
# T := DateTime<Tz>: `naive` is the wall-clock reading of `original` (same sub-second field, less than a day apart)
RREQ_Z = "dtwf(naive), dtwf(original.datetime), td_inv(duration), naive.time.frac == original.datetime.time.frac, -86400 < wall_off(original.datetime, naive) < 86400"
c('duration_trunc_zoned', U, requires=RREQ_Z, ensures=rounding_z('trunc'))
c('duration_round_up_zoned', U, requires=RREQ_Z, ensures=rounding_z('up'))
c('duration_round_zoned', U, requires=RREQ_Z, ensures=rounding_z('round'))
def rounding_dt(kind):
    # DurationRound for DateTime<Tz>: stated on the wall-clock stamp = utc stamp + offset; proved for wall-clock readings inside the nominal range
    return rounding_z(kind).replace("let s = stamp(naive);", "let s = stamp(self.datetime) + (self.offset.fix_spec().local_minus_utc as int) * 1_000_000_000;").replace("nonleap(naive.time)", "nonleap(self.datetime.time)").replace("stamp(original.datetime)", "stamp(self.datetime)")
RREQ_DT = "dtwf(self.datetime), td_inv(duration), DN_MIN() * 86400 <= dn(self.datetime.date) * 86400 + self.datetime.time.secs as int + (self.offset.fix_spec().local_minus_utc as int) < (DN_MAX() + 1) * 86400"
c('DateTime::DurationRound__duration_trunc', U, requires=RREQ_DT, ensures=rounding_dt('trunc'))
c('DateTime::DurationRound__duration_round_up', U, requires=RREQ_DT, ensures=rounding_dt('up'))
c('DateTime::DurationRound__duration_round', U, requires=RREQ_DT, ensures=rounding_dt('round'))
c('span_for_digits', U, ensures="r as int == pow10(if digits >= 9 { 0 } else { 9 - digits as int }), 1 <= r <= 1_000_000_000")
SUBREQ = "dtwf(self), nonleap(self.time), DN_MIN() < dn(self.date) < DN_MAX()"
c('NaiveDateTime::SubsecRound__trunc_subsecs', U, requires=SUBREQ,
  ensures="({ let p = pow10(if digits >= 9 { 0 } else { 9 - digits as int }); dtwf(r) && nonleap(r.time) && instant(r) == instant(self) - (self.time.frac as int % p) })")
c('NaiveDateTime::SubsecRound__round_subsecs', U, requires=SUBREQ,
  ensures="({ let p = pow10(if digits >= 9 { 0 } else { 9 - digits as int }); let dd = self.time.frac as int % p; dtwf(r) && nonleap(r.time) && "
          "instant(r) == (if dd == 0 { instant(self) } else if p - dd <= dd { instant(self) + (p - dd) } else { instant(self) - dd }) })")

# ------------------------------------------------------------------------------------------------
# C08  NaiveWeek (src/naive/mod.rs) -- Verus (units/week.py); weekday pieces proved by Kani
c('Weekday::num_days_from_monday', 'kani:vk_weekday_numbering', ensures="r as int == wd_idx(*self)")
c('Weekday::pred', 'kani:vk_weekday_cycle', ensures="wd_idx(r) == (wd_idx(*self) + 6) % 7")
c('Weekday::succ', 'kani:vk_weekday_cycle', ensures="wd_idx(r) == (wd_idx(*self) + 1) % 7")
c('NaiveDate::weekday', 'kani:vk_date_weekday+verus:date', requires="dwf(*self)", ensures="wd_idx(r) == weekday_of(dn(*self))")
U = 'verus:week'
c('NaiveWeek::new', U, ensures="r.date == date, r.start == start")
c('NaiveDate::week', U, ensures="r.date == *self, r.start == start")
WK = "(weekday_of(dn(self.date)) - wd_idx(self.start) + 7) % 7"
c('NaiveWeek::checked_first_day', U, requires="dwf(self.date)",
  ensures="({ let k = %s; 0 <= k <= 6 && (r.is_some() <==> dn(self.date) - k >= DN_MIN()) && (r.is_some() ==> dwf(r.unwrap()) && dn(r.unwrap()) == dn(self.date) - k && weekday_of(dn(r.unwrap())) == wd_idx(self.start)) })" % WK)
c('NaiveWeek::checked_last_day', U, requires="dwf(self.date)",
  ensures="({ let k = %s; (r.is_some() <==> dn(self.date) - k + 6 <= DN_MAX()) && (r.is_some() ==> dwf(r.unwrap()) && dn(r.unwrap()) == dn(self.date) - k + 6) })" % WK)

c('NaiveWeek::first_day', U, requires="dwf(self.date), dn(self.date) - %s >= DN_MIN()" % WK,      # documented to panic when the first day is out of range
  ensures="({ let k = %s; dwf(r) && dn(r) == dn(self.date) - k && weekday_of(dn(r)) == wd_idx(self.start) })" % WK)
c('NaiveWeek::last_day', U, requires="dwf(self.date), dn(self.date) - %s + 6 <= DN_MAX()" % WK,
  ensures="({ let k = %s; dwf(r) && dn(r) == dn(self.date) - k + 6 })" % WK)

# ------------------------------------------------------------------------------------------------
# C05/C16  transition-table lookups (src/offset/local/tz_info/timezone.rs) -- Verus (units/tz.py)
U = 'verus:tz'
c('TimeZoneRef::find_local_time_type_from_local', U,
  requires="tz_wf(self.transitions@, self.local_time_types@), tz_ordered(self.transitions@, self.local_time_types@), *self.extra_rule is None, dtwf(local_time)",
  ensures="from_local_post(self.transitions@, self.local_time_types@, unix_secs(local_time), r), exact_post(self.transitions@, self.local_time_types@, unix_secs(local_time), r)")
c('TimeZoneRef::validate', U,
  ensures="r is Ok ==> tz_wf(self.transitions@, self.local_time_types@)")

# ------------------------------------------------------------------------------------------------
# C05/C16  POSIX TZ rule helpers (src/offset/local/tz_info/rule.rs) -- Verus (units/tzrule.py)
U = 'verus:tzrule'
c('is_leap_year', U, ensures="r == is_leap(year as int)")
c('days_since_unix_epoch', U, requires="1 <= month <= 12, -1000 <= month_day <= 1000",
  ensures="r as int == epoch_day(year as int, month as int, month_day as int)")
c('RuleDay::julian_1', U, ensures="r is Ok <==> 1 <= julian_day_1 <= 365, r is Ok ==> r->Ok_0 == RuleDay::Julian1WithoutLeap(julian_day_1)")
c('RuleDay::julian_0', U, ensures="r is Ok <==> julian_day_0 <= 365, r is Ok ==> r->Ok_0 == RuleDay::Julian0WithLeap(julian_day_0)")
c('RuleDay::month_weekday', U, ensures="r is Ok <==> (1 <= month <= 12 && 1 <= week <= 5 && week_day <= 6), r is Ok ==> r->Ok_0 == (RuleDay::MonthWeekday { month, week, week_day })")
c('RuleDay::transition_date', U, requires="rd_wf(*self)",
  ensures="1 <= r.0 <= 12, 1 <= r.1 <= 32, rd_date_ok(*self, year as int, r.0 as int, r.1 as int)")
c('RuleDay::unix_time', U, requires="rd_wf(*self), -700_000 <= day_time_in_utc <= 700_000",
  ensures="exists|m: int, d: int| 1 <= m <= 12 && 1 <= d <= 32 && #[trigger] rd_date_ok(*self, year as int, m, d) && r as int == epoch_day(year as int, m, d) * 86400 + day_time_in_utc as int, -70_000_000_000_000_000 < r < 70_000_000_000_000_000")
c('AlternateTime::new', U,
  ensures="r is Ok <==> (-604800 < dst_start_time < 604800 && -604800 < dst_end_time < 604800), "
          "r is Ok ==> r->Ok_0.std == std && r->Ok_0.dst == dst && r->Ok_0.dst_start == dst_start && r->Ok_0.dst_start_time == dst_start_time && r->Ok_0.dst_end == dst_end && r->Ok_0.dst_end_time == dst_end_time")
AWF = "rd_wf(self.dst_start) && rd_wf(self.dst_end) && -604800 < self.dst_start_time < 604800 && -604800 < self.dst_end_time < 604800 && -86400 < self.std.ut_offset < 86400 && -86400 < self.dst.ut_offset < 86400"
c('UtcDateTime::from_timespec', U,
  ensures="r is Ok ==> (1 <= r->Ok_0.month <= 12 && 1 <= r->Ok_0.month_day <= month_len(r->Ok_0.year as int, r->Ok_0.month as int) && r->Ok_0.hour < 24 && r->Ok_0.minute < 60 && r->Ok_0.second < 60 "
          "&& epoch_day(r->Ok_0.year as int, r->Ok_0.month as int, r->Ok_0.month_day as int) * 86400 + r->Ok_0.hour * 3600 + r->Ok_0.minute * 60 + r->Ok_0.second == unix_time), "
          "r is Err ==> (unix_time < -67768100567971200 || unix_time >= 67767976233532800)")  # = first second of year i32::MIN / of year i32::MAX+1 (lemma year_range_consts)
c('AlternateTime::find_local_time_type', U, requires=AWF,
  ensures="r is Ok ==> (*r->Ok_0 == self.std || *r->Ok_0 == self.dst)")
c('NaiveDateTime::Datelike__year', 'kani:vk_ndt_accessors,vk_date_bits', ensures="r as int == v_year(self.date)")
c('AlternateTime::find_local_time_type_from_local', U, requires=AWF + " && dtwf(local_time)",
  ensures="r is Ok, (r->Ok_0 is Single ==> (r->Ok_0->Single_0 == self.std || r->Ok_0->Single_0 == self.dst)), "
          "(r->Ok_0 is Ambiguous ==> r->Ok_0->Ambiguous_0.ut_offset > r->Ok_0->Ambiguous_1.ut_offset "
          "&& ((r->Ok_0->Ambiguous_0 == self.std && r->Ok_0->Ambiguous_1 == self.dst) || (r->Ok_0->Ambiguous_0 == self.dst && r->Ok_0->Ambiguous_1 == self.std)))")
U = 'verus:tz'
c('TimeZoneRef::unix_time_to_unix_leap_time', U, requires="self.leap_seconds@.len() == 0", ensures="r is Ok, r->Ok_0 == unix_time")
c('TimeZoneRef::find_local_time_type', U,
  requires="tz_wf(self.transitions@, self.local_time_types@), *self.extra_rule is None, self.leap_seconds@.len() == 0",
  ensures="r is Ok, exists|k: int| 0 <= k <= self.transitions@.len() && *r->Ok_0 == #[trigger] interval_type(self.transitions@, self.local_time_types@, k) "
          "&& (k == 0 || self.transitions@[k - 1].unix_leap_time <= unix_time) && (k == self.transitions@.len() || unix_time < self.transitions@[k].unix_leap_time)")

# ------------------------------------------------------------------------------------------------
# C03/C04  zone-aware wrappers, generic over Tz (src/datetime/mod.rs, src/offset/mod.rs) -- Verus (units/datetime.py)
U = 'verus:datetime'
c('TimeZone::from_utc_datetime', U, ensures="r.datetime == *utc")   # provided method; its real default body is proved as TimeZone__from_utc_datetime
c('DateTime::timezone', U, ensures="true")
c('DateTime::with_timezone', U, ensures="r.datetime == self.datetime")
c('DateTime::to_utc', U, ensures="r.datetime == self.datetime")
c('DateTime::checked_add_signed', U, requires="dtwf(self.datetime), td_inv(rhs)",
  ensures="dt_add_post(self.datetime, td_ns(rhs), match r { Some(d) => Some(d.datetime), None => None })")
c('DateTime::checked_sub_signed', U, requires="dtwf(self.datetime), td_inv(rhs)",
  ensures="dt_add_post(self.datetime, -td_ns(rhs), match r { Some(d) => Some(d.datetime), None => None })")
ZADD = "(add_model(self.datetime.time, %s).0 || DN_MIN() * DAYNS() <= dn(self.datetime.date) * DAYNS() + add_model(self.datetime.time, %s).1 < (DN_MAX() + 1) * DAYNS())"
# operator forms on DateTime<Tz> (generic): documented to panic when the result is not representable = the precondition
c('DateTime::Add__add', U, requires="dtwf(self.datetime), td_inv(rhs), " + ZADD % ("td_ns(rhs)", "td_ns(rhs)"), ensures="dt_add_post(self.datetime, td_ns(rhs), Some(r.datetime))")
c('DateTime::Sub__sub', U, requires="dtwf(self.datetime), td_inv(rhs), " + ZADD % ("-td_ns(rhs)", "-td_ns(rhs)"), ensures="dt_add_post(self.datetime, -td_ns(rhs), Some(r.datetime))")
# std Duration forms: converted with TimeDelta::from_std (documented to panic when the Duration exceeds TimeDelta: precondition), then as above
DUR_NS = "(dur_secs(rhs) as int * 1_000_000_000 + dur_nanos(rhs) as int)"
def _dur(pre, sign, body):
    d = ('' if sign == '+' else '-') + DUR_NS
    return dict(requires=("%s, %s <= LIM(), " % (pre, DUR_NS)) + body.replace('@D', d))
NDT_REP = "(add_model(self.time, @D).0 || DN_MIN() * DAYNS() <= dn(self.date) * DAYNS() + add_model(self.time, @D).1 < (DN_MAX() + 1) * DAYNS())"
c('NaiveDateTime::Add_Duration__add', U, ensures="dt_add_post(self, %s, Some(r))" % DUR_NS, **_dur("dtwf(self)", '+', NDT_REP))
c('NaiveDateTime::Sub_Duration__sub', U, ensures="dt_add_post(self, -%s, Some(r))" % DUR_NS, **_dur("dtwf(self)", '-', NDT_REP))
ZDT_REP = NDT_REP.replace('self.time', 'self.datetime.time').replace('self.date)', 'self.datetime.date)')
c('DateTime::Add_Duration__add', U, ensures="dt_add_post(self.datetime, %s, Some(r.datetime))" % DUR_NS, **_dur("dtwf(self.datetime)", '+', ZDT_REP))
c('DateTime::Sub_Duration__sub', U, ensures="dt_add_post(self.datetime, -%s, Some(r.datetime))" % DUR_NS, **_dur("dtwf(self.datetime)", '-', ZDT_REP))
ODT_REP = ZDT_REP.replace('self.', 'old(self).')
c('DateTime::AddAssign_Duration__add_assign', U, ensures="dt_add_post(old(self).datetime, %s, Some(final(self).datetime))" % DUR_NS, **_dur("dtwf(old(self).datetime)", '+', ODT_REP))
c('DateTime::SubAssign_Duration__sub_assign', U, ensures="dt_add_post(old(self).datetime, -%s, Some(final(self).datetime))" % DUR_NS, **_dur("dtwf(old(self).datetime)", '-', ODT_REP))
SDS = "td_inv(r), td_ns(r) == (dn(self.datetime.date) - dn(rhs.datetime.date)) * DAYNS() + jpos(self.datetime.time, rhs.datetime.time) - jpos(rhs.datetime.time, self.datetime.time)"
c('DateTime::signed_duration_since', U, requires="dtwf(self.datetime), dtwf(rhs.datetime)", ensures=SDS)      # same instants whatever the two zones
c('DateTime::Sub_DateTime__sub', U, requires="dtwf(self.datetime), dtwf(rhs.datetime)", ensures=SDS)
c('DateTime::AddAssign__add_assign', U, requires="dtwf(old(self).datetime), td_inv(rhs), " + (ZADD % ("td_ns(rhs)", "td_ns(rhs)")).replace("self.", "old(self)."), ensures="dt_add_post(old(self).datetime, td_ns(rhs), Some(final(self).datetime))")
c('DateTime::SubAssign__sub_assign', U, requires="dtwf(old(self).datetime), td_inv(rhs), " + (ZADD % ("-td_ns(rhs)", "-td_ns(rhs)")).replace("self.", "old(self)."), ensures="dt_add_post(old(self).datetime, -td_ns(rhs), Some(final(self).datetime))")
# wall-clock reading with one day of headroom: utc + offset exactly (offset = the FixedOffset the stored Tz::Offset denotes)
c('DateTime::overflowing_naive_local', U, requires="dtwf(self.datetime)",
  ensures="shifted(self.datetime, self.offset.fix_spec().local_minus_utc as int, r), offwf(self.offset.fix_spec()), DN_MIN() - 1 <= dn(r.date) <= DN_MAX() + 1, (DN_MIN() <= dn(r.date) <= DN_MAX()) ==> dwf(r.date)")
U = 'verus:tz'
c('TimeZoneName::new', U,
  ensures="r is Ok <==> (3 <= input@.len() <= 7 && forall|i: int| 0 <= i < input@.len() ==> tzname_char(#[trigger] input@[i])), "
          "r is Ok ==> r->Ok_0.bytes[0] as int == input@.len() && forall|i: int| 0 <= i < input@.len() ==> r->Ok_0.bytes[i + 1] == #[trigger] input@[i]")
c('LocalTimeType::with_offset', U, ensures="r is Ok <==> -86400 < ut_offset < 86400, r is Ok ==> r->Ok_0.ut_offset == ut_offset && !r->Ok_0.is_dst && r->Ok_0.name is None")
c('LocalTimeType::new', U,
  ensures="r is Ok ==> -86400 < ut_offset < 86400 && r->Ok_0.ut_offset == ut_offset && r->Ok_0.is_dst == is_dst && (name is None <==> r->Ok_0.name is None), "
          "(name is None && -86400 < ut_offset < 86400) ==> r is Ok")
c('LocalTimeType::offset', U, ensures="r == self.ut_offset")
c('Transition::new', U, ensures="r.unix_leap_time == unix_leap_time, r.local_time_type_index == local_time_type_index")
c('Transition::unix_leap_time', U, ensures="r == self.unix_leap_time")
U = 'verus:time'
DURNS = "((dur_secs(rhs) as int % 172800) * 1_000_000_000 + dur_nanos(rhs) as int)"
c('NaiveTime::Add_Duration__add', U, requires="twf(self)", ensures="twf(r), (r.secs as int, r.frac as int) == add_time(self, %s)" % DURNS)
c('NaiveTime::Sub_Duration__sub', U, requires="twf(self)", ensures="twf(r), (r.secs as int, r.frac as int) == add_time(self, -%s)" % DURNS)
c('NaiveTime::AddAssign_Duration__add_assign', U, requires="twf(*old(self))", ensures="twf(*final(self)), (final(self).secs as int, final(self).frac as int) == add_time(*old(self), %s)" % DURNS)
c('NaiveTime::SubAssign_Duration__sub_assign', U, requires="twf(*old(self))", ensures="twf(*final(self)), (final(self).secs as int, final(self).frac as int) == add_time(*old(self), -%s)" % DURNS)
c('NaiveTime::Add_FixedOffset__add', U, requires="twf(self), offwf(rhs)", ensures="twf(r), r.frac == self.frac, r.secs as int == (self.secs as int + rhs.local_minus_utc as int) % 86400")
c('NaiveTime::Sub_FixedOffset__sub', U, requires="twf(self), offwf(rhs)", ensures="twf(r), r.frac == self.frac, r.secs as int == (self.secs as int - rhs.local_minus_utc as int) % 86400")
c('TimeZoneRef::unix_leap_time_to_unix_time', 'verus:tz', ensures="true")   # safety only: no overflow, no out-of-bounds index
