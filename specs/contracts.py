"""The single table of function contracts (DESIGN.md 2.3 "ledger").

key   : 'Type::method' (or free fn name)
value : requires / ensures (Verus text over the vocabulary of specs/prelude.py),
        by = who discharges it: 'verus:<unit>' | 'kani:<harness>[,<harness>]' | 'trusted:<reason>'
A unit that *assumes* a contract gets an external_body stub generated from exactly this text, and the
check of a property runs the discharging obligation of every contract it assumes (transitively).
"""

C = {}


def c(key, by, requires='', ensures='', **kw):
    C[key] = dict(requires=requires, ensures=ensures, by=by, **kw)


def td_exact(expr, arg):
    return ("r.is_some() <==> -LIM() <= {e} <= LIM(), "
            "r.is_some() ==> td_inv(r.unwrap()) && td_ns(r.unwrap()) == {e}").format(e=expr)


# ------------------------------------------------------------------------------------------------
# C06  TimeDelta  (src/time_delta.rs)
U = 'verus:timedelta'
c('TimeDelta::new', U, ensures="r.is_some() <==> (nanos < 1_000_000_000 && -LIM() <= secs as int * 1_000_000_000 + nanos as int <= LIM()), "
  "r.is_some() ==> td_inv(r.unwrap()) && td_ns(r.unwrap()) == secs as int * 1_000_000_000 + nanos as int && r.unwrap().secs == secs && r.unwrap().nanos == nanos as i32")
c('TimeDelta::try_weeks', U, ensures=td_exact("weeks as int * 604_800_000_000_000", 'weeks'))
c('TimeDelta::try_days', U, ensures=td_exact("days as int * 86_400_000_000_000", 'days'))
c('TimeDelta::try_hours', U, ensures=td_exact("hours as int * 3_600_000_000_000", 'hours'))
c('TimeDelta::try_minutes', U, ensures=td_exact("minutes as int * 60_000_000_000", 'minutes'))
c('TimeDelta::try_seconds', U, ensures=td_exact("seconds as int * 1_000_000_000", 'seconds'))
c('TimeDelta::try_milliseconds', U, ensures=td_exact("milliseconds as int * 1_000_000", 'milliseconds'))
for unit, mul in (('weeks', '604_800_000_000_000'), ('days', '86_400_000_000_000'), ('hours', '3_600_000_000_000'),
                  ('minutes', '60_000_000_000'), ('seconds', '1_000_000_000'), ('milliseconds', '1_000_000')):
    # the panicking forms are documented to panic exactly when out of range: requires = in range
    c('TimeDelta::' + unit, U, requires="-LIM() <= %s as int * %s <= LIM()" % (unit, mul),
      ensures="td_inv(r), td_ns(r) == %s as int * %s" % (unit, mul))
c('TimeDelta::microseconds', U, ensures="td_inv(r), td_ns(r) == microseconds as int * 1000")
c('TimeDelta::nanoseconds', U, ensures="td_inv(r), td_ns(r) == nanos as int")
for unit, div in (('weeks', '604_800_000_000_000'), ('days', '86_400_000_000_000'), ('hours', '3_600_000_000_000'),
                  ('minutes', '60_000_000_000'), ('seconds', '1_000_000_000'), ('milliseconds', '1_000_000')):
    c('TimeDelta::num_' + unit, U, requires="td_inv(*self)", ensures="r as int == trunc_div(td_ns(*self), %s)" % div)
c('TimeDelta::subsec_nanos', U, requires="td_inv(*self)",
  ensures="r as int == trunc_rem(td_ns(*self), 1_000_000_000), -1_000_000_000 < r < 1_000_000_000, "
          "(td_ns(*self) >= 0 ==> r >= 0) && (td_ns(*self) <= 0 ==> r <= 0)")
c('TimeDelta::subsec_millis', U, requires="td_inv(*self)", ensures="r as int == trunc_div(trunc_rem(td_ns(*self), 1_000_000_000), 1_000_000)")
c('TimeDelta::subsec_micros', U, requires="td_inv(*self)", ensures="r as int == trunc_div(trunc_rem(td_ns(*self), 1_000_000_000), 1_000)")
c('TimeDelta::num_microseconds', U, requires="td_inv(*self)",
  ensures="r.is_some() <==> i64::MIN <= trunc_div(td_ns(*self), 1000) <= i64::MAX, r.is_some() ==> r.unwrap() as int == trunc_div(td_ns(*self), 1000)")
c('TimeDelta::num_nanoseconds', U, requires="td_inv(*self)",
  ensures="r.is_some() <==> i64::MIN <= td_ns(*self) <= i64::MAX, r.is_some() ==> r.unwrap() as int == td_ns(*self)")
c('TimeDelta::checked_add', U, requires="td_inv(*self), td_inv(*rhs)", ensures=td_exact("td_ns(*self) + td_ns(*rhs)", ''))
c('TimeDelta::checked_sub', U, requires="td_inv(*self), td_inv(*rhs)", ensures=td_exact("td_ns(*self) - td_ns(*rhs)", ''))
c('TimeDelta::checked_mul', U, requires="td_inv(*self)", ensures=td_exact("td_ns(*self) * rhs as int", ''))
c('TimeDelta::checked_div', U, requires="td_inv(*self)",
  ensures="r.is_some() <==> rhs != 0, r.is_some() ==> td_inv(r.unwrap()) && "
          "iabs(td_ns(r.unwrap()) * rhs as int - td_ns(*self)) < 2 * iabs(rhs as int)")
c('TimeDelta::abs', U, requires="td_inv(*self)", ensures="td_inv(r), td_ns(r) == iabs(td_ns(*self))")
c('TimeDelta::neg', U, requires="td_inv(self)", ensures="td_inv(r), td_ns(r) == -td_ns(self)")
c('TimeDelta::Neg__neg', U, requires="td_inv(self)", ensures="td_inv(r), td_ns(r) == -td_ns(self)")
c('TimeDelta::zero', U, ensures="td_inv(r), td_ns(r) == 0")
c('TimeDelta::is_zero', U, requires="td_inv(*self)", ensures="r == (td_ns(*self) == 0)")
c('TimeDelta::from_std', U,
  ensures="r.is_ok() <==> dur_secs(duration) as int * 1_000_000_000 + dur_nanos(duration) as int <= LIM(), "
          "r.is_ok() ==> td_inv(r->Ok_0) && td_ns(r->Ok_0) == dur_secs(duration) as int * 1_000_000_000 + dur_nanos(duration) as int")
c('TimeDelta::to_std', U, requires="td_inv(*self)",
  ensures="r.is_ok() <==> td_ns(*self) >= 0, r.is_ok() ==> dur_secs(r->Ok_0) as int * 1_000_000_000 + dur_nanos(r->Ok_0) as int == td_ns(*self) && dur_nanos(r->Ok_0) < 1_000_000_000")
# operator forms = checked forms + expect (documented to panic on overflow: requires = the checked form succeeds)
c('TimeDelta::Add__add', U, requires="td_inv(self), td_inv(rhs), -LIM() <= td_ns(self) + td_ns(rhs) <= LIM()", ensures="td_inv(r), td_ns(r) == td_ns(self) + td_ns(rhs)")
c('TimeDelta::Sub__sub', U, requires="td_inv(self), td_inv(rhs), -LIM() <= td_ns(self) - td_ns(rhs) <= LIM()", ensures="td_inv(r), td_ns(r) == td_ns(self) - td_ns(rhs)")
c('TimeDelta::Mul__mul', U, requires="td_inv(self), -LIM() <= td_ns(self) * rhs as int <= LIM()", ensures="td_inv(r), td_ns(r) == td_ns(self) * rhs as int")
c('TimeDelta::Div__div', U, requires="td_inv(self), rhs != 0", ensures="td_inv(r), iabs(td_ns(r) * rhs as int - td_ns(self)) < 2 * iabs(rhs as int)")
c('div_mod_floor_64', U, requires="other > 0", ensures="r.0 == this as int / other as int, r.1 == this as int % other as int")
