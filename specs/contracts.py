"""The single table of function contracts (DESIGN.md 2.3 "ledger").

key   : 'Type::method' (or free fn name)
value : requires / ensures (Verus text over the vocabulary of specs/prelude.py),
        by = who discharges it: 'verus:<unit>' | 'kani:<harness>[,<harness>]' | 'trusted:<reason>'
A unit that *assumes* a contract gets an external_body stub generated from exactly this text, and the
check of a property runs the discharging obligation of every contract it assumes (transitively).
"""

C = {}


def c(key, by, requires='', ensures='', **kw):
    C[key] = dict(requires=requires, ensures=ensures, by=by, **kw)


def td_exact(expr, arg):
    return ("r.is_some() <==> -LIM() <= {e} <= LIM(), "
            "r.is_some() ==> td_inv(r.unwrap()) && td_ns(r.unwrap()) == {e}").format(e=expr)


# ------------------------------------------------------------------------------------------------
# C06  TimeDelta  (src/time_delta.rs)
U = 'verus:timedelta'
c('TimeDelta::new', U, ensures="r.is_some() <==> (nanos < 1_000_000_000 && -LIM() <= secs as int * 1_000_000_000 + nanos as int <= LIM()), "
  "r.is_some() ==> td_inv(r.unwrap()) && td_ns(r.unwrap()) == secs as int * 1_000_000_000 + nanos as int && r.unwrap().secs == secs && r.unwrap().nanos == nanos as i32")
c('TimeDelta::try_weeks', U, ensures=td_exact("weeks as int * 604_800_000_000_000", 'weeks'))
c('TimeDelta::try_days', U, ensures=td_exact("days as int * 86_400_000_000_000", 'days'))
c('TimeDelta::try_hours', U, ensures=td_exact("hours as int * 3_600_000_000_000", 'hours'))
c('TimeDelta::try_minutes', U, ensures=td_exact("minutes as int * 60_000_000_000", 'minutes'))
c('TimeDelta::try_seconds', U, ensures=td_exact("seconds as int * 1_000_000_000", 'seconds'))
c('TimeDelta::try_milliseconds', U, ensures=td_exact("milliseconds as int * 1_000_000", 'milliseconds'))
for unit, mul in (('weeks', '604_800_000_000_000'), ('days', '86_400_000_000_000'), ('hours', '3_600_000_000_000'),
                  ('minutes', '60_000_000_000'), ('seconds', '1_000_000_000'), ('milliseconds', '1_000_000')):
    # the panicking forms are documented to panic exactly when out of range: requires = in range
    c('TimeDelta::' + unit, U, requires="-LIM() <= %s as int * %s <= LIM()" % (unit, mul),
      ensures="td_inv(r), td_ns(r) == %s as int * %s" % (unit, mul))
c('TimeDelta::microseconds', U, ensures="td_inv(r), td_ns(r) == microseconds as int * 1000")
c('TimeDelta::nanoseconds', U, ensures="td_inv(r), td_ns(r) == nanos as int")
for unit, div in (('weeks', '604_800_000_000_000'), ('days', '86_400_000_000_000'), ('hours', '3_600_000_000_000'),
                  ('minutes', '60_000_000_000'), ('seconds', '1_000_000_000'), ('milliseconds', '1_000_000')):
    c('TimeDelta::num_' + unit, U, requires="td_inv(*self)", ensures="r as int == trunc_div(td_ns(*self), %s)" % div)
c('TimeDelta::subsec_nanos', U, requires="td_inv(*self)",
  ensures="r as int == trunc_rem(td_ns(*self), 1_000_000_000), -1_000_000_000 < r < 1_000_000_000, "
          "(td_ns(*self) >= 0 ==> r >= 0) && (td_ns(*self) <= 0 ==> r <= 0)")
c('TimeDelta::subsec_millis', U, requires="td_inv(*self)", ensures="r as int == trunc_div(trunc_rem(td_ns(*self), 1_000_000_000), 1_000_000)")
c('TimeDelta::subsec_micros', U, requires="td_inv(*self)", ensures="r as int == trunc_div(trunc_rem(td_ns(*self), 1_000_000_000), 1_000)")
c('TimeDelta::num_microseconds', U, requires="td_inv(*self)",
  ensures="r.is_some() <==> i64::MIN <= trunc_div(td_ns(*self), 1000) <= i64::MAX, r.is_some() ==> r.unwrap() as int == trunc_div(td_ns(*self), 1000)")
c('TimeDelta::num_nanoseconds', U, requires="td_inv(*self)",
  ensures="r.is_some() <==> i64::MIN <= td_ns(*self) <= i64::MAX, r.is_some() ==> r.unwrap() as int == td_ns(*self)")
c('TimeDelta::checked_add', U, requires="td_inv(*self), td_inv(*rhs)", ensures=td_exact("td_ns(*self) + td_ns(*rhs)", ''))
c('TimeDelta::checked_sub', U, requires="td_inv(*self), td_inv(*rhs)", ensures=td_exact("td_ns(*self) - td_ns(*rhs)", ''))
c('TimeDelta::checked_mul', U, requires="td_inv(*self)", ensures=td_exact("td_ns(*self) * rhs as int", ''))
c('TimeDelta::checked_div', U, requires="td_inv(*self)",
  ensures="r.is_some() <==> rhs != 0, r.is_some() ==> td_inv(r.unwrap()) && "
          "iabs(td_ns(r.unwrap()) * rhs as int - td_ns(*self)) < 2 * iabs(rhs as int)")
c('TimeDelta::abs', U, requires="td_inv(*self)", ensures="td_inv(r), td_ns(r) == iabs(td_ns(*self))")
c('TimeDelta::neg', U, requires="td_inv(self)", ensures="td_inv(r), td_ns(r) == -td_ns(self)")
c('TimeDelta::Neg__neg', U, requires="td_inv(self)", ensures="td_inv(r), td_ns(r) == -td_ns(self)")
c('TimeDelta::zero', U, ensures="td_inv(r), td_ns(r) == 0")
c('TimeDelta::is_zero', U, requires="td_inv(*self)", ensures="r == (td_ns(*self) == 0)")
c('TimeDelta::from_std', U,
  ensures="r.is_ok() <==> dur_secs(duration) as int * 1_000_000_000 + dur_nanos(duration) as int <= LIM(), "
          "r.is_ok() ==> td_inv(r->Ok_0) && td_ns(r->Ok_0) == dur_secs(duration) as int * 1_000_000_000 + dur_nanos(duration) as int")
c('TimeDelta::to_std', U, requires="td_inv(*self)",
  ensures="r.is_ok() <==> td_ns(*self) >= 0, r.is_ok() ==> dur_secs(r->Ok_0) as int * 1_000_000_000 + dur_nanos(r->Ok_0) as int == td_ns(*self) && dur_nanos(r->Ok_0) < 1_000_000_000")
# operator forms = checked forms + expect (documented to panic on overflow: requires = the checked form succeeds)
c('TimeDelta::Add__add', U, requires="td_inv(self), td_inv(rhs), -LIM() <= td_ns(self) + td_ns(rhs) <= LIM()", ensures="td_inv(r), td_ns(r) == td_ns(self) + td_ns(rhs)")
c('TimeDelta::Sub__sub', U, requires="td_inv(self), td_inv(rhs), -LIM() <= td_ns(self) - td_ns(rhs) <= LIM()", ensures="td_inv(r), td_ns(r) == td_ns(self) - td_ns(rhs)")
c('TimeDelta::Mul__mul', U, requires="td_inv(self), -LIM() <= td_ns(self) * rhs as int <= LIM()", ensures="td_inv(r), td_ns(r) == td_ns(self) * rhs as int")
c('TimeDelta::Div__div', U, requires="td_inv(self), rhs != 0", ensures="td_inv(r), iabs(td_ns(r) * rhs as int - td_ns(self)) < 2 * iabs(rhs as int)")
c('div_mod_floor_64', U, requires="other > 0", ensures="r.0 == this as int / other as int, r.1 == this as int % other as int")

# ------------------------------------------------------------------------------------------------
# C01  packed-date kernel (src/naive/date/mod.rs, src/naive/internals.rs) -- proved by Kani, assumed by the Verus units.
# v_yof(d) is the abstract view "the i32 stored in the date"; flags400(r) is "the YEAR_TO_FLAGS cell r".
K = 'kani:vk_date_bits'
c('NaiveDate::yof', K, ensures="r as int == v_yof(*self)")
c('NaiveDate::year', K, ensures="r as int == v_year(*self)")
c('NaiveDate::ordinal', K, ensures="r as int == v_ord(*self)")
c('NaiveDate::year_flags', K, ensures="r.0 as int == v_flags(*self)")
c('NaiveDate::leap_year', 'kani:vk_date_accessors', requires="dwf(*self)", ensures="r == is_leap(v_year(*self))")
c('NaiveDate::from_yof', K, requires="1 <= (yof as int % 8192) / 16 <= 366, yof as int % 8 != 0", ensures="v_yof(r) == yof as int")
c('YearFlags::from_year_mod_400', 'kani:vk_year_flags_table', requires="0 <= year < 400", ensures="r.0 as int == flags400(year as int)")
c('YearFlags::from_year', 'kani:vk_year_flags_table', ensures="r.0 as int == flags_of(year as int)")
c('NaiveDate::from_ordinal_and_flags', 'kani:vk_date_from_ordinal_and_flags',
  requires="flags.0 as int == flags_of(year as int)",
  ensures="r.is_some() <==> (MIN_Y() <= year <= MAX_Y() && 1 <= ordinal <= year_len(year as int)), "
          "r.is_some() ==> v_year(r.unwrap()) == year && v_ord(r.unwrap()) == ordinal && dwf(r.unwrap())")
c('NaiveDate::from_yo_opt', 'kani:vk_date_from_yo_opt',
  ensures="r.is_some() <==> (MIN_Y() <= year <= MAX_Y() && 1 <= ordinal <= year_len(year as int)), "
          "r.is_some() ==> v_year(r.unwrap()) == year && v_ord(r.unwrap()) == ordinal && dwf(r.unwrap())")
c('NaiveDate::from_ymd_opt', 'kani:vk_date_from_ymd_opt',
  ensures="r.is_some() <==> (MIN_Y() <= year <= MAX_Y() && ymd_valid(year as int, month as int, day as int)), "
          "r.is_some() ==> v_year(r.unwrap()) == year && v_ord(r.unwrap()) == ordinal_of(year as int, month as int, day as int) && dwf(r.unwrap())")
c('NaiveDate::month', 'kani:vk_date_accessors', requires="dwf(*self)",
  ensures="1 <= r <= 12, cum_days(v_year(*self), r as int) < v_ord(*self) <= cum_days(v_year(*self), r as int) + month_len(v_year(*self), r as int)")
c('NaiveDate::day', 'kani:vk_date_accessors', requires="dwf(*self)",
  ensures="exists|m: int| 1 <= m <= 12 && 1 <= r <= month_len(v_year(*self), m) && #[trigger] cum_days(v_year(*self), m) + r as int == v_ord(*self)")
c('flags400_facts', 'kani:vk_year_flags_table', requires="0 <= ym < 400",
  ensures="0 <= flags400(ym) < 16, flags400(ym) % 8 != 0, (flags400(ym) / 8 == 0) == is_leap(ym)")

# ------------------------------------------------------------------------------------------------
# C01/C03  day-count arithmetic of NaiveDate -- proved by Verus (units/date.py)
U = 'verus:date'
RANGE = "DN_MIN() <= {e} <= DN_MAX()"
def date_move(expr):
    return ("r.is_some() <==> " + RANGE.format(e=expr) + ", r.is_some() ==> dwf(r.unwrap()) && dn(r.unwrap()) == " + expr)
c('div_mod_floor', U, requires="div > 0", ensures="r.0 == val as int / div as int, r.1 == val as int % div as int")
c('yo_to_cycle', U, requires="year_mod_400 < 400, 1 <= ordinal <= 366", ensures="r as int == cyc(year_mod_400 as int, ordinal as int)")
c('cycle_to_yo', U, requires="cycle < 146097",
  ensures="r.0 < 400, 1 <= r.1 <= year_len(r.0 as int), cyc(r.0 as int, r.1 as int) == cycle as int")
c('NaiveDate::from_num_days_from_ce_opt', U, ensures=date_move("days as int"))
c('NaiveDate::num_days_from_ce', U, requires="dwf(*self)", ensures="r as int == dn(*self)")
c('NaiveDate::add_days', U, requires="dwf(self)", ensures=date_move("dn(self) + days as int"))
c('NaiveDate::checked_add_days', U, requires="dwf(self)", ensures=date_move("dn(self) + days.0 as int"))
c('NaiveDate::checked_sub_days', U, requires="dwf(self)", ensures=date_move("dn(self) - days.0 as int"))
c('NaiveDate::checked_add_signed', U, requires="dwf(self), td_inv(rhs)", ensures=date_move("dn(self) + trunc_div(td_ns(rhs), 86_400_000_000_000)"))
c('NaiveDate::checked_sub_signed', U, requires="dwf(self), td_inv(rhs)", ensures=date_move("dn(self) - trunc_div(td_ns(rhs), 86_400_000_000_000)"))
c('NaiveDate::signed_duration_since', U, requires="dwf(self), dwf(rhs)",
  ensures="td_inv(r), td_ns(r) == (dn(self) - dn(rhs)) * 86_400_000_000_000")
