"""Shared Verus vocabulary: headers, trusted std specs, calendar spec + lemmas, abstract views.
Every unit starts with HEADER + STD_SPECS (+ the pieces it needs).  The calendar spec is written from
the proleptic Gregorian rules and the property texts, not from chrono's tables."""

HEADER = r'''#![allow(unused_imports, dead_code, unused_variables, non_snake_case, unused_mut, unused_parens, unused_macros)]
use vstd::prelude::*;
use vstd::arithmetic::div_mod::*;
use vstd::arithmetic::mul::*;
use core::num::NonZeroI32;
use core::cmp::Ordering;
@@TRY_OPT@@
verus! {
'''

FOOTER = r'''
} // verus!
fn main() {}
'''

# documented std behaviour that vstd does not specify (trusted, listed in every evidence file)
STD_SPECS = r'''
pub assume_specification [i32::rem_euclid] (x: i32, d: i32) -> (r: i32)
    requires d > 0, ensures r == (x as int) % (d as int);
pub assume_specification [i32::div_euclid] (x: i32, d: i32) -> (r: i32)
    requires d > 0, ensures r == (x as int) / (d as int);
pub assume_specification [i64::rem_euclid] (x: i64, d: i64) -> (r: i64)
    requires d > 0, ensures r == (x as int) % (d as int);
pub assume_specification [i64::div_euclid] (x: i64, d: i64) -> (r: i64)
    requires d > 0, ensures r == (x as int) / (d as int);
pub assume_specification [i64::saturating_add] (x: i64, y: i64) -> (r: i64)
    ensures r == (if x + y > i64::MAX { i64::MAX as int } else if x + y < i64::MIN { i64::MIN as int } else { x + y });
pub assume_specification [i64::saturating_sub] (x: i64, y: i64) -> (r: i64)
    ensures r == (if x - y > i64::MAX { i64::MAX as int } else if x - y < i64::MIN { i64::MIN as int } else { x - y });
pub assume_specification [i32::saturating_sub] (x: i32, y: i32) -> (r: i32)
    ensures r == (if x - y > i32::MAX { i32::MAX as int } else if x - y < i32::MIN { i32::MIN as int } else { x - y });
pub assume_specification [i32::saturating_abs] (x: i32) -> (r: i32)
    ensures r == (if x == i32::MIN { i32::MAX as int } else if x < 0 { -(x as int) } else { x as int });
pub assume_specification [i64::abs] (x: i64) -> (r: i64)
    requires x > i64::MIN, ensures r == (if x < 0 { -(x as int) } else { x as int });
'''

EXPECT = r'''
#[verifier::external_body]
const fn expect<T: Copy>(opt: Option<T>, msg: &str) -> (r: T)
    requires opt.is_some() ensures r == opt.unwrap()
{ unimplemented!() }
'''

# ------------------------------------------------------------------------------------------------
# Truncating (Rust) division for symbolic divisors of either sign
RUST_DIV = r'''
spec fn iabs(x: int) -> int { if x < 0 { -x } else { x } }
spec fn trunc_div(a: int, b: int) -> int { if a >= 0 { a / b } else { -((-a) / b) } }
spec fn trunc_rem(a: int, b: int) -> int { a - trunc_div(a, b) * b }
proof fn euclid(x: int, d: int)
    requires d != 0
    ensures x == d * (x / d) + (x % d), 0 <= x % d < iabs(d)
{
    lemma_fundamental_div_mod(x, d);
    if d > 0 { lemma_mod_bound(x, d); } else { assert(0 <= x % d < -d) by(nonlinear_arith) requires d < 0; }
}
proof fn div_neg(a: int, b: int) requires b != 0, a < 0 ensures rust_div(a, b) == -((-a) / b), rust_rem(a, b) == -((-a) % b) { reveal(rust_div); reveal(rust_rem); }
proof fn div_sym(a: int, b: int) requires b != 0, a > 0 ensures rust_div(a, b) == -rust_div(-a, b), rust_rem(a, b) == -rust_rem(-a, b) { reveal(rust_div); reveal(rust_rem); }
proof fn div_zero(b: int) requires b != 0 ensures rust_div(0, b) == 0, rust_rem(0, b) == 0 { reveal(rust_div); reveal(rust_rem); }
proof fn rust_divrem(a: int, b: int)
    requires b != 0
    ensures a == rust_div(a, b) * b + rust_rem(a, b),
            iabs(rust_rem(a, b)) < iabs(b),
            (a >= 0 ==> rust_rem(a, b) >= 0) && (a <= 0 ==> rust_rem(a, b) <= 0),
            iabs(rust_div(a, b)) <= iabs(a),
            (a >= 0 && b > 0 || a <= 0 && b < 0) ==> rust_div(a, b) >= 0,
            (a >= 0 && b < 0 || a <= 0 && b > 0) ==> rust_div(a, b) <= 0,
            iabs(rust_div(a, b) * b) <= iabs(a),
{
    if a < 0 {
        div_neg(a, b); euclid(-a, b);
        assert(a == (-((-a) / b)) * b + (-((-a) % b))) by(nonlinear_arith) requires -a == b * ((-a) / b) + ((-a) % b);
    } else if a > 0 {
        div_sym(a, b); div_neg(-a, b); euclid(a, b);
        assert(a == (a / b) * b + (a % b)) by(nonlinear_arith) requires a == b * (a / b) + (a % b);
    } else {
        div_zero(b);
        assert(0 == 0 * b + 0) by(nonlinear_arith);
    }
    let q = rust_div(a, b); let r = rust_rem(a, b);
    assert(iabs(q) <= iabs(a) && ((a >= 0 && b > 0 || a <= 0 && b < 0) ==> q >= 0) && ((a >= 0 && b < 0 || a <= 0 && b > 0) ==> q <= 0)) by(nonlinear_arith)
        requires a == q * b + r, iabs(r) < iabs(b), (a >= 0 ==> r >= 0), (a <= 0 ==> r <= 0), b != 0;
    assert((a >= 0 ==> q * b >= 0) && (a <= 0 ==> q * b <= 0)) by(nonlinear_arith)
        requires b != 0, ((a >= 0 && b > 0 || a <= 0 && b < 0) ==> q >= 0), ((a >= 0 && b < 0 || a <= 0 && b > 0) ==> q <= 0);
}
'''

# ------------------------------------------------------------------------------------------------
# TimeDelta view (C06): exact signed nanosecond count in [-(2^63-1) ms, +(2^63-1) ms]
TD_VIEW = r'''
spec fn LIM() -> int { 9223372036854775807int * 1000000int }
spec fn td_ns(t: TimeDelta) -> int { t.secs as int * 1_000_000_000 + t.nanos as int }
spec fn td_inv(t: TimeDelta) -> bool { 0 <= t.nanos < 1_000_000_000 && -LIM() <= td_ns(t) <= LIM() }
'''

# ------------------------------------------------------------------------------------------------
# Calendar (C01): proleptic Gregorian from first principles
CALENDAR = r'''
spec fn is_leap(y: int) -> bool { y % 4 == 0 && (y % 100 != 0 || y % 400 == 0) }
spec fn year_len(y: int) -> int { if is_leap(y) { 366 } else { 365 } }
#[verifier::opaque]
spec fn days_before_year(y: int) -> int { let p = y - 1; 365 * p + p / 4 - p / 100 + p / 400 }
spec fn day_number(y: int, o: int) -> int { days_before_year(y) + o }
spec fn MIN_Y() -> int { -262143 }
spec fn MAX_Y() -> int { 262142 }
spec fn DN_MIN() -> int { -95746129 }
spec fn DN_MAX() -> int { 95745399 }
spec fn UNIX_DAY() -> int { 719163 }
spec fn month_len(y: int, m: int) -> int {
    if m == 2 { if is_leap(y) { 29 } else { 28 } } else if m == 4 || m == 6 || m == 9 || m == 11 { 30 } else { 31 }
}
spec fn cum_days(y: int, m: int) -> int
    decreases m
{ if m <= 1 { 0 } else { cum_days(y, m - 1) + month_len(y, m - 1) } }
spec fn ymd_valid(y: int, m: int, d: int) -> bool { 1 <= m <= 12 && 1 <= d <= month_len(y, m) }
spec fn ordinal_of(y: int, m: int, d: int) -> int { cum_days(y, m) + d }
// weekday of a day number, Monday = 0 (day 1 = 0001-01-01 is a Monday)
spec fn weekday_of(n: int) -> int { (n - 1) % 7 }

proof fn dn_range_consts()
    ensures DN_MIN() == day_number(MIN_Y(), 1), DN_MAX() == day_number(MAX_Y(), 365), !is_leap(MAX_Y()),
            day_number(1970, 1) == UNIX_DAY(), weekday_of(UNIX_DAY()) == 3
{ reveal(days_before_year); }

// cycle form used by the code
spec fn leaps_before(ym: int) -> int { (ym + 3) / 4 - (ym + 99) / 100 + (ym + 399) / 400 }
spec fn cyc(ym: int, ord: int) -> int { ym * 365 + leaps_before(ym) + ord - 1 }

proof fn lb_step(ym: int)
    requires 0 <= ym < 400
    ensures leaps_before(ym + 1) == leaps_before(ym) + (if is_leap(ym) { 1int } else { 0int }),
            0 <= leaps_before(ym) <= 97, leaps_before(400) == 97, leaps_before(0) == 0
{}

proof fn dby_step(y: int)
    ensures days_before_year(y + 1) == days_before_year(y) + year_len(y)
{ reveal(days_before_year); }

proof fn dby_mono(a: int, b: int)
    requires a <= b
    ensures 365 * (b - a) <= days_before_year(b) - days_before_year(a) <= 366 * (b - a)
    decreases b - a
{
    if a < b { dby_mono(a, b - 1); dby_step(b - 1); }
}

// L3: the day number is strictly increasing in lexicographic (year, ordinal) over valid pairs
proof fn dn_lex_mono(y1: int, o1: int, y2: int, o2: int)
    requires 1 <= o1 <= year_len(y1), 1 <= o2 <= year_len(y2)
    ensures (y1 < y2 || (y1 == y2 && o1 < o2)) <==> day_number(y1, o1) < day_number(y2, o2),
            (y1 == y2 && o1 == o2) <==> day_number(y1, o1) == day_number(y2, o2)
{
    if y1 < y2 { dby_mono(y1 + 1, y2); dby_step(y1); }
    if y2 < y1 { dby_mono(y2 + 1, y1); dby_step(y2); }
}

proof fn in_range(y: int, o: int)
    requires 1 <= o <= year_len(y)
    ensures (MIN_Y() <= y <= MAX_Y()) <==> (DN_MIN() <= day_number(y, o) <= DN_MAX())
{
    dn_range_consts();
    dby_step(y); dby_step(MAX_Y());
    if y >= MIN_Y() { dby_mono(MIN_Y(), y); } else { dby_mono(y + 1, MIN_Y()); }
    if y <= MAX_Y() { dby_mono(y + 1, MAX_Y() + 1); } else { dby_mono(MAX_Y() + 1, y); }
}

proof fn dn_cycle(y: int, o: int)
    ensures day_number(y, o) == 146097 * (y / 400) + cyc(y % 400, o) - 365,
            is_leap(y) == is_leap(y % 400)
{
    reveal(days_before_year);
    let q = y / 400; let ym = y % 400;
    assert(y == 400 * q + ym);
}

// L1: the weekday of a date depends only on (year mod 400, ordinal): 146097 days = 20871 weeks
proof fn weekday_cycle(y: int, o: int)
    ensures weekday_of(day_number(y, o)) == weekday_of(days_before_year(y % 400) + o)
{
    dn_cycle(y, o); dn_cycle(y % 400, o);
    let q = y / 400;
    assert(day_number(y, o) == day_number(y % 400, o) + 146097 * q);
    assert((day_number(y % 400, o) - 1 + 146097 * q) % 7 == (day_number(y % 400, o) - 1) % 7) by {
        lemma_mod_multiples_vanish(20871 * q, day_number(y % 400, o) - 1, 7);
        assert(146097 * q == 7 * (20871 * q));
    }
}
// successor: the next day number is the next ordinal, or ordinal 1 of the next year (L2), and has the next weekday
proof fn succ_is_next_day(y: int, o: int)
    requires 1 <= o <= year_len(y)
    ensures (o < year_len(y) ==> day_number(y, o + 1) == day_number(y, o) + 1),
            (o == year_len(y) ==> day_number(y + 1, 1) == day_number(y, o) + 1),
            weekday_of(day_number(y, o) + 1) == (weekday_of(day_number(y, o)) + 1) % 7
{ dby_step(y); }

// link between the (year, ordinal) form in which Kani proves succ_opt/pred_opt and the day-number form used by Verus callers
proof fn succ_pred_dn_form(y: int, o: int)
    requires MIN_Y() <= y <= MAX_Y(), 1 <= o <= year_len(y)
    ensures (y == MAX_Y() && o == year_len(MAX_Y())) <==> day_number(y, o) == DN_MAX(),
            (y == MIN_Y() && o == 1) <==> day_number(y, o) == DN_MIN(),
            DN_MIN() <= day_number(y, o) <= DN_MAX(),
            o < year_len(y) ==> day_number(y, o + 1) == day_number(y, o) + 1,
            o == year_len(y) ==> day_number(y + 1, 1) == day_number(y, o) + 1,
            o > 1 ==> day_number(y, o - 1) == day_number(y, o) - 1,
            o == 1 ==> day_number(y - 1, year_len(y - 1)) == day_number(y, o) - 1
{
    dn_range_consts(); dby_step(y); dby_step(y - 1); in_range(y, o);
    dn_lex_mono(y, o, MAX_Y(), 365); dn_lex_mono(y, o, MIN_Y(), 1);
}

proof fn slow_path(y: int, o: int, days: int, cdiv: int, cmod: int, y2mod: int, o2: int)
    requires 1 <= o <= year_len(y),
             cdiv == (cyc(y % 400, o) + days) / 146097, cmod == (cyc(y % 400, o) + days) % 146097,
             0 <= y2mod < 400, 1 <= o2 <= year_len(y2mod), cyc(y2mod, o2) == cmod
    ensures ({ let y2 = (y / 400 + cdiv) * 400 + y2mod;
               day_number(y2, o2) == day_number(y, o) + days && 1 <= o2 <= year_len(y2) && y2 % 400 == y2mod
               && ((MIN_Y() <= y2 <= MAX_Y()) <==> (DN_MIN() <= day_number(y, o) + days <= DN_MAX())) })
{
    let y2 = (y / 400 + cdiv) * 400 + y2mod;
    dn_cycle(y, o); dn_cycle(y2, o2);
    assert(y2 / 400 == y / 400 + cdiv && y2 % 400 == y2mod);
    in_range(y2, o2);
}

proof fn from_days(days: int, q: int, cycle: int, ym: int, o: int)
    requires q == (days + 365) / 146097, cycle == (days + 365) % 146097,
             0 <= ym < 400, 1 <= o <= year_len(ym), cyc(ym, o) == cycle
    ensures ({ let y = q * 400 + ym;
               day_number(y, o) == days && 1 <= o <= year_len(y) && y % 400 == ym
               && ((MIN_Y() <= y <= MAX_Y()) <==> (DN_MIN() <= days <= DN_MAX())) })
{
    let y = q * 400 + ym;
    assert(y / 400 == q && y % 400 == ym);
    dn_cycle(y, o);
    in_range(y, o);
}
'''

# abstract view of the packed date; v_yof is tied to the bits by the Kani-proved accessor contracts
DATE_VIEW = r'''
uninterp spec fn v_yof(d: NaiveDate) -> int;
uninterp spec fn flags400(ym: int) -> int;
spec fn flags_of(y: int) -> int { flags400(y % 400) }
spec fn v_year(d: NaiveDate) -> int { v_yof(d) / 8192 }
spec fn v_ord(d: NaiveDate) -> int { (v_yof(d) % 8192) / 16 }
spec fn v_flags(d: NaiveDate) -> int { v_yof(d) % 16 }
spec fn dwf0(d: NaiveDate) -> bool {
    MIN_Y() <= v_year(d) <= MAX_Y() && 1 <= v_ord(d) <= year_len(v_year(d)) && v_flags(d) == flags_of(v_year(d))
    && -2147483648 <= v_yof(d) <= 2147483647
}
spec fn dn(d: NaiveDate) -> int { day_number(v_year(d), v_ord(d)) }
spec fn dwf(d: NaiveDate) -> bool { dwf0(d) && DN_MIN() <= dn(d) <= DN_MAX() }
// dwf0 is the form in which Kani establishes the representation invariant; the range conjunct of dwf follows by in_range
proof fn dwf_link(d: NaiveDate)
    requires dwf0(d)
    ensures dwf(d)
{ in_range(v_year(d), v_ord(d)); }
'''

TIME_VIEW = r'''
spec fn twf(t: NaiveTime) -> bool { t.secs < 86400 && t.frac < 2_000_000_000 }
spec fn nonleap(t: NaiveTime) -> bool { t.frac < 1_000_000_000 }
spec fn tpos(t: NaiveTime) -> int { t.secs as int * 1_000_000_000 + t.frac as int }
spec fn DAYNS() -> int { 86_400_000_000_000 }
spec fn leap(t: NaiveTime) -> bool { t.frac >= 1_000_000_000 }
// C07 leap-line model ("as if it were the only leap second"): for a leap `t` the second t.secs lasts 2 s.
// Result of adding d nanoseconds: (stayed inside the leap second or the second before?, position)
//   stayed  -> position on the leap line, same second
//   left    -> position on the ordinary line (before wrapping modulo one day)
spec fn add_model(t: NaiveTime, d: int) -> (bool, int) {
    let p = tpos(t); let r = p + d; let s = t.secs as int * 1_000_000_000;
    if t.frac < 1_000_000_000 { (false, r) }
    else if r >= s + 2_000_000_000 { (false, r - 1_000_000_000) }
    else if r >= s { (true, r) }
    else { (false, r) }
}
spec fn add_post(t: NaiveTime, d: int, res: NaiveTime, carry_secs: int) -> bool {
    let m = add_model(t, d);
    twf(res) && (if m.0 { carry_secs == 0 && res.secs == t.secs && tpos(res) == m.1 }
                 else { nonleap(res) && tpos(res) == m.1 % DAYNS() && carry_secs * 1_000_000_000 == m.1 - m.1 % DAYNS() && carry_secs % 86400 == 0 })
}
// the time of day that results from adding d nanoseconds (carry dropped): (secs, frac)
spec fn add_time(t: NaiveTime, d: int) -> (int, int) {
    let m = add_model(t, d);
    if m.0 { (t.secs as int, m.1 - t.secs as int * 1_000_000_000) } else { ((m.1 % DAYNS()) / 1_000_000_000, (m.1 % DAYNS()) % 1_000_000_000) }
}
// a position (whole seconds s, sub-second f) reduced modulo one day: only the seconds wrap
proof fn pos_mod_day(s: int, f: int)
    requires 0 <= f < 1_000_000_000
    ensures (s * 1_000_000_000 + f) % DAYNS() == (s % 86400) * 1_000_000_000 + f,
            (s * 1_000_000_000 + f) - (s * 1_000_000_000 + f) % DAYNS() == (s - s % 86400) * 1_000_000_000,
            (s - s % 86400) % 86400 == 0
{
    let q = s / 86400; let r = s % 86400;
    lemma_fundamental_div_mod(s, 86400);
    assert(s * 1_000_000_000 + f == q * DAYNS() + (r * 1_000_000_000 + f)) by(nonlinear_arith) requires s == 86400 * q + r, DAYNS() == 86400 * 1_000_000_000int;
    assert(0 <= r * 1_000_000_000 + f < DAYNS()) by(nonlinear_arith) requires 0 <= r < 86400, 0 <= f < 1_000_000_000, DAYNS() == 86400 * 1_000_000_000int;
    lemma_fundamental_div_mod_converse(s * 1_000_000_000 + f, DAYNS(), q, r * 1_000_000_000 + f);
    assert((s - r) == 86400 * q);
    lemma_mod_multiples_basic(q, 86400);
    assert((86400 * q) % 86400 == 0) by { lemma_mul_is_commutative(86400, q); }
    assert((s - r) * 1_000_000_000 == q * DAYNS()) by(nonlinear_arith) requires s - r == 86400 * q, DAYNS() == 86400 * 1_000_000_000int;
}
// position on the joint line that contains the leap second of whichever operand is leap (C07 difference)
spec fn jpos(x: NaiveTime, other: NaiveTime) -> int {
    tpos(x) + (if leap(other) && other.secs < x.secs { 1_000_000_000int } else { 0int })
}
spec fn offwf(o: FixedOffset) -> bool { -86400 < o.local_minus_utc < 86400 }
spec fn hms_ok(h: int, m: int, s: int, nano: int) -> bool {
    h < 24 && m < 60 && s < 60 && (nano < 1_000_000_000 || (nano < 2_000_000_000 && s == 59))
}
'''

DT_VIEW = r'''
spec fn dtwf(x: NaiveDateTime) -> bool { dwf(x.date) && twf(x.time) }
// C03/C07: result of adding d nanoseconds to a date-time (leap-line model for the time of day, carry applied to the date)
spec fn dt_add_post(x: NaiveDateTime, d: int, r: Option<NaiveDateTime>) -> bool {
    let m = add_model(x.time, d);
    if m.0 {
        r.is_some() && dwf(r.unwrap().date) && dn(r.unwrap().date) == dn(x.date) && twf(r.unwrap().time) && r.unwrap().time.secs == x.time.secs && tpos(r.unwrap().time) == m.1
    } else {
        let total = dn(x.date) * DAYNS() + m.1;
        (r.is_some() <==> DN_MIN() * DAYNS() <= total < (DN_MAX() + 1) * DAYNS())
        && (r.is_some() ==> dtwf(r.unwrap()) && nonleap(r.unwrap().time) && instant(r.unwrap()) == total)
    }
}
// wall clock = utc + offset seconds, whole days carried into the date; the sub-second field is kept (C04)
spec fn shifted(x: NaiveDateTime, off: int, r: NaiveDateTime) -> bool {
    r.time.frac == x.time.frac && twf(r.time)
    && dn(r.date) * 86400 + r.time.secs as int == dn(x.date) * 86400 + x.time.secs as int + off
}
spec fn instant(x: NaiveDateTime) -> int { dn(x.date) * DAYNS() + tpos(x.time) }
spec fn unix_secs(x: NaiveDateTime) -> int { (dn(x.date) - UNIX_DAY()) * 86400 + x.time.secs as int }
// carry of whole days from the time of day into the date (used by NaiveDateTime::checked_add_signed / checked_sub_signed)
proof fn dt_carry(dnx: int, m1: int, tp: int, c: int)
    requires c % 86400 == 0, 0 <= tp < DAYNS(), tp + c * 1_000_000_000 == m1, DN_MIN() <= dnx <= DN_MAX()
    ensures trunc_div(c * 1_000_000_000, DAYNS()) == c / 86400,
            trunc_div(-(c * 1_000_000_000), DAYNS()) == -(c / 86400),
            (dnx + c / 86400) * DAYNS() + tp == dnx * DAYNS() + m1,
            (DN_MIN() <= dnx + c / 86400 <= DN_MAX()) <==> (DN_MIN() * DAYNS() <= dnx * DAYNS() + m1 < (DN_MAX() + 1) * DAYNS()),
            (c * 1_000_000_000 < -LIM() || c * 1_000_000_000 > LIM()) ==> !(DN_MIN() <= dnx + c / 86400 <= DN_MAX())
{
    let q = c / 86400;
    assert(c == q * 86400);
    assert(c * 1_000_000_000 == q * DAYNS()) by(nonlinear_arith) requires c == q * 86400, DAYNS() == 86400 * 1_000_000_000int;
    assert(trunc_div(q * DAYNS(), DAYNS()) == q && trunc_div(-(q * DAYNS()), DAYNS()) == -q) by {
        lemma_div_multiples_vanish(q, DAYNS()); lemma_div_multiples_vanish(-q, DAYNS());
        assert((-q) * DAYNS() == -(q * DAYNS())) by(nonlinear_arith);
    }
    assert((dnx + q) * DAYNS() == dnx * DAYNS() + q * DAYNS()) by(nonlinear_arith);
    let t = dnx + q;
    assert((DN_MIN() <= t) <==> (DN_MIN() * DAYNS() <= t * DAYNS() + tp)) by(nonlinear_arith) requires 0 <= tp < DAYNS(), DAYNS() > 0;
    assert((t <= DN_MAX()) <==> (t * DAYNS() + tp < (DN_MAX() + 1) * DAYNS())) by(nonlinear_arith) requires 0 <= tp < DAYNS(), DAYNS() > 0;
}
'''


def stubify(text):
    """turn every `proof fn` of `text` into an external_body axiom (its proof lives in the unit that owns the lemma)"""
    import re
    out = []
    i = 0
    for m in re.finditer(r'^proof fn (\w+)', text, flags=re.M):
        out.append(text[i:m.start()])
        # find the body: first '{' at paren depth 0 after the parameter list
        k = text.index('(', m.end())
        depth = 0
        while True:
            ch = text[k]
            if ch == '(':
                depth += 1
            elif ch == ')':
                depth -= 1
            elif ch == '{' and depth == 0:
                break
            k += 1
        # matching close
        d2 = 0
        e = k
        while True:
            if text[e] == '{':
                d2 += 1
            elif text[e] == '}':
                d2 -= 1
                if d2 == 0:
                    break
            e += 1
        out.append('#[verifier::external_body]\n' + text[m.start():k] + '{ unimplemented!() }')
        i = e + 1
    out.append(text[i:])
    return ''.join(out)


# calendar lemmas as axioms for units other than `date` (which proves them); RUST_DIV lemmas likewise (proved in `timedelta`)
CALENDAR_AX = stubify(CALENDAR).replace('spec fn leaps_before', '#[verifier::opaque]\nspec fn leaps_before')
RUST_DIV_AX = stubify(RUST_DIV)
DATE_VIEW_AX = stubify(DATE_VIEW)
