            }
        } else {
            Err(ParseMonthError { _dummy: () })
        }
    }
}

#[cfg(kani)]
mod verif_kani {
    use super::*;
    use core::str::FromStr;

    fn lower(b: u8) -> u8 { if b >= b'A' && b <= b'Z' { b + 32 } else { b } }
    fn eq_ci(s: &[u8], name: &[u8]) -> bool {
        if s.len() != name.len() { return false; }
        let mut i = 0;
        while i < s.len() { if lower(s[i]) != name[i] { return false; } i += 1; }
        true
    }

    #[kani::proof]
    #[kani::unwind(14)]
    fn weekday_from_str_bounded12() {
        let buf: [u8; 12] = kani::any();
        let len: usize = kani::any();
        kani::assume(len <= 12);
        let mut i = 0;
        while i < 12 { kani::assume(buf[i] < 128); i += 1; }
        let s = unsafe { core::str::from_utf8_unchecked(&buf[..len]) };
        let r = Weekday::from_str(s);
        let b = &buf[..len];
        let names: [(&[u8], &[u8], Weekday); 7] = [
            (b"mon", b"monday", Weekday::Mon), (b"tue", b"tuesday", Weekday::Tue), (b"wed", b"wednesday", Weekday::Wed),
            (b"thu", b"thursday", Weekday::Thu), (b"fri", b"friday", Weekday::Fri), (b"sat", b"saturday", Weekday::Sat),
            (b"sun", b"sunday", Weekday::Sun)];
        let mut expect: Option<Weekday> = None;
        let mut k = 0;
        while k < 7 { if eq_ci(b, names[k].0) || eq_ci(b, names[k].1) { expect = Some(names[k].2); } k += 1; }
        match (r, expect) {
            (Ok(w), Some(e)) => assert!(w == e),
            (Err(_), None) => {}
            _ => assert!(false),
        }
    }
}
