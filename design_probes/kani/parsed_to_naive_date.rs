// Feasibility probe (NOT part of any check): appended to src/format/parsed.rs of a scratch copy.
// Measured on the unchanged tree: 645 checks, 644 pass, 1 FAILURE =
//   "attempt to subtract with overflow" at src/naive/date/mod.rs:325 (from_isoywd_opt, year - 1)
// reached with isoyear = i32::MIN (DESIGN §5 item 3). 569 s in all-properties mode.

#[cfg(kani)]
mod verif_kani {
    use super::*;
    use crate::Weekday;

    fn any_opt_i32() -> Option<i32> {
        if kani::any() {
            Some(kani::any())
        } else {
            None
        }
    }
    fn any_opt_u32() -> Option<u32> {
        if kani::any() {
            Some(kani::any())
        } else {
            None
        }
    }
    fn any_weekday() -> Weekday {
        let n: u8 = kani::any();
        kani::assume(n < 7);
        Weekday::try_from(n).unwrap()
    }
    fn any_parsed() -> Parsed {
        let mut p = Parsed::new();
        p.year = any_opt_i32();
        p.year_div_100 = any_opt_i32();
        p.year_mod_100 = any_opt_i32();
        p.isoyear = any_opt_i32();
        p.isoyear_div_100 = any_opt_i32();
        p.isoyear_mod_100 = any_opt_i32();
        p.quarter = any_opt_u32();
        p.month = any_opt_u32();
        p.week_from_sun = any_opt_u32();
        p.week_from_mon = any_opt_u32();
        p.isoweek = any_opt_u32();
        p.weekday = if kani::any() { Some(any_weekday()) } else { None };
        p.ordinal = any_opt_u32();
        p.day = any_opt_u32();
        p
    }

    #[kani::proof]
    fn to_naive_date_agrees() {
        let p = any_parsed();
        if let Ok(d) = p.to_naive_date() {
            if let Some(y) = p.year {
                assert!(d.year() == y);
            }
            if let Some(q) = p.year_div_100 {
                assert!(d.year() >= 0 && d.year() / 100 == q);
            }
            if let Some(r) = p.year_mod_100 {
                assert!(d.year() >= 0 && d.year() % 100 == r);
            }
            if let Some(m) = p.month {
                assert!(d.month() == m);
            }
            if let Some(x) = p.day {
                assert!(d.day() == x);
            }
            if let Some(x) = p.ordinal {
                assert!(d.ordinal() == x);
            }
            if let Some(x) = p.weekday {
                assert!(d.weekday() == x);
            }
            if let Some(x) = p.quarter {
                assert!((d.month() - 1) / 3 + 1 == x);
            }
            if let Some(x) = p.isoyear {
                assert!(d.iso_week().year() == x);
            }
            if let Some(x) = p.isoweek {
                assert!(d.iso_week().week() == x);
            }
            if let Some(x) = p.week_from_sun {
                assert!(d.weeks_from(Weekday::Sun) == x as i32);
            }
            if let Some(x) = p.week_from_mon {
                assert!(d.weeks_from(Weekday::Mon) == x as i32);
            }
            if let Some(q) = p.isoyear_div_100 {
                assert!(d.iso_week().year() >= 0 && d.iso_week().year() / 100 == q);
            }
            if let Some(r) = p.isoyear_mod_100 {
                assert!(d.iso_week().year() >= 0 && d.iso_week().year() % 100 == r);
            }
        }
    }
}
