        let flags = YearFlags::from_year(2023);
        assert!(Mdf::new(13, 1, flags).is_none());
        assert!(Mdf::new(1, 32, flags).is_none());
    }
}

#[cfg(kani)]
mod verif_kani {
    use super::*;
    fn is_leap(y: i32) -> bool { y % 4 == 0 && (y % 100 != 0 || y % 400 == 0) }
    // reduced spec on the 400-year cycle: day number of Dec 31 of year r-1, r in 0..400 (year 0 = leap)
    fn dby(r: i32) -> i32 { let p = r - 1; 365 * p + p.div_euclid(4) - p.div_euclid(100) + p.div_euclid(400) }
    fn cum(leap: bool, m: u32) -> u32 {
        let l = leap as u32;
        match m { 1=>0, 2=>31, 3=>59+l, 4=>90+l, 5=>120+l, 6=>151+l, 7=>181+l, 8=>212+l, 9=>243+l, 10=>273+l, 11=>304+l, _=>334+l }
    }
    fn mlen(leap: bool, m: u32) -> u32 { match m { 1|3|5|7|8|10|12 => 31, 4|6|9|11 => 30, 2 => 28 + leap as u32, _ => 0 } }

    #[kani::proof]
    fn year_flags_table() {
        let r: i32 = kani::any();
        kani::assume(r >= 0 && r < 400);
        let f = YearFlags::from_year_mod_400(r).0;
        assert!((f & 0b1000 == 0) == is_leap(r));
        // weekday of Dec 31 of the previous year, Mon=0..Sun=6, stored with Monday as 7
        let wd = (dby(r) - 1).rem_euclid(7);           // day 1 is a Monday -> (n-1) mod 7
        let stored = (f & 0b111) as i32;
        assert!(stored != 0 && stored % 7 == wd);
        let y: i32 = kani::any();
        assert!(YearFlags::from_year(y).0 == YearFlags::from_year_mod_400(y.rem_euclid(400)).0);
    }

    #[kani::proof]
    fn mdf_tables() {
        let m: u32 = kani::any(); let d: u32 = kani::any(); let fl: u8 = kani::any();
        kani::assume(fl < 16);
        let leap = fl & 0b1000 == 0;
        match Mdf::new(m, d, YearFlags(fl)) {
            None => assert!(m > 12 || d > 31),
            Some(mdf) => {
                let valid = m >= 1 && m <= 12 && d >= 1 && d <= mlen(leap, m);
                assert!(mdf.ordinal().is_some() == valid);
                if let Some(o) = mdf.ordinal() {
                    assert!(o == cum(leap, m) + d);
                    let back = Mdf::from_ol(((o << 1) | (!leap) as u32) as i32, YearFlags(fl));
                    assert!(back.month() == m && back.day() == d);
                }
                assert!(mdf.month() == m && mdf.day() == d);
            }
        }
    }
}
