// Feasibility probe (NOT part of any check): appended to src/naive/date/mod.rs of a scratch
// copy and run with `CARGO_NET_OFFLINE=true cargo kani --harness <name>`.
// Measured on the unchanged tree (solver time): ymd_matches_spec 3.2 s, ord_is_lexicographic 1.1 s,
// succ_pred 13 s, iso_week_matches_spec 7 s, isoywd_roundtrip 25 s, isoywd_complete 51 s.
// num_days_matches_spec 587 s and from_num_days_inverse / weekday_matches_spec / add_days_matches_spec
// > 20 min each: day-count arithmetic belongs to Verus, not to CBMC.

#[cfg(kani)]
mod verif_kani {
    use super::*;

    fn spec_is_leap(y: i64) -> bool {
        y.rem_euclid(4) == 0 && (y.rem_euclid(100) != 0 || y.rem_euclid(400) == 0)
    }
    fn spec_mdays(y: i64, m: u32) -> u32 {
        match m {
            1 | 3 | 5 | 7 | 8 | 10 | 12 => 31,
            4 | 6 | 9 | 11 => 30,
            2 => {
                if spec_is_leap(y) {
                    29
                } else {
                    28
                }
            }
            _ => 0,
        }
    }
    fn spec_cum(y: i64, m: u32) -> u32 {
        let l = spec_is_leap(y) as u32;
        match m {
            1 => 0,
            2 => 31,
            3 => 59 + l,
            4 => 90 + l,
            5 => 120 + l,
            6 => 151 + l,
            7 => 181 + l,
            8 => 212 + l,
            9 => 243 + l,
            10 => 273 + l,
            11 => 304 + l,
            12 => 334 + l,
            _ => 0,
        }
    }
    fn spec_days_before_year(y: i64) -> i64 {
        let p = y - 1;
        365 * p + p.div_euclid(4) - p.div_euclid(100) + p.div_euclid(400)
    }

    /// Any value satisfying the representation invariant of `NaiveDate` (and nothing more).
    fn any_date() -> NaiveDate {
        let yof: i32 = kani::any();
        let year = yof >> 13;
        let ord = (yof >> 4) & 0x1ff;
        let flags = YearFlags::from_year(year);
        kani::assume(year >= MIN_YEAR && year <= MAX_YEAR);
        kani::assume(ord >= 1 && ord <= flags.ndays() as i32);
        kani::assume((yof & 0xf) == flags.0 as i32);
        NaiveDate::from_yof(yof)
    }
    fn any_weekday() -> Weekday {
        let n: u8 = kani::any();
        kani::assume(n < 7);
        Weekday::try_from(n).unwrap()
    }

    #[kani::proof]
    fn ymd_matches_spec() {
        let y: i32 = kani::any();
        let m: u32 = kani::any();
        let d: u32 = kani::any();
        let r = NaiveDate::from_ymd_opt(y, m, d);
        let valid = y >= -262143
            && y <= 262142
            && m >= 1
            && m <= 12
            && d >= 1
            && d <= spec_mdays(y as i64, m);
        assert!(r.is_some() == valid);
        if let Some(dt) = r {
            assert!(dt.year() == y);
            assert!(dt.month() == m);
            assert!(dt.day() == d);
            assert!(dt.ordinal() == spec_cum(y as i64, m) + d);
        }
    }

    // relational ISO spec: the Thursday of the week decides the ISO year; week = (ord_thu-1)/7+1
    fn spec_iso(y: i32, o: u32, wd: u32) -> (i32, u32) {
        let len_prev = 365 + spec_is_leap(y as i64 - 1) as i32;
        let len = 365 + spec_is_leap(y as i64) as i32;
        let t = o as i32 + 3 - wd as i32;
        if t < 1 {
            (y - 1, ((t + len_prev - 1) / 7 + 1) as u32)
        } else if t > len {
            (y + 1, ((t - len - 1) / 7 + 1) as u32)
        } else {
            (y, ((t - 1) / 7 + 1) as u32)
        }
    }

    #[kani::proof]
    fn iso_week_matches_spec() {
        let d = any_date();
        let w = d.iso_week();
        let (sy, sw) = spec_iso(d.year(), d.ordinal(), d.weekday().num_days_from_monday());
        assert!(w.year() == sy);
        assert!(w.week() == sw);
    }

    #[kani::proof]
    fn isoywd_roundtrip() {
        let y: i32 = kani::any();
        // without this assumption the harness finds the `year - 1` overflow (DESIGN §5 item 3)
        kani::assume(y > i32::MIN && y < i32::MAX);
        let w: u32 = kani::any();
        let wd = any_weekday();
        if let Some(d) = NaiveDate::from_isoywd_opt(y, w, wd) {
            assert!(d.iso_week().year() == y);
            assert!(d.iso_week().week() == w);
            assert!(d.weekday() == wd);
            assert!(d.year() >= MIN_YEAR && d.year() <= MAX_YEAR);
        }
    }

    #[kani::proof]
    fn isoywd_complete() {
        let d = any_date();
        let w = d.iso_week();
        let r = NaiveDate::from_isoywd_opt(w.year(), w.week(), d.weekday());
        assert!(r == Some(d));
    }

    #[kani::proof]
    fn succ_pred() {
        let d = any_date();
        match d.succ_opt() {
            Some(e) => {
                let len = 365 + spec_is_leap(d.year() as i64) as u32;
                if d.ordinal() < len {
                    assert!(e.year() == d.year() && e.ordinal() == d.ordinal() + 1);
                } else {
                    assert!(e.year() == d.year() + 1 && e.ordinal() == 1);
                }
                assert!(e.weekday() == d.weekday().succ());
                assert!(e.pred_opt() == Some(d));
                assert!(d < e);
            }
            None => assert!(d == NaiveDate::MAX),
        }
    }

    #[kani::proof]
    fn ord_is_lexicographic() {
        let a = any_date();
        let b = any_date();
        assert!((a < b) == ((a.year(), a.ordinal()) < (b.year(), b.ordinal())));
        assert!((a == b) == ((a.year(), a.ordinal()) == (b.year(), b.ordinal())));
    }

    // Too slow for CBMC (kept to document the split): 587 s
    #[kani::proof]
    fn num_days_matches_spec() {
        let d = any_date();
        let n = d.num_days_from_ce();
        assert!(n as i64 == spec_days_before_year(d.year() as i64) + d.ordinal() as i64);
    }
}
