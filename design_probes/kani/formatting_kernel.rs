            let bytes = s.as_bytes();
            let mut i = 0;
            while i < bytes.len() {
                if self.n >= 16 { return Err(core::fmt::Error); }
                self.b[self.n] = bytes[i]; self.n += 1; i += 1;
            }
            Ok(())
        }
        fn write_char(&mut self, c: char) -> core::fmt::Result {
            let v = c as u32;
            if v >= 128 || self.n >= 16 { return Err(core::fmt::Error); }
            self.b[self.n] = v as u8; self.n += 1; Ok(())
        }
    }

    #[kani::proof]
    fn offset_format_minutes_colon() {
        let secs: i32 = kani::any();
        kani::assume(secs > -86400 && secs < 86400);
        let off = FixedOffset::east_opt(secs).unwrap();
        let zulu: bool = kani::any();
        let f = OffsetFormat { precision: OffsetPrecision::Minutes, colons: Colons::Colon, allow_zulu: zulu, padding: Pad::Zero };
        let mut w = Buf { b: [0; 16], n: 0 };
        let r = f.format(&mut w, off);
        assert!(r.is_ok());
        if zulu && secs == 0 { assert!(w.n == 1 && w.b[0] == b'Z'); }
        else {
            let a = if secs < 0 { -secs } else { secs };
            let m = (a + 30) / 60; // documented: rounded to the nearest minute
            let (hh, mm) = (m / 60, m % 60);
            assert!(w.n == 6);
            assert!(w.b[0] == if secs < 0 { b'-' } else { b'+' });
            assert!(w.b[1] == b'0' + (hh / 10) as u8 && w.b[2] == b'0' + (hh % 10) as u8);
            assert!(w.b[3] == b':');
            assert!(w.b[4] == b'0' + (mm / 10) as u8 && w.b[5] == b'0' + (mm % 10) as u8);
        }
    }

    fn any_date() -> NaiveDate {
        let y: i32 = kani::any(); let o: u32 = kani::any();
        match NaiveDate::from_yo_opt(y, o) { Some(d) => d, None => { kani::assume(false); unreachable!() } }
    }

    #[kani::proof]
    fn numeric_yeardiv100() {
        let d = any_date();
        let df = DelayedFormat::new(Some(d), None, core::iter::empty::<Item<'static>>());
        let mut w = Buf { b: [0; 16], n: 0 };
        let r = df.format_numeric(&mut w, &Numeric::YearDiv100, Pad::Zero);
        assert!(r.is_ok());
        let c = d.year().div_euclid(100);
        if c >= 0 && c <= 99 {
            assert!(w.n == 2 && w.b[0] == b'0' + (c / 10) as u8 && w.b[1] == b'0' + (c % 10) as u8);
        } else {
            // documented: decimal number, so never a non-digit, non-sign byte
            assert!(w.b[0] == b'-' || (w.b[0] >= b'0' && w.b[0] <= b'9'));
        }
    }

    #[kani::proof]
    fn numeric_month_day() {
        let d = any_date();
        let df = DelayedFormat::new(Some(d), None, core::iter::empty::<Item<'static>>());
        let mut w = Buf { b: [0; 16], n: 0 };
        let r = df.format_numeric(&mut w, &Numeric::Day, Pad::Space);
        assert!(r.is_ok());
        let v = d.day();
        assert!(w.n == 2 && w.b[0] == (if v < 10 { b' ' } else { b'0' + (v / 10) as u8 }) && w.b[1] == b'0' + (v % 10) as u8);
    }
}
