    }
}

#[cfg(kani)]
mod verif_kani {
    use super::*;
    use num_traits::FromPrimitive;
    #[kani::proof]
    fn month_from_u64() {
        let n: u64 = kani::any();
        let r = Month::from_u64(n);
        assert!(r.is_some() == (n >= 1 && n <= 12));
    }
}
