// Feasibility probe: appended to src/datetime/mod.rs. Measured: eq_ord_hash_ignore_offset 15 s, getters_never_panic_at_range_ends 172 s (both SUCCESSFUL).
const UNIX_EPOCH_DAY: i64 = 719_163;

#[cfg(kani)]
mod verif_kani {
    use super::*;
    use crate::{FixedOffset, NaiveDate, NaiveDateTime, NaiveTime, TimeZone, Datelike, Timelike};
    use core::hash::{Hash, Hasher};

    fn any_offset() -> FixedOffset {
        let s: i32 = kani::any();
        kani::assume(s > -86400 && s < 86400);
        FixedOffset::east_opt(s).unwrap()
    }
    fn any_ndt() -> NaiveDateTime {
        let y: i32 = kani::any(); let o: u32 = kani::any();
        let d = match NaiveDate::from_yo_opt(y, o) { Some(d) => d, None => { kani::assume(false); unreachable!() } };
        let secs: u32 = kani::any(); let frac: u32 = kani::any();
        let t = match NaiveTime::from_num_seconds_from_midnight_opt(secs, frac) { Some(t) => t, None => { kani::assume(false); unreachable!() } };
        NaiveDateTime::new(d, t)
    }
    struct Rec { acc: u64, n: u32 }
    impl Hasher for Rec {
        fn finish(&self) -> u64 { self.acc }
        fn write(&mut self, bytes: &[u8]) { let mut i = 0; while i < bytes.len() { self.acc = self.acc.wrapping_mul(257).wrapping_add(bytes[i] as u64); self.n += 1; i += 1; } }
    }

    #[kani::proof]
    #[kani::unwind(9)]
    fn eq_ord_hash_ignore_offset() {
        let u = any_ndt();
        let a = any_offset().from_utc_datetime(&u);
        let b = any_offset().from_utc_datetime(&u);
        assert!(a == b);
        assert!(a.cmp(&b) == core::cmp::Ordering::Equal);
        let mut h1 = Rec { acc: 0, n: 0 }; let mut h2 = Rec { acc: 0, n: 0 };
        a.hash(&mut h1); b.hash(&mut h2);
        assert!(h1.acc == h2.acc && h1.n == h2.n);
        assert!(a.naive_utc() == u && a.with_timezone(&crate::Utc).naive_utc() == u);
    }

    #[kani::proof]
    fn getters_never_panic_at_range_ends() {
        let u = any_ndt();
        let dt = any_offset().from_utc_datetime(&u);
        let _ = (dt.year(), dt.month(), dt.day(), dt.ordinal(), dt.weekday(), dt.hour(), dt.minute(), dt.second(), dt.nanosecond());
        let _ = dt.iso_week();
        let _ = dt.checked_add_days(crate::Days::new(0));
        let _ = dt.with_day(1);
    }
}
