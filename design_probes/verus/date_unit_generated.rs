use vstd::prelude::*;
use vstd::arithmetic::div_mod::*;
use core::num::NonZeroI32;
macro_rules! try_opt { ($e:expr) => { match $e { Some(v) => v, None => return None, } }; }
verus! {
pub assume_specification [i32::rem_euclid] (x: i32, d: i32) -> (r: i32)
    requires d > 0, ensures r == (x as int) % (d as int);
pub assume_specification [i32::div_euclid] (x: i32, d: i32) -> (r: i32)
    requires d > 0, ensures r == (x as int) / (d as int);

// ---------------- calendar spec (independent of the code) ----------------
spec fn is_leap(y: int) -> bool { y % 4 == 0 && (y % 100 != 0 || y % 400 == 0) }
spec fn year_len(y: int) -> int { if is_leap(y) { 366 } else { 365 } }
spec fn days_before_year(y: int) -> int { let p = y - 1; 365 * p + p / 4 - p / 100 + p / 400 }
spec fn day_number(y: int, o: int) -> int { days_before_year(y) + o }
spec fn MIN_Y() -> int { -262143 }
spec fn MAX_Y() -> int { 262142 }
spec fn DN_MIN() -> int { day_number(MIN_Y(), 1) }
spec fn DN_MAX() -> int { day_number(MAX_Y(), 365) }

// cycle form used by the code
spec fn leaps_before(ym: int) -> int { (ym + 3) / 4 - (ym + 99) / 100 + (ym + 399) / 400 }
spec fn cyc(ym: int, ord: int) -> int { ym * 365 + leaps_before(ym) + ord - 1 }

proof fn lb_step(ym: int)
    requires 0 <= ym < 400
    ensures leaps_before(ym + 1) == leaps_before(ym) + (if is_leap(ym) { 1int } else { 0int }),
            0 <= leaps_before(ym) <= 97, leaps_before(400) == 97, leaps_before(0) == 0
{}

proof fn dby_step(y: int)
    ensures days_before_year(y + 1) == days_before_year(y) + year_len(y)
{}

proof fn dby_mono(a: int, b: int)
    requires a <= b
    ensures 365 * (b - a) <= days_before_year(b) - days_before_year(a) <= 366 * (b - a)
    decreases b - a
{
    if a < b { dby_mono(a, b - 1); dby_step(b - 1); }
}

proof fn in_range(y: int, o: int)
    requires 1 <= o <= year_len(y)
    ensures (MIN_Y() <= y <= MAX_Y()) <==> (DN_MIN() <= day_number(y, o) <= DN_MAX())
{
    dby_step(y); dby_step(MAX_Y());
    if y >= MIN_Y() { dby_mono(MIN_Y(), y); } else { dby_mono(y + 1, MIN_Y()); }
    if y <= MAX_Y() { dby_mono(y + 1, MAX_Y() + 1); } else { dby_mono(MAX_Y() + 1, y); }
}

proof fn slow_path(y: int, o: int, days: int, cdiv: int, cmod: int, y2mod: int, o2: int)
    requires 1 <= o <= year_len(y),
             cdiv == (cyc(y % 400, o) + days) / 146097, cmod == (cyc(y % 400, o) + days) % 146097,
             0 <= y2mod < 400, 1 <= o2 <= year_len(y2mod), cyc(y2mod, o2) == cmod
    ensures ({ let y2 = (y / 400 + cdiv) * 400 + y2mod;
               day_number(y2, o2) == day_number(y, o) + days && 1 <= o2 <= year_len(y2) && y2 % 400 == y2mod
               && ((MIN_Y() <= y2 <= MAX_Y()) <==> (DN_MIN() <= day_number(y, o) + days <= DN_MAX())) })
{
    let y2 = (y / 400 + cdiv) * 400 + y2mod;
    dn_cycle(y, o); dn_cycle(y2, o2);
    assert(y2 / 400 == y / 400 + cdiv && y2 % 400 == y2mod);
    in_range(y2, o2);
}

proof fn dn_cycle(y: int, o: int)
    ensures day_number(y, o) == 146097 * (y / 400) + cyc(y % 400, o) - 365,
            is_leap(y) == is_leap(y % 400)
{
    let q = y / 400; let ym = y % 400;
    assert(y == 400 * q + ym);
}

// ---------------- abstract view of the packed date ----------------
#[derive(Clone, Copy)]
struct YearFlags(u8);
#[derive(Clone, Copy)]
struct NaiveDate { yof: NonZeroI32 }
#[derive(Clone, Copy)]
struct TimeDelta { secs: i64, nanos: i32 }
#[derive(Clone, Copy)]
struct Days(u64);

uninterp spec fn v_yof(d: NaiveDate) -> int;
uninterp spec fn flags400(ym: int) -> int;
spec fn flags_of(y: int) -> int { flags400(y % 400) }
spec fn v_year(d: NaiveDate) -> int { v_yof(d) / 8192 }
spec fn v_ord(d: NaiveDate) -> int { (v_yof(d) % 8192) / 16 }
spec fn v_flags(d: NaiveDate) -> int { v_yof(d) % 16 }
spec fn wf(d: NaiveDate) -> bool {
    MIN_Y() <= v_year(d) <= MAX_Y() && 1 <= v_ord(d) <= year_len(v_year(d)) && v_flags(d) == flags_of(v_year(d))
    && -2147483648 <= v_yof(d) <= 2147483647
}
spec fn dn(d: NaiveDate) -> int { day_number(v_year(d), v_ord(d)) }

spec fn td_ns(t: TimeDelta) -> int { t.secs as int * 1_000_000_000 + t.nanos as int }
spec fn trunc_div(a: int, b: int) -> int { if a >= 0 { a / b } else { -((-a) / b) } }

impl TimeDelta {
    #[verifier::external_body]
    const fn num_days(&self) -> (r: i64)
        ensures r as int == trunc_div(td_ns(*self), 86_400_000_000_000)
    { unimplemented!() }
    #[verifier::external_body]
    const fn try_days(days: i64) -> (r: Option<TimeDelta>)
        ensures r.is_some() <==> -9223372036854775807int * 1000000 <= days as int * 86_400_000_000_000 <= 9223372036854775807int * 1000000,
                r.is_some() ==> td_ns(r.unwrap()) == days as int * 86_400_000_000_000
    { unimplemented!() }
}
#[verifier::external_body]
const fn expect<T: Copy>(opt: Option<T>, msg: &str) -> (r: T)
    requires opt.is_some() ensures r == opt.unwrap()
{ unimplemented!() }

impl YearFlags {
    #[verifier::external_body]
    const fn from_year_mod_400(year: i32) -> (r: YearFlags)
        requires 0 <= year < 400 ensures r.0 as int == flags400(year as int)
    { unimplemented!() }
}
exec const MAX_YEAR: i32 ensures MAX_YEAR == 262142 { assert(i32::MAX >> 13u32 == 262143i32) by(bit_vector); (i32::MAX >> 13) - 1 }
exec const MIN_YEAR: i32 ensures MIN_YEAR == -262143 { assert(i32::MIN >> 13u32 == -262144i32) by(bit_vector); (i32::MIN >> 13) + 1 }
const ORDINAL_MASK: i32 = 0b1_1111_1111_0000;
const LEAP_YEAR_MASK: i32 = 0b1000;
const OL_MASK: i32 = 0b1_1111_1111_1000;
const MAX_OL: i32 = 5856;
const YEAR_DELTAS: &'static [u8; 401] = &[
    0, 1, 1, 1, 1, 2, 2, 2, 2, 3, 3, 3, 3, 4, 4, 4, 4, 5, 5, 5, 5, 6, 6, 6, 6, 7, 7, 7, 7, 8, 8, 8,
    8, 9, 9, 9, 9, 10, 10, 10, 10, 11, 11, 11, 11, 12, 12, 12, 12, 13, 13, 13, 13, 14, 14, 14, 14,
    15, 15, 15, 15, 16, 16, 16, 16, 17, 17, 17, 17, 18, 18, 18, 18, 19, 19, 19, 19, 20, 20, 20, 20,
    21, 21, 21, 21, 22, 22, 22, 22, 23, 23, 23, 23, 24, 24, 24, 24, 25, 25, 25, // 100
    25, 25, 25, 25, 25, 26, 26, 26, 26, 27, 27, 27, 27, 28, 28, 28, 28, 29, 29, 29, 29, 30, 30, 30,
    30, 31, 31, 31, 31, 32, 32, 32, 32, 33, 33, 33, 33, 34, 34, 34, 34, 35, 35, 35, 35, 36, 36, 36,
    36, 37, 37, 37, 37, 38, 38, 38, 38, 39, 39, 39, 39, 40, 40, 40, 40, 41, 41, 41, 41, 42, 42, 42,
    42, 43, 43, 43, 43, 44, 44, 44, 44, 45, 45, 45, 45, 46, 46, 46, 46, 47, 47, 47, 47, 48, 48, 48,
    48, 49, 49, 49, // 200
    49, 49, 49, 49, 49, 50, 50, 50, 50, 51, 51, 51, 51, 52, 52, 52, 52, 53, 53, 53, 53, 54, 54, 54,
    54, 55, 55, 55, 55, 56, 56, 56, 56, 57, 57, 57, 57, 58, 58, 58, 58, 59, 59, 59, 59, 60, 60, 60,
    60, 61, 61, 61, 61, 62, 62, 62, 62, 63, 63, 63, 63, 64, 64, 64, 64, 65, 65, 65, 65, 66, 66, 66,
    66, 67, 67, 67, 67, 68, 68, 68, 68, 69, 69, 69, 69, 70, 70, 70, 70, 71, 71, 71, 71, 72, 72, 72,
    72, 73, 73, 73, // 300
    73, 73, 73, 73, 73, 74, 74, 74, 74, 75, 75, 75, 75, 76, 76, 76, 76, 77, 77, 77, 77, 78, 78, 78,
    78, 79, 79, 79, 79, 80, 80, 80, 80, 81, 81, 81, 81, 82, 82, 82, 82, 83, 83, 83, 83, 84, 84, 84,
    84, 85, 85, 85, 85, 86, 86, 86, 86, 87, 87, 87, 87, 88, 88, 88, 88, 89, 89, 89, 89, 90, 90, 90,
    90, 91, 91, 91, 91, 92, 92, 92, 92, 93, 93, 93, 93, 94, 94, 94, 94, 95, 95, 95, 95, 96, 96, 96,
    96, 97, 97, 97, 97, // 400+1
];
proof fn table_ok()
    ensures forall|i: int| 0 <= i <= 400 ==> (#[trigger] YEAR_DELTAS[i]) as int == leaps_before(i)
{
    assert forall|i: int| 0 <= i <= 400 implies (#[trigger] YEAR_DELTAS[i]) as int == leaps_before(i) by {
        if i == 0 { assert(YEAR_DELTAS[0] as int == leaps_before(0)); }
        if i == 1 { assert(YEAR_DELTAS[1] as int == leaps_before(1)); }
        if i == 2 { assert(YEAR_DELTAS[2] as int == leaps_before(2)); }
        if i == 3 { assert(YEAR_DELTAS[3] as int == leaps_before(3)); }
        if i == 4 { assert(YEAR_DELTAS[4] as int == leaps_before(4)); }
        if i == 5 { assert(YEAR_DELTAS[5] as int == leaps_before(5)); }
        if i == 6 { assert(YEAR_DELTAS[6] as int == leaps_before(6)); }
        if i == 7 { assert(YEAR_DELTAS[7] as int == leaps_before(7)); }
        if i == 8 { assert(YEAR_DELTAS[8] as int == leaps_before(8)); }
        if i == 9 { assert(YEAR_DELTAS[9] as int == leaps_before(9)); }
        if i == 10 { assert(YEAR_DELTAS[10] as int == leaps_before(10)); }
        if i == 11 { assert(YEAR_DELTAS[11] as int == leaps_before(11)); }
        if i == 12 { assert(YEAR_DELTAS[12] as int == leaps_before(12)); }
        if i == 13 { assert(YEAR_DELTAS[13] as int == leaps_before(13)); }
        if i == 14 { assert(YEAR_DELTAS[14] as int == leaps_before(14)); }
        if i == 15 { assert(YEAR_DELTAS[15] as int == leaps_before(15)); }
        if i == 16 { assert(YEAR_DELTAS[16] as int == leaps_before(16)); }
        if i == 17 { assert(YEAR_DELTAS[17] as int == leaps_before(17)); }
        if i == 18 { assert(YEAR_DELTAS[18] as int == leaps_before(18)); }
        if i == 19 { assert(YEAR_DELTAS[19] as int == leaps_before(19)); }
        if i == 20 { assert(YEAR_DELTAS[20] as int == leaps_before(20)); }
        if i == 21 { assert(YEAR_DELTAS[21] as int == leaps_before(21)); }
        if i == 22 { assert(YEAR_DELTAS[22] as int == leaps_before(22)); }
        if i == 23 { assert(YEAR_DELTAS[23] as int == leaps_before(23)); }
        if i == 24 { assert(YEAR_DELTAS[24] as int == leaps_before(24)); }
        if i == 25 { assert(YEAR_DELTAS[25] as int == leaps_before(25)); }
        if i == 26 { assert(YEAR_DELTAS[26] as int == leaps_before(26)); }
        if i == 27 { assert(YEAR_DELTAS[27] as int == leaps_before(27)); }
        if i == 28 { assert(YEAR_DELTAS[28] as int == leaps_before(28)); }
        if i == 29 { assert(YEAR_DELTAS[29] as int == leaps_before(29)); }
        if i == 30 { assert(YEAR_DELTAS[30] as int == leaps_before(30)); }
        if i == 31 { assert(YEAR_DELTAS[31] as int == leaps_before(31)); }
        if i == 32 { assert(YEAR_DELTAS[32] as int == leaps_before(32)); }
        if i == 33 { assert(YEAR_DELTAS[33] as int == leaps_before(33)); }
        if i == 34 { assert(YEAR_DELTAS[34] as int == leaps_before(34)); }
        if i == 35 { assert(YEAR_DELTAS[35] as int == leaps_before(35)); }
        if i == 36 { assert(YEAR_DELTAS[36] as int == leaps_before(36)); }
        if i == 37 { assert(YEAR_DELTAS[37] as int == leaps_before(37)); }
        if i == 38 { assert(YEAR_DELTAS[38] as int == leaps_before(38)); }
        if i == 39 { assert(YEAR_DELTAS[39] as int == leaps_before(39)); }
        if i == 40 { assert(YEAR_DELTAS[40] as int == leaps_before(40)); }
        if i == 41 { assert(YEAR_DELTAS[41] as int == leaps_before(41)); }
        if i == 42 { assert(YEAR_DELTAS[42] as int == leaps_before(42)); }
        if i == 43 { assert(YEAR_DELTAS[43] as int == leaps_before(43)); }
        if i == 44 { assert(YEAR_DELTAS[44] as int == leaps_before(44)); }
        if i == 45 { assert(YEAR_DELTAS[45] as int == leaps_before(45)); }
        if i == 46 { assert(YEAR_DELTAS[46] as int == leaps_before(46)); }
        if i == 47 { assert(YEAR_DELTAS[47] as int == leaps_before(47)); }
        if i == 48 { assert(YEAR_DELTAS[48] as int == leaps_before(48)); }
        if i == 49 { assert(YEAR_DELTAS[49] as int == leaps_before(49)); }
        if i == 50 { assert(YEAR_DELTAS[50] as int == leaps_before(50)); }
        if i == 51 { assert(YEAR_DELTAS[51] as int == leaps_before(51)); }
        if i == 52 { assert(YEAR_DELTAS[52] as int == leaps_before(52)); }
        if i == 53 { assert(YEAR_DELTAS[53] as int == leaps_before(53)); }
        if i == 54 { assert(YEAR_DELTAS[54] as int == leaps_before(54)); }
        if i == 55 { assert(YEAR_DELTAS[55] as int == leaps_before(55)); }
        if i == 56 { assert(YEAR_DELTAS[56] as int == leaps_before(56)); }
        if i == 57 { assert(YEAR_DELTAS[57] as int == leaps_before(57)); }
        if i == 58 { assert(YEAR_DELTAS[58] as int == leaps_before(58)); }
        if i == 59 { assert(YEAR_DELTAS[59] as int == leaps_before(59)); }
        if i == 60 { assert(YEAR_DELTAS[60] as int == leaps_before(60)); }
        if i == 61 { assert(YEAR_DELTAS[61] as int == leaps_before(61)); }
        if i == 62 { assert(YEAR_DELTAS[62] as int == leaps_before(62)); }
        if i == 63 { assert(YEAR_DELTAS[63] as int == leaps_before(63)); }
        if i == 64 { assert(YEAR_DELTAS[64] as int == leaps_before(64)); }
        if i == 65 { assert(YEAR_DELTAS[65] as int == leaps_before(65)); }
        if i == 66 { assert(YEAR_DELTAS[66] as int == leaps_before(66)); }
        if i == 67 { assert(YEAR_DELTAS[67] as int == leaps_before(67)); }
        if i == 68 { assert(YEAR_DELTAS[68] as int == leaps_before(68)); }
        if i == 69 { assert(YEAR_DELTAS[69] as int == leaps_before(69)); }
        if i == 70 { assert(YEAR_DELTAS[70] as int == leaps_before(70)); }
        if i == 71 { assert(YEAR_DELTAS[71] as int == leaps_before(71)); }
        if i == 72 { assert(YEAR_DELTAS[72] as int == leaps_before(72)); }
        if i == 73 { assert(YEAR_DELTAS[73] as int == leaps_before(73)); }
        if i == 74 { assert(YEAR_DELTAS[74] as int == leaps_before(74)); }
        if i == 75 { assert(YEAR_DELTAS[75] as int == leaps_before(75)); }
        if i == 76 { assert(YEAR_DELTAS[76] as int == leaps_before(76)); }
        if i == 77 { assert(YEAR_DELTAS[77] as int == leaps_before(77)); }
        if i == 78 { assert(YEAR_DELTAS[78] as int == leaps_before(78)); }
        if i == 79 { assert(YEAR_DELTAS[79] as int == leaps_before(79)); }
        if i == 80 { assert(YEAR_DELTAS[80] as int == leaps_before(80)); }
        if i == 81 { assert(YEAR_DELTAS[81] as int == leaps_before(81)); }
        if i == 82 { assert(YEAR_DELTAS[82] as int == leaps_before(82)); }
        if i == 83 { assert(YEAR_DELTAS[83] as int == leaps_before(83)); }
        if i == 84 { assert(YEAR_DELTAS[84] as int == leaps_before(84)); }
        if i == 85 { assert(YEAR_DELTAS[85] as int == leaps_before(85)); }
        if i == 86 { assert(YEAR_DELTAS[86] as int == leaps_before(86)); }
        if i == 87 { assert(YEAR_DELTAS[87] as int == leaps_before(87)); }
        if i == 88 { assert(YEAR_DELTAS[88] as int == leaps_before(88)); }
        if i == 89 { assert(YEAR_DELTAS[89] as int == leaps_before(89)); }
        if i == 90 { assert(YEAR_DELTAS[90] as int == leaps_before(90)); }
        if i == 91 { assert(YEAR_DELTAS[91] as int == leaps_before(91)); }
        if i == 92 { assert(YEAR_DELTAS[92] as int == leaps_before(92)); }
        if i == 93 { assert(YEAR_DELTAS[93] as int == leaps_before(93)); }
        if i == 94 { assert(YEAR_DELTAS[94] as int == leaps_before(94)); }
        if i == 95 { assert(YEAR_DELTAS[95] as int == leaps_before(95)); }
        if i == 96 { assert(YEAR_DELTAS[96] as int == leaps_before(96)); }
        if i == 97 { assert(YEAR_DELTAS[97] as int == leaps_before(97)); }
        if i == 98 { assert(YEAR_DELTAS[98] as int == leaps_before(98)); }
        if i == 99 { assert(YEAR_DELTAS[99] as int == leaps_before(99)); }
        if i == 100 { assert(YEAR_DELTAS[100] as int == leaps_before(100)); }
        if i == 101 { assert(YEAR_DELTAS[101] as int == leaps_before(101)); }
        if i == 102 { assert(YEAR_DELTAS[102] as int == leaps_before(102)); }
        if i == 103 { assert(YEAR_DELTAS[103] as int == leaps_before(103)); }
        if i == 104 { assert(YEAR_DELTAS[104] as int == leaps_before(104)); }
        if i == 105 { assert(YEAR_DELTAS[105] as int == leaps_before(105)); }
        if i == 106 { assert(YEAR_DELTAS[106] as int == leaps_before(106)); }
        if i == 107 { assert(YEAR_DELTAS[107] as int == leaps_before(107)); }
        if i == 108 { assert(YEAR_DELTAS[108] as int == leaps_before(108)); }
        if i == 109 { assert(YEAR_DELTAS[109] as int == leaps_before(109)); }
        if i == 110 { assert(YEAR_DELTAS[110] as int == leaps_before(110)); }
        if i == 111 { assert(YEAR_DELTAS[111] as int == leaps_before(111)); }
        if i == 112 { assert(YEAR_DELTAS[112] as int == leaps_before(112)); }
        if i == 113 { assert(YEAR_DELTAS[113] as int == leaps_before(113)); }
        if i == 114 { assert(YEAR_DELTAS[114] as int == leaps_before(114)); }
        if i == 115 { assert(YEAR_DELTAS[115] as int == leaps_before(115)); }
        if i == 116 { assert(YEAR_DELTAS[116] as int == leaps_before(116)); }
        if i == 117 { assert(YEAR_DELTAS[117] as int == leaps_before(117)); }
        if i == 118 { assert(YEAR_DELTAS[118] as int == leaps_before(118)); }
        if i == 119 { assert(YEAR_DELTAS[119] as int == leaps_before(119)); }
        if i == 120 { assert(YEAR_DELTAS[120] as int == leaps_before(120)); }
        if i == 121 { assert(YEAR_DELTAS[121] as int == leaps_before(121)); }
        if i == 122 { assert(YEAR_DELTAS[122] as int == leaps_before(122)); }
        if i == 123 { assert(YEAR_DELTAS[123] as int == leaps_before(123)); }
        if i == 124 { assert(YEAR_DELTAS[124] as int == leaps_before(124)); }
        if i == 125 { assert(YEAR_DELTAS[125] as int == leaps_before(125)); }
        if i == 126 { assert(YEAR_DELTAS[126] as int == leaps_before(126)); }
        if i == 127 { assert(YEAR_DELTAS[127] as int == leaps_before(127)); }
        if i == 128 { assert(YEAR_DELTAS[128] as int == leaps_before(128)); }
        if i == 129 { assert(YEAR_DELTAS[129] as int == leaps_before(129)); }
        if i == 130 { assert(YEAR_DELTAS[130] as int == leaps_before(130)); }
        if i == 131 { assert(YEAR_DELTAS[131] as int == leaps_before(131)); }
        if i == 132 { assert(YEAR_DELTAS[132] as int == leaps_before(132)); }
        if i == 133 { assert(YEAR_DELTAS[133] as int == leaps_before(133)); }
        if i == 134 { assert(YEAR_DELTAS[134] as int == leaps_before(134)); }
        if i == 135 { assert(YEAR_DELTAS[135] as int == leaps_before(135)); }
        if i == 136 { assert(YEAR_DELTAS[136] as int == leaps_before(136)); }
        if i == 137 { assert(YEAR_DELTAS[137] as int == leaps_before(137)); }
        if i == 138 { assert(YEAR_DELTAS[138] as int == leaps_before(138)); }
        if i == 139 { assert(YEAR_DELTAS[139] as int == leaps_before(139)); }
        if i == 140 { assert(YEAR_DELTAS[140] as int == leaps_before(140)); }
        if i == 141 { assert(YEAR_DELTAS[141] as int == leaps_before(141)); }
        if i == 142 { assert(YEAR_DELTAS[142] as int == leaps_before(142)); }
        if i == 143 { assert(YEAR_DELTAS[143] as int == leaps_before(143)); }
        if i == 144 { assert(YEAR_DELTAS[144] as int == leaps_before(144)); }
        if i == 145 { assert(YEAR_DELTAS[145] as int == leaps_before(145)); }
        if i == 146 { assert(YEAR_DELTAS[146] as int == leaps_before(146)); }
        if i == 147 { assert(YEAR_DELTAS[147] as int == leaps_before(147)); }
        if i == 148 { assert(YEAR_DELTAS[148] as int == leaps_before(148)); }
        if i == 149 { assert(YEAR_DELTAS[149] as int == leaps_before(149)); }
        if i == 150 { assert(YEAR_DELTAS[150] as int == leaps_before(150)); }
        if i == 151 { assert(YEAR_DELTAS[151] as int == leaps_before(151)); }
        if i == 152 { assert(YEAR_DELTAS[152] as int == leaps_before(152)); }
        if i == 153 { assert(YEAR_DELTAS[153] as int == leaps_before(153)); }
        if i == 154 { assert(YEAR_DELTAS[154] as int == leaps_before(154)); }
        if i == 155 { assert(YEAR_DELTAS[155] as int == leaps_before(155)); }
        if i == 156 { assert(YEAR_DELTAS[156] as int == leaps_before(156)); }
        if i == 157 { assert(YEAR_DELTAS[157] as int == leaps_before(157)); }
        if i == 158 { assert(YEAR_DELTAS[158] as int == leaps_before(158)); }
        if i == 159 { assert(YEAR_DELTAS[159] as int == leaps_before(159)); }
        if i == 160 { assert(YEAR_DELTAS[160] as int == leaps_before(160)); }
        if i == 161 { assert(YEAR_DELTAS[161] as int == leaps_before(161)); }
        if i == 162 { assert(YEAR_DELTAS[162] as int == leaps_before(162)); }
        if i == 163 { assert(YEAR_DELTAS[163] as int == leaps_before(163)); }
        if i == 164 { assert(YEAR_DELTAS[164] as int == leaps_before(164)); }
        if i == 165 { assert(YEAR_DELTAS[165] as int == leaps_before(165)); }
        if i == 166 { assert(YEAR_DELTAS[166] as int == leaps_before(166)); }
        if i == 167 { assert(YEAR_DELTAS[167] as int == leaps_before(167)); }
        if i == 168 { assert(YEAR_DELTAS[168] as int == leaps_before(168)); }
        if i == 169 { assert(YEAR_DELTAS[169] as int == leaps_before(169)); }
        if i == 170 { assert(YEAR_DELTAS[170] as int == leaps_before(170)); }
        if i == 171 { assert(YEAR_DELTAS[171] as int == leaps_before(171)); }
        if i == 172 { assert(YEAR_DELTAS[172] as int == leaps_before(172)); }
        if i == 173 { assert(YEAR_DELTAS[173] as int == leaps_before(173)); }
        if i == 174 { assert(YEAR_DELTAS[174] as int == leaps_before(174)); }
        if i == 175 { assert(YEAR_DELTAS[175] as int == leaps_before(175)); }
        if i == 176 { assert(YEAR_DELTAS[176] as int == leaps_before(176)); }
        if i == 177 { assert(YEAR_DELTAS[177] as int == leaps_before(177)); }
        if i == 178 { assert(YEAR_DELTAS[178] as int == leaps_before(178)); }
        if i == 179 { assert(YEAR_DELTAS[179] as int == leaps_before(179)); }
        if i == 180 { assert(YEAR_DELTAS[180] as int == leaps_before(180)); }
        if i == 181 { assert(YEAR_DELTAS[181] as int == leaps_before(181)); }
        if i == 182 { assert(YEAR_DELTAS[182] as int == leaps_before(182)); }
        if i == 183 { assert(YEAR_DELTAS[183] as int == leaps_before(183)); }
        if i == 184 { assert(YEAR_DELTAS[184] as int == leaps_before(184)); }
        if i == 185 { assert(YEAR_DELTAS[185] as int == leaps_before(185)); }
        if i == 186 { assert(YEAR_DELTAS[186] as int == leaps_before(186)); }
        if i == 187 { assert(YEAR_DELTAS[187] as int == leaps_before(187)); }
        if i == 188 { assert(YEAR_DELTAS[188] as int == leaps_before(188)); }
        if i == 189 { assert(YEAR_DELTAS[189] as int == leaps_before(189)); }
        if i == 190 { assert(YEAR_DELTAS[190] as int == leaps_before(190)); }
        if i == 191 { assert(YEAR_DELTAS[191] as int == leaps_before(191)); }
        if i == 192 { assert(YEAR_DELTAS[192] as int == leaps_before(192)); }
        if i == 193 { assert(YEAR_DELTAS[193] as int == leaps_before(193)); }
        if i == 194 { assert(YEAR_DELTAS[194] as int == leaps_before(194)); }
        if i == 195 { assert(YEAR_DELTAS[195] as int == leaps_before(195)); }
        if i == 196 { assert(YEAR_DELTAS[196] as int == leaps_before(196)); }
        if i == 197 { assert(YEAR_DELTAS[197] as int == leaps_before(197)); }
        if i == 198 { assert(YEAR_DELTAS[198] as int == leaps_before(198)); }
        if i == 199 { assert(YEAR_DELTAS[199] as int == leaps_before(199)); }
        if i == 200 { assert(YEAR_DELTAS[200] as int == leaps_before(200)); }
        if i == 201 { assert(YEAR_DELTAS[201] as int == leaps_before(201)); }
        if i == 202 { assert(YEAR_DELTAS[202] as int == leaps_before(202)); }
        if i == 203 { assert(YEAR_DELTAS[203] as int == leaps_before(203)); }
        if i == 204 { assert(YEAR_DELTAS[204] as int == leaps_before(204)); }
        if i == 205 { assert(YEAR_DELTAS[205] as int == leaps_before(205)); }
        if i == 206 { assert(YEAR_DELTAS[206] as int == leaps_before(206)); }
        if i == 207 { assert(YEAR_DELTAS[207] as int == leaps_before(207)); }
        if i == 208 { assert(YEAR_DELTAS[208] as int == leaps_before(208)); }
        if i == 209 { assert(YEAR_DELTAS[209] as int == leaps_before(209)); }
        if i == 210 { assert(YEAR_DELTAS[210] as int == leaps_before(210)); }
        if i == 211 { assert(YEAR_DELTAS[211] as int == leaps_before(211)); }
        if i == 212 { assert(YEAR_DELTAS[212] as int == leaps_before(212)); }
        if i == 213 { assert(YEAR_DELTAS[213] as int == leaps_before(213)); }
        if i == 214 { assert(YEAR_DELTAS[214] as int == leaps_before(214)); }
        if i == 215 { assert(YEAR_DELTAS[215] as int == leaps_before(215)); }
        if i == 216 { assert(YEAR_DELTAS[216] as int == leaps_before(216)); }
        if i == 217 { assert(YEAR_DELTAS[217] as int == leaps_before(217)); }
        if i == 218 { assert(YEAR_DELTAS[218] as int == leaps_before(218)); }
        if i == 219 { assert(YEAR_DELTAS[219] as int == leaps_before(219)); }
        if i == 220 { assert(YEAR_DELTAS[220] as int == leaps_before(220)); }
        if i == 221 { assert(YEAR_DELTAS[221] as int == leaps_before(221)); }
        if i == 222 { assert(YEAR_DELTAS[222] as int == leaps_before(222)); }
        if i == 223 { assert(YEAR_DELTAS[223] as int == leaps_before(223)); }
        if i == 224 { assert(YEAR_DELTAS[224] as int == leaps_before(224)); }
        if i == 225 { assert(YEAR_DELTAS[225] as int == leaps_before(225)); }
        if i == 226 { assert(YEAR_DELTAS[226] as int == leaps_before(226)); }
        if i == 227 { assert(YEAR_DELTAS[227] as int == leaps_before(227)); }
        if i == 228 { assert(YEAR_DELTAS[228] as int == leaps_before(228)); }
        if i == 229 { assert(YEAR_DELTAS[229] as int == leaps_before(229)); }
        if i == 230 { assert(YEAR_DELTAS[230] as int == leaps_before(230)); }
        if i == 231 { assert(YEAR_DELTAS[231] as int == leaps_before(231)); }
        if i == 232 { assert(YEAR_DELTAS[232] as int == leaps_before(232)); }
        if i == 233 { assert(YEAR_DELTAS[233] as int == leaps_before(233)); }
        if i == 234 { assert(YEAR_DELTAS[234] as int == leaps_before(234)); }
        if i == 235 { assert(YEAR_DELTAS[235] as int == leaps_before(235)); }
        if i == 236 { assert(YEAR_DELTAS[236] as int == leaps_before(236)); }
        if i == 237 { assert(YEAR_DELTAS[237] as int == leaps_before(237)); }
        if i == 238 { assert(YEAR_DELTAS[238] as int == leaps_before(238)); }
        if i == 239 { assert(YEAR_DELTAS[239] as int == leaps_before(239)); }
        if i == 240 { assert(YEAR_DELTAS[240] as int == leaps_before(240)); }
        if i == 241 { assert(YEAR_DELTAS[241] as int == leaps_before(241)); }
        if i == 242 { assert(YEAR_DELTAS[242] as int == leaps_before(242)); }
        if i == 243 { assert(YEAR_DELTAS[243] as int == leaps_before(243)); }
        if i == 244 { assert(YEAR_DELTAS[244] as int == leaps_before(244)); }
        if i == 245 { assert(YEAR_DELTAS[245] as int == leaps_before(245)); }
        if i == 246 { assert(YEAR_DELTAS[246] as int == leaps_before(246)); }
        if i == 247 { assert(YEAR_DELTAS[247] as int == leaps_before(247)); }
        if i == 248 { assert(YEAR_DELTAS[248] as int == leaps_before(248)); }
        if i == 249 { assert(YEAR_DELTAS[249] as int == leaps_before(249)); }
        if i == 250 { assert(YEAR_DELTAS[250] as int == leaps_before(250)); }
        if i == 251 { assert(YEAR_DELTAS[251] as int == leaps_before(251)); }
        if i == 252 { assert(YEAR_DELTAS[252] as int == leaps_before(252)); }
        if i == 253 { assert(YEAR_DELTAS[253] as int == leaps_before(253)); }
        if i == 254 { assert(YEAR_DELTAS[254] as int == leaps_before(254)); }
        if i == 255 { assert(YEAR_DELTAS[255] as int == leaps_before(255)); }
        if i == 256 { assert(YEAR_DELTAS[256] as int == leaps_before(256)); }
        if i == 257 { assert(YEAR_DELTAS[257] as int == leaps_before(257)); }
        if i == 258 { assert(YEAR_DELTAS[258] as int == leaps_before(258)); }
        if i == 259 { assert(YEAR_DELTAS[259] as int == leaps_before(259)); }
        if i == 260 { assert(YEAR_DELTAS[260] as int == leaps_before(260)); }
        if i == 261 { assert(YEAR_DELTAS[261] as int == leaps_before(261)); }
        if i == 262 { assert(YEAR_DELTAS[262] as int == leaps_before(262)); }
        if i == 263 { assert(YEAR_DELTAS[263] as int == leaps_before(263)); }
        if i == 264 { assert(YEAR_DELTAS[264] as int == leaps_before(264)); }
        if i == 265 { assert(YEAR_DELTAS[265] as int == leaps_before(265)); }
        if i == 266 { assert(YEAR_DELTAS[266] as int == leaps_before(266)); }
        if i == 267 { assert(YEAR_DELTAS[267] as int == leaps_before(267)); }
        if i == 268 { assert(YEAR_DELTAS[268] as int == leaps_before(268)); }
        if i == 269 { assert(YEAR_DELTAS[269] as int == leaps_before(269)); }
        if i == 270 { assert(YEAR_DELTAS[270] as int == leaps_before(270)); }
        if i == 271 { assert(YEAR_DELTAS[271] as int == leaps_before(271)); }
        if i == 272 { assert(YEAR_DELTAS[272] as int == leaps_before(272)); }
        if i == 273 { assert(YEAR_DELTAS[273] as int == leaps_before(273)); }
        if i == 274 { assert(YEAR_DELTAS[274] as int == leaps_before(274)); }
        if i == 275 { assert(YEAR_DELTAS[275] as int == leaps_before(275)); }
        if i == 276 { assert(YEAR_DELTAS[276] as int == leaps_before(276)); }
        if i == 277 { assert(YEAR_DELTAS[277] as int == leaps_before(277)); }
        if i == 278 { assert(YEAR_DELTAS[278] as int == leaps_before(278)); }
        if i == 279 { assert(YEAR_DELTAS[279] as int == leaps_before(279)); }
        if i == 280 { assert(YEAR_DELTAS[280] as int == leaps_before(280)); }
        if i == 281 { assert(YEAR_DELTAS[281] as int == leaps_before(281)); }
        if i == 282 { assert(YEAR_DELTAS[282] as int == leaps_before(282)); }
        if i == 283 { assert(YEAR_DELTAS[283] as int == leaps_before(283)); }
        if i == 284 { assert(YEAR_DELTAS[284] as int == leaps_before(284)); }
        if i == 285 { assert(YEAR_DELTAS[285] as int == leaps_before(285)); }
        if i == 286 { assert(YEAR_DELTAS[286] as int == leaps_before(286)); }
        if i == 287 { assert(YEAR_DELTAS[287] as int == leaps_before(287)); }
        if i == 288 { assert(YEAR_DELTAS[288] as int == leaps_before(288)); }
        if i == 289 { assert(YEAR_DELTAS[289] as int == leaps_before(289)); }
        if i == 290 { assert(YEAR_DELTAS[290] as int == leaps_before(290)); }
        if i == 291 { assert(YEAR_DELTAS[291] as int == leaps_before(291)); }
        if i == 292 { assert(YEAR_DELTAS[292] as int == leaps_before(292)); }
        if i == 293 { assert(YEAR_DELTAS[293] as int == leaps_before(293)); }
        if i == 294 { assert(YEAR_DELTAS[294] as int == leaps_before(294)); }
        if i == 295 { assert(YEAR_DELTAS[295] as int == leaps_before(295)); }
        if i == 296 { assert(YEAR_DELTAS[296] as int == leaps_before(296)); }
        if i == 297 { assert(YEAR_DELTAS[297] as int == leaps_before(297)); }
        if i == 298 { assert(YEAR_DELTAS[298] as int == leaps_before(298)); }
        if i == 299 { assert(YEAR_DELTAS[299] as int == leaps_before(299)); }
        if i == 300 { assert(YEAR_DELTAS[300] as int == leaps_before(300)); }
        if i == 301 { assert(YEAR_DELTAS[301] as int == leaps_before(301)); }
        if i == 302 { assert(YEAR_DELTAS[302] as int == leaps_before(302)); }
        if i == 303 { assert(YEAR_DELTAS[303] as int == leaps_before(303)); }
        if i == 304 { assert(YEAR_DELTAS[304] as int == leaps_before(304)); }
        if i == 305 { assert(YEAR_DELTAS[305] as int == leaps_before(305)); }
        if i == 306 { assert(YEAR_DELTAS[306] as int == leaps_before(306)); }
        if i == 307 { assert(YEAR_DELTAS[307] as int == leaps_before(307)); }
        if i == 308 { assert(YEAR_DELTAS[308] as int == leaps_before(308)); }
        if i == 309 { assert(YEAR_DELTAS[309] as int == leaps_before(309)); }
        if i == 310 { assert(YEAR_DELTAS[310] as int == leaps_before(310)); }
        if i == 311 { assert(YEAR_DELTAS[311] as int == leaps_before(311)); }
        if i == 312 { assert(YEAR_DELTAS[312] as int == leaps_before(312)); }
        if i == 313 { assert(YEAR_DELTAS[313] as int == leaps_before(313)); }
        if i == 314 { assert(YEAR_DELTAS[314] as int == leaps_before(314)); }
        if i == 315 { assert(YEAR_DELTAS[315] as int == leaps_before(315)); }
        if i == 316 { assert(YEAR_DELTAS[316] as int == leaps_before(316)); }
        if i == 317 { assert(YEAR_DELTAS[317] as int == leaps_before(317)); }
        if i == 318 { assert(YEAR_DELTAS[318] as int == leaps_before(318)); }
        if i == 319 { assert(YEAR_DELTAS[319] as int == leaps_before(319)); }
        if i == 320 { assert(YEAR_DELTAS[320] as int == leaps_before(320)); }
        if i == 321 { assert(YEAR_DELTAS[321] as int == leaps_before(321)); }
        if i == 322 { assert(YEAR_DELTAS[322] as int == leaps_before(322)); }
        if i == 323 { assert(YEAR_DELTAS[323] as int == leaps_before(323)); }
        if i == 324 { assert(YEAR_DELTAS[324] as int == leaps_before(324)); }
        if i == 325 { assert(YEAR_DELTAS[325] as int == leaps_before(325)); }
        if i == 326 { assert(YEAR_DELTAS[326] as int == leaps_before(326)); }
        if i == 327 { assert(YEAR_DELTAS[327] as int == leaps_before(327)); }
        if i == 328 { assert(YEAR_DELTAS[328] as int == leaps_before(328)); }
        if i == 329 { assert(YEAR_DELTAS[329] as int == leaps_before(329)); }
        if i == 330 { assert(YEAR_DELTAS[330] as int == leaps_before(330)); }
        if i == 331 { assert(YEAR_DELTAS[331] as int == leaps_before(331)); }
        if i == 332 { assert(YEAR_DELTAS[332] as int == leaps_before(332)); }
        if i == 333 { assert(YEAR_DELTAS[333] as int == leaps_before(333)); }
        if i == 334 { assert(YEAR_DELTAS[334] as int == leaps_before(334)); }
        if i == 335 { assert(YEAR_DELTAS[335] as int == leaps_before(335)); }
        if i == 336 { assert(YEAR_DELTAS[336] as int == leaps_before(336)); }
        if i == 337 { assert(YEAR_DELTAS[337] as int == leaps_before(337)); }
        if i == 338 { assert(YEAR_DELTAS[338] as int == leaps_before(338)); }
        if i == 339 { assert(YEAR_DELTAS[339] as int == leaps_before(339)); }
        if i == 340 { assert(YEAR_DELTAS[340] as int == leaps_before(340)); }
        if i == 341 { assert(YEAR_DELTAS[341] as int == leaps_before(341)); }
        if i == 342 { assert(YEAR_DELTAS[342] as int == leaps_before(342)); }
        if i == 343 { assert(YEAR_DELTAS[343] as int == leaps_before(343)); }
        if i == 344 { assert(YEAR_DELTAS[344] as int == leaps_before(344)); }
        if i == 345 { assert(YEAR_DELTAS[345] as int == leaps_before(345)); }
        if i == 346 { assert(YEAR_DELTAS[346] as int == leaps_before(346)); }
        if i == 347 { assert(YEAR_DELTAS[347] as int == leaps_before(347)); }
        if i == 348 { assert(YEAR_DELTAS[348] as int == leaps_before(348)); }
        if i == 349 { assert(YEAR_DELTAS[349] as int == leaps_before(349)); }
        if i == 350 { assert(YEAR_DELTAS[350] as int == leaps_before(350)); }
        if i == 351 { assert(YEAR_DELTAS[351] as int == leaps_before(351)); }
        if i == 352 { assert(YEAR_DELTAS[352] as int == leaps_before(352)); }
        if i == 353 { assert(YEAR_DELTAS[353] as int == leaps_before(353)); }
        if i == 354 { assert(YEAR_DELTAS[354] as int == leaps_before(354)); }
        if i == 355 { assert(YEAR_DELTAS[355] as int == leaps_before(355)); }
        if i == 356 { assert(YEAR_DELTAS[356] as int == leaps_before(356)); }
        if i == 357 { assert(YEAR_DELTAS[357] as int == leaps_before(357)); }
        if i == 358 { assert(YEAR_DELTAS[358] as int == leaps_before(358)); }
        if i == 359 { assert(YEAR_DELTAS[359] as int == leaps_before(359)); }
        if i == 360 { assert(YEAR_DELTAS[360] as int == leaps_before(360)); }
        if i == 361 { assert(YEAR_DELTAS[361] as int == leaps_before(361)); }
        if i == 362 { assert(YEAR_DELTAS[362] as int == leaps_before(362)); }
        if i == 363 { assert(YEAR_DELTAS[363] as int == leaps_before(363)); }
        if i == 364 { assert(YEAR_DELTAS[364] as int == leaps_before(364)); }
        if i == 365 { assert(YEAR_DELTAS[365] as int == leaps_before(365)); }
        if i == 366 { assert(YEAR_DELTAS[366] as int == leaps_before(366)); }
        if i == 367 { assert(YEAR_DELTAS[367] as int == leaps_before(367)); }
        if i == 368 { assert(YEAR_DELTAS[368] as int == leaps_before(368)); }
        if i == 369 { assert(YEAR_DELTAS[369] as int == leaps_before(369)); }
        if i == 370 { assert(YEAR_DELTAS[370] as int == leaps_before(370)); }
        if i == 371 { assert(YEAR_DELTAS[371] as int == leaps_before(371)); }
        if i == 372 { assert(YEAR_DELTAS[372] as int == leaps_before(372)); }
        if i == 373 { assert(YEAR_DELTAS[373] as int == leaps_before(373)); }
        if i == 374 { assert(YEAR_DELTAS[374] as int == leaps_before(374)); }
        if i == 375 { assert(YEAR_DELTAS[375] as int == leaps_before(375)); }
        if i == 376 { assert(YEAR_DELTAS[376] as int == leaps_before(376)); }
        if i == 377 { assert(YEAR_DELTAS[377] as int == leaps_before(377)); }
        if i == 378 { assert(YEAR_DELTAS[378] as int == leaps_before(378)); }
        if i == 379 { assert(YEAR_DELTAS[379] as int == leaps_before(379)); }
        if i == 380 { assert(YEAR_DELTAS[380] as int == leaps_before(380)); }
        if i == 381 { assert(YEAR_DELTAS[381] as int == leaps_before(381)); }
        if i == 382 { assert(YEAR_DELTAS[382] as int == leaps_before(382)); }
        if i == 383 { assert(YEAR_DELTAS[383] as int == leaps_before(383)); }
        if i == 384 { assert(YEAR_DELTAS[384] as int == leaps_before(384)); }
        if i == 385 { assert(YEAR_DELTAS[385] as int == leaps_before(385)); }
        if i == 386 { assert(YEAR_DELTAS[386] as int == leaps_before(386)); }
        if i == 387 { assert(YEAR_DELTAS[387] as int == leaps_before(387)); }
        if i == 388 { assert(YEAR_DELTAS[388] as int == leaps_before(388)); }
        if i == 389 { assert(YEAR_DELTAS[389] as int == leaps_before(389)); }
        if i == 390 { assert(YEAR_DELTAS[390] as int == leaps_before(390)); }
        if i == 391 { assert(YEAR_DELTAS[391] as int == leaps_before(391)); }
        if i == 392 { assert(YEAR_DELTAS[392] as int == leaps_before(392)); }
        if i == 393 { assert(YEAR_DELTAS[393] as int == leaps_before(393)); }
        if i == 394 { assert(YEAR_DELTAS[394] as int == leaps_before(394)); }
        if i == 395 { assert(YEAR_DELTAS[395] as int == leaps_before(395)); }
        if i == 396 { assert(YEAR_DELTAS[396] as int == leaps_before(396)); }
        if i == 397 { assert(YEAR_DELTAS[397] as int == leaps_before(397)); }
        if i == 398 { assert(YEAR_DELTAS[398] as int == leaps_before(398)); }
        if i == 399 { assert(YEAR_DELTAS[399] as int == leaps_before(399)); }
        if i == 400 { assert(YEAR_DELTAS[400] as int == leaps_before(400)); }
    }
}
const fn div_mod_floor(val: i32, div: i32) -> (r: (i32, i32))
    requires div > 0,
    ensures r.0 == val as int / div as int, r.1 == val as int % div as int,
{
    (val.div_euclid(div), val.rem_euclid(div))
}

const fn yo_to_cycle(year_mod_400: u32, ordinal: u32) -> (r: u32)
    requires year_mod_400 < 400, 1 <= ordinal <= 366,
    ensures r as int == cyc(year_mod_400 as int, ordinal as int),
{
    proof { table_ok(); }
    year_mod_400 * 365 + YEAR_DELTAS[year_mod_400 as usize] as u32 + ordinal - 1
}

const fn cycle_to_yo(cycle: u32) -> (r: (u32, u32))
    requires cycle < 146097,
    ensures r.0 < 400, 1 <= r.1 <= year_len(r.0 as int), cyc(r.0 as int, r.1 as int) == cycle as int,
{
    let mut year_mod_400 = cycle / 365;
    let mut ordinal0 = cycle % 365;
    proof { table_ok(); assert(year_mod_400 <= 400); if year_mod_400 > 0 { lb_step(year_mod_400 as int - 1); } if year_mod_400 < 400 { lb_step(year_mod_400 as int); } }
    let delta = YEAR_DELTAS[year_mod_400 as usize] as u32;
    if ordinal0 < delta {
        year_mod_400 -= 1;
        ordinal0 += 365 - YEAR_DELTAS[year_mod_400 as usize] as u32;
    } else {
        ordinal0 -= delta;
    }
    (year_mod_400, ordinal0 + 1)
}

impl NaiveDate {
    #[verifier::external_body]
    const fn yof(&self) -> (r: i32) ensures r as int == v_yof(*self) { unimplemented!() }
    #[verifier::external_body]
    const fn year(&self) -> (r: i32) ensures r as int == v_year(*self) { unimplemented!() }
    #[verifier::external_body]
    const fn ordinal(&self) -> (r: u32) ensures r as int == v_ord(*self) { unimplemented!() }
    #[verifier::external_body]
    const fn leap_year(&self) -> (r: bool) requires wf(*self) ensures r == is_leap(v_year(*self)) { unimplemented!() }
    #[verifier::external_body]
    const fn from_yof(yof: i32) -> (r: NaiveDate) ensures v_yof(r) == yof as int { unimplemented!() }
    #[verifier::external_body]
    const fn from_ordinal_and_flags(year: i32, ordinal: u32, flags: YearFlags) -> (r: Option<NaiveDate>)
        requires flags.0 as int == flags_of(year as int)
        ensures r.is_some() <==> (MIN_Y() <= year <= MAX_Y() && 1 <= ordinal <= year_len(year as int)),
                r.is_some() ==> v_year(r.unwrap()) == year && v_ord(r.unwrap()) == ordinal && wf(r.unwrap())
    { unimplemented!() }
    const fn from_num_days_from_ce_opt(days: i32) -> (r: Option<NaiveDate>)
    ensures r.is_some() <==> DN_MIN() <= days as int <= DN_MAX(), r.is_some() ==> wf(r.unwrap()) && dn(r.unwrap()) == days as int,
{
        let days = try_opt!(days.checked_add(365)); // make December 31, 1 BCE equal to day 0
        let year_div_400 = days.div_euclid(146_097);
        let cycle = days.rem_euclid(146_097);
        proof { dn_cycle(MIN_Y(), 1); dn_cycle(MAX_Y(), 365); }
        let (year_mod_400, ordinal) = cycle_to_yo(cycle as u32);
        let flags = YearFlags::from_year_mod_400(year_mod_400 as i32);
        proof { dn_cycle(year_div_400 as int * 400 + year_mod_400 as int, ordinal as int); }
        NaiveDate::from_ordinal_and_flags(year_div_400 * 400 + year_mod_400 as i32, ordinal, flags)
    }

    const fn add_days(self, days: i32) -> (r: Option<Self>)
    requires wf(self),
    ensures r.is_some() <==> DN_MIN() <= dn(self) + days as int <= DN_MAX(), r.is_some() ==> wf(r.unwrap()) && dn(r.unwrap()) == dn(self) + days as int,
{
        // Fast path if the result is within the same year.
        // Also `DateTime::checked_(add|sub)_days` relies on this path, because if the value remains
        // within the year it doesn't do a check if the year is in range.
        // This way `DateTime:checked_(add|sub)_days(Days::new(0))` can be a no-op on dates were the
        // local datetime is beyond `NaiveDate::{MIN, MAX}.
        const ORDINAL_MASK: i32 = 0b1_1111_1111_0000;
        let ghost y0 = v_yof(self) as i32;
        proof { assert(((y0 & 0b1_1111_1111_0000i32) >> 4u32) == ((y0 as int) % 8192) / 16) by(bit_vector); }
        if let Some(ordinal) = ((self.yof() & ORDINAL_MASK) >> 4).checked_add(days) {
            if ordinal > 0 && ordinal <= (365 + self.leap_year() as i32) {
                let year_and_flags = self.yof() & !ORDINAL_MASK;
                proof { let n = (year_and_flags | (ordinal << 4)) as i32;
                  assert(((n as int) % 8192) / 16 == ordinal as int && (n as int) % 16 == (y0 as int) % 16 && (n as int) / 8192 == (y0 as int) / 8192) by(bit_vector)
                    requires 0 < ordinal <= 366, n == ((y0 & !0b1_1111_1111_0000i32) | (ordinal << 4u32));
                  in_range(v_year(self), ordinal as int); }
                return Some(NaiveDate::from_yof(year_and_flags | (ordinal << 4)));
            }
        }
        // do the full check
        let year = self.year();
        let (mut year_div_400, year_mod_400) = div_mod_floor(year, 400);
        let cycle = yo_to_cycle(year_mod_400 as u32, self.ordinal());
        let cycle = try_opt!((cycle as i32).checked_add(days));
        let (cycle_div_400y, cycle) = div_mod_floor(cycle, 146_097);
        year_div_400 += cycle_div_400y;

        let (year_mod_400, ordinal) = cycle_to_yo(cycle as u32);
        let flags = YearFlags::from_year_mod_400(year_mod_400 as i32);
        proof { slow_path(v_year(self), v_ord(self), days as int, cycle_div_400y as int, cycle as int, year_mod_400 as int, ordinal as int); }
        NaiveDate::from_ordinal_and_flags(year_div_400 * 400 + year_mod_400 as i32, ordinal, flags)
    }

    const fn num_days_from_ce(&self) -> (r: i32)
    requires wf(*self),
    ensures r as int == dn(*self),
{
        // we know this wouldn't overflow since year is limited to 1/2^13 of i32's full range.
        let mut year = self.year() - 1;
        let mut ndays = 0;
        if year < 0 {
            let excess = 1 + (-year) / 400;
            year += excess * 400;
            ndays -= excess * 146_097;
        }
        let div_100 = year / 100;
        proof { let a = (year * 1461) as i32; assert(0 <= year < 400 * 800);
          assert(a >> 2u32 == a / 4) by(bit_vector) requires a >= 0;
          assert(div_100 >> 2u32 == div_100 / 4) by(bit_vector) requires div_100 >= 0; }
        ndays += ((year * 1461) >> 2) - div_100 + (div_100 >> 2);
        ndays + self.ordinal() as i32
    }

    const fn signed_duration_since(self, rhs: NaiveDate) -> (r: TimeDelta)
    requires wf(self), wf(rhs),
    ensures td_ns(r) == (dn(self) - dn(rhs)) * 86_400_000_000_000,
{
        let year1 = self.year();
        let year2 = rhs.year();
        let (year1_div_400, year1_mod_400) = div_mod_floor(year1, 400);
        let (year2_div_400, year2_mod_400) = div_mod_floor(year2, 400);
        let cycle1 = yo_to_cycle(year1_mod_400 as u32, self.ordinal()) as i64;
        let cycle2 = yo_to_cycle(year2_mod_400 as u32, rhs.ordinal()) as i64;
        proof { dn_cycle(v_year(self), v_ord(self)); dn_cycle(v_year(rhs), v_ord(rhs)); dn_cycle(MIN_Y(), 1); dn_cycle(MAX_Y(), 365); }
        let days = (year1_div_400 as i64 - year2_div_400 as i64) * 146_097 + (cycle1 - cycle2);
        // The range of `TimeDelta` is ca. 585 million years, the range of `NaiveDate` ca. 525.000
        // years.
        expect(TimeDelta::try_days(days), "always in range")
    }

    const fn checked_add_days(self, days: Days) -> (r: Option<Self>)
    requires wf(self),
    ensures r.is_some() <==> DN_MIN() <= dn(self) + days.0 as int <= DN_MAX(), r.is_some() ==> wf(r.unwrap()) && dn(r.unwrap()) == dn(self) + days.0 as int,
{
        match days.0 <= i32::MAX as u64 {
            true => self.add_days(days.0 as i32),
            false => None,
        }
    }

    const fn checked_sub_days(self, days: Days) -> (r: Option<Self>)
    requires wf(self),
    ensures r.is_some() <==> DN_MIN() <= dn(self) - days.0 as int <= DN_MAX(), r.is_some() ==> wf(r.unwrap()) && dn(r.unwrap()) == dn(self) - days.0 as int,
{
        match days.0 <= i32::MAX as u64 {
            true => self.add_days(-(days.0 as i32)),
            false => None,
        }
    }

    const fn checked_add_signed(self, rhs: TimeDelta) -> (r: Option<NaiveDate>)
    requires wf(self),
    ensures r.is_some() <==> DN_MIN() <= dn(self) + trunc_div(td_ns(rhs), 86_400_000_000_000) <= DN_MAX(), r.is_some() ==> wf(r.unwrap()) && dn(r.unwrap()) == dn(self) + trunc_div(td_ns(rhs), 86_400_000_000_000),
{
        let days = rhs.num_days();
        if days < i32::MIN as i64 || days > i32::MAX as i64 {
            return None;
        }
        self.add_days(days as i32)
    }

}
} // verus!
fn main() {}
