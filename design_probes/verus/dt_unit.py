#!/usr/bin/env python3
# Probe: C02 timestamps + C03 NaiveDateTime add/sub/difference, real text.
import sys
import os
HERE = os.path.dirname(os.path.abspath(__file__))
OUT = os.environ.get('PROBE_OUT', '/var/tmp')
sys.path.insert(0, HERE)
from xprobe import *

DT = Src('/repo/src/datetime/mod.rs')
NDT = Src('/repo/src/naive/datetime/mod.rs')
impl_gen = DT.impl_body('impl<Tz: TimeZone> DateTime<Tz> {')
impl_utc = DT.impl_body('impl DateTime<Utc> {')
impl_ndt = NDT.impl_body('impl NaiveDateTime {')

PRE = r'''use vstd::prelude::*;
use vstd::arithmetic::div_mod::*;
macro_rules! try_opt { ($e:expr) => { match $e { Some(v) => v, None => return None, } }; }
verus! {
pub assume_specification [i64::rem_euclid] (x: i64, d: i64) -> (r: i64)
    requires d > 0, ensures r == (x as int) % (d as int);
pub assume_specification [i64::div_euclid] (x: i64, d: i64) -> (r: i64)
    requires d > 0, ensures r == (x as int) / (d as int);

spec fn DN_MIN() -> int { -95746811 }   // day_number(-262143, 1)   (checked against calendar.vrs by lemma in the real unit)
spec fn DN_MAX() -> int { 95745717 }    // day_number(262142, 365)
spec fn LIM() -> int { 9223372036854775807int * 1000000int }
spec fn trunc_div(a: int, b: int) -> int { if a >= 0 { a / b } else { -((-a) / b) } }
spec fn DAYNS() -> int { 86_400_000_000_000 }

trait Offset: Sized + Clone {}
trait TimeZone: Sized + Clone { type Offset: Offset; }
#[derive(Copy, Clone)] struct Utc;
impl Offset for Utc {}
impl TimeZone for Utc { type Offset = Utc; }

#[derive(Copy, Clone)] struct TimeDelta { secs: i64, nanos: i32 }
#[derive(Copy, Clone)] struct NaiveDate { yof: i32 }
#[derive(Copy, Clone)] struct NaiveTime { secs: u32, frac: u32 }
#[derive(Copy, Clone)] struct NaiveDateTime { date: NaiveDate, time: NaiveTime }
struct DateTime<Tz: TimeZone> { datetime: NaiveDateTime, offset: Tz::Offset }

uninterp spec fn dn(d: NaiveDate) -> int;
uninterp spec fn dwf(d: NaiveDate) -> bool;
spec fn twf(t: NaiveTime) -> bool { t.secs < 86400 && t.frac < 2_000_000_000 }
spec fn nonleap(t: NaiveTime) -> bool { t.frac < 1_000_000_000 }
spec fn ns(t: TimeDelta) -> int { t.secs as int * 1_000_000_000 + t.nanos as int }
spec fn tdinv(t: TimeDelta) -> bool { 0 <= t.nanos < 1_000_000_000 && -LIM() <= ns(t) <= LIM() }
spec fn wf(x: NaiveDateTime) -> bool { dwf(x.date) && twf(x.time) && DN_MIN() <= dn(x.date) <= DN_MAX() }
spec fn tpos(t: NaiveTime) -> int { t.secs as int * 1_000_000_000 + t.frac as int }
spec fn instant(x: NaiveDateTime) -> int { dn(x.date) * DAYNS() + tpos(x.time) }

#[verifier::external_body]
const fn expect<T>(opt: Option<T>, msg: &str) -> (r: T)
    requires opt.is_some() ensures r == opt.unwrap()
{ unimplemented!() }

impl TimeDelta {
    #[verifier::external_body]
    const fn try_seconds(seconds: i64) -> (r: Option<TimeDelta>)
        ensures r.is_some() <==> -LIM() <= seconds as int * 1_000_000_000 <= LIM(),
                r.is_some() ==> tdinv(r.unwrap()) && ns(r.unwrap()) == seconds as int * 1_000_000_000
    { unimplemented!() }
    #[verifier::external_body]
    const fn checked_add(&self, rhs: &TimeDelta) -> (r: Option<TimeDelta>)
        requires tdinv(*self), tdinv(*rhs)
        ensures r.is_some() <==> -LIM() <= ns(*self) + ns(*rhs) <= LIM(),
                r.is_some() ==> tdinv(r.unwrap()) && ns(r.unwrap()) == ns(*self) + ns(*rhs)
    { unimplemented!() }
}
impl NaiveDate {
    #[verifier::external_body]
    const fn from_num_days_from_ce_opt(days: i32) -> (r: Option<NaiveDate>)
        ensures r.is_some() <==> DN_MIN() <= days <= DN_MAX(), r.is_some() ==> dwf(r.unwrap()) && dn(r.unwrap()) == days
    { unimplemented!() }
    #[verifier::external_body]
    const fn num_days_from_ce(&self) -> (r: i32) requires dwf(*self) ensures r == dn(*self) { unimplemented!() }
    #[verifier::external_body]
    const fn and_time(&self, time: NaiveTime) -> (r: NaiveDateTime) ensures r.date == *self, r.time == time { unimplemented!() }
    #[verifier::external_body]
    const fn checked_add_signed(self, rhs: TimeDelta) -> (r: Option<NaiveDate>)
        requires dwf(self), DN_MIN() <= dn(self) <= DN_MAX()
        ensures r.is_some() <==> DN_MIN() <= dn(self) + trunc_div(ns(rhs), DAYNS()) <= DN_MAX(),
                r.is_some() ==> dwf(r.unwrap()) && dn(r.unwrap()) == dn(self) + trunc_div(ns(rhs), DAYNS())
    { unimplemented!() }
    #[verifier::external_body]
    const fn checked_sub_signed(self, rhs: TimeDelta) -> (r: Option<NaiveDate>)
        requires dwf(self), DN_MIN() <= dn(self) <= DN_MAX()
        ensures r.is_some() <==> DN_MIN() <= dn(self) - trunc_div(ns(rhs), DAYNS()) <= DN_MAX(),
                r.is_some() ==> dwf(r.unwrap()) && dn(r.unwrap()) == dn(self) - trunc_div(ns(rhs), DAYNS())
    { unimplemented!() }
    #[verifier::external_body]
    const fn signed_duration_since(self, rhs: NaiveDate) -> (r: TimeDelta)
        requires dwf(self), dwf(rhs), DN_MIN() <= dn(self) <= DN_MAX(), DN_MIN() <= dn(rhs) <= DN_MAX()
        ensures tdinv(r), ns(r) == (dn(self) - dn(rhs)) * DAYNS()
    { unimplemented!() }
}
impl NaiveTime {
    #[verifier::external_body]
    const fn from_num_seconds_from_midnight_opt(secs: u32, nano: u32) -> (r: Option<NaiveTime>)
        ensures r.is_some() <==> (secs < 86400 && (nano < 1_000_000_000 || (nano < 2_000_000_000 && secs % 60 == 59))),
                r.is_some() ==> r.unwrap().secs == secs && r.unwrap().frac == nano
    { unimplemented!() }
    #[verifier::external_body]
    const fn num_seconds_from_midnight(&self) -> (r: u32) ensures r == self.secs { unimplemented!() }
    #[verifier::external_body]
    const fn nanosecond(&self) -> (r: u32) ensures r == self.frac { unimplemented!() }
    // non-leap part of the C07 contract (proved in the naive_time unit)
    #[verifier::external_body]
    const fn overflowing_add_signed(&self, rhs: TimeDelta) -> (r: (NaiveTime, i64))
        requires twf(*self), tdinv(rhs)
        ensures twf(r.0), nonleap(*self) ==> nonleap(r.0) && tpos(r.0) + r.1 as int * 1_000_000_000 == tpos(*self) + ns(rhs) && r.1 as int % 86400 == 0
    { unimplemented!() }
    #[verifier::external_body]
    const fn overflowing_sub_signed(&self, rhs: TimeDelta) -> (r: (NaiveTime, i64))
        requires twf(*self), tdinv(rhs)
        ensures twf(r.0), nonleap(*self) ==> nonleap(r.0) && tpos(r.0) - r.1 as int * 1_000_000_000 == tpos(*self) - ns(rhs) && r.1 as int % 86400 == 0
    { unimplemented!() }
    #[verifier::external_body]
    const fn signed_duration_since(self, rhs: NaiveTime) -> (r: TimeDelta)
        requires twf(self), twf(rhs)
        ensures tdinv(r), -86_402_000_000_000 < ns(r) < 86_402_000_000_000, nonleap(self) && nonleap(rhs) ==> ns(r) == tpos(self) - tpos(rhs)
    { unimplemented!() }
}
'''

def methods(src, within, specs):
    out = []
    for name, kw in specs:
        sig, body = src.fn(name, within)
        out.append(emit_fn(sig, body, **kw))
    return '\n'.join(out)

epoch = fix_const(DT.const('UNIX_EPOCH_DAY'))

GEN = methods(DT, impl_gen, [
    ('timestamp', dict(requires="wf(self.datetime)", ensures="r as int == (dn(self.datetime.date) - 719163) * 86400 + self.datetime.time.secs as int")),
    ('timestamp_subsec_nanos', dict(ensures="r == self.datetime.time.frac")),
    ('timestamp_subsec_millis', dict(ensures="r as int == self.datetime.time.frac as int / 1_000_000")),
    ('timestamp_subsec_micros', dict(ensures="r as int == self.datetime.time.frac as int / 1_000")),
    ('timestamp_millis', dict(requires="wf(self.datetime)", ensures="r as int == ((dn(self.datetime.date) - 719163) * 86400 + self.datetime.time.secs as int) * 1000 + self.datetime.time.frac as int / 1_000_000")),
    ('timestamp_micros', dict(requires="wf(self.datetime)", ensures="r as int == ((dn(self.datetime.date) - 719163) * 86400 + self.datetime.time.secs as int) * 1_000_000 + self.datetime.time.frac as int / 1_000")),
    ('timestamp_nanos_opt', dict(requires="wf(self.datetime)",
        ensures="({ let v = ((dn(self.datetime.date) - 719163) * 86400 + self.datetime.time.secs as int) * 1_000_000_000 + self.datetime.time.frac as int; (nonleap(self.datetime.time) ==> (r.is_some() <==> i64::MIN <= v <= i64::MAX)) && (r.is_some() ==> r.unwrap() as int == v) })")),
])
TS_OK = "(DN_MIN() <= secs as int / 86400 + 719163 <= DN_MAX() && (nsecs < 1_000_000_000 || (nsecs < 2_000_000_000 && (secs as int % 86400) % 60 == 59)))"
UTC = methods(DT, impl_utc, [
    ('from_timestamp', dict(ensures="r.is_some() <==> " + TS_OK + ", r.is_some() ==> wf(r.unwrap().datetime) && dn(r.unwrap().datetime.date) == secs as int / 86400 + 719163 && r.unwrap().datetime.time.secs as int == secs as int % 86400 && r.unwrap().datetime.time.frac == nsecs")),
    ('from_timestamp_millis', dict(ensures="r.is_some() <==> (DN_MIN() <= (millis as int / 1000) / 86400 + 719163 <= DN_MAX()), r.is_some() ==> wf(r.unwrap().datetime) && (dn(r.unwrap().datetime.date) - 719163) * 86400_000 + r.unwrap().datetime.time.secs as int * 1000 + r.unwrap().datetime.time.frac as int / 1_000_000 == millis as int && r.unwrap().datetime.time.frac as int % 1_000_000 == 0")),
    ('from_timestamp_nanos', dict(ensures="wf(r.datetime) && ((dn(r.datetime.date) - 719163) * 86400 + r.datetime.time.secs as int) * 1_000_000_000 + r.datetime.time.frac as int == nanos as int && r.datetime.time.frac < 1_000_000_000")),
])
NDTM = methods(NDT, impl_ndt, [
    ('date', dict(ensures="r == self.date")),
    ('time', dict(ensures="r == self.time")),
    ('and_utc', dict(ensures="r.datetime == *self")),
    ('checked_add_signed', dict(requires="wf(self), tdinv(rhs)",
        ensures="nonleap(self.time) ==> ((r.is_some() <==> DN_MIN() * DAYNS() <= instant(self) + ns(rhs) < (DN_MAX() + 1) * DAYNS()) && (r.is_some() ==> wf(r.unwrap()) && nonleap(r.unwrap().time) && instant(r.unwrap()) == instant(self) + ns(rhs)))")),
    ('checked_sub_signed', dict(requires="wf(self), tdinv(rhs)",
        ensures="nonleap(self.time) ==> ((r.is_some() <==> DN_MIN() * DAYNS() <= instant(self) - ns(rhs) < (DN_MAX() + 1) * DAYNS()) && (r.is_some() ==> wf(r.unwrap()) && nonleap(r.unwrap().time) && instant(r.unwrap()) == instant(self) - ns(rhs)))")),
    ('signed_duration_since', dict(requires="wf(self), wf(rhs)",
        ensures="tdinv(r), nonleap(self.time) && nonleap(rhs.time) ==> ns(r) == instant(self) - instant(rhs)")),
])

out = PRE + epoch + '\nimpl<Tz: TimeZone> DateTime<Tz> {\n#[verifier::external_body]\nconst fn from_naive_utc_and_offset(datetime: NaiveDateTime, offset: Tz::Offset) -> (r: DateTime<Tz>) ensures r.datetime == datetime { unimplemented!() }\n' + GEN + '}\nimpl DateTime<Utc> {\n' + UTC + '}\nimpl NaiveDateTime {\n' + NDTM + '}\n} // verus!\nfn main() {}\n'
open(os.path.join(OUT, 'dt_unit.rs'), 'w').write(out)
print('ok')
