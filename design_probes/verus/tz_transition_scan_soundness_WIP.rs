use vstd::prelude::*;
use core::cmp::Ordering;
verus! {

#[derive(Copy, Clone)]
struct Transition { unix_leap_time: i64, local_time_type_index: usize }
#[derive(Copy, Clone)]
struct LocalTimeType { ut_offset: i32, is_dst: bool }
enum MappedLocalTime<T> { Single(T), Ambiguous(T, T), None }

struct TimeZoneRef<'a> { transitions: &'a [Transition], local_time_types: &'a [LocalTimeType] }

spec fn wf(tr: Seq<Transition>, lt: Seq<LocalTimeType>) -> bool {
    lt.len() > 0
    && (forall|i: int| 0 <= i < tr.len() ==> (#[trigger] tr[i]).local_time_type_index < lt.len())
    && (forall|i: int, j: int| 0 <= i < j < tr.len() ==> (#[trigger] tr[i]).unix_leap_time < (#[trigger] tr[j]).unix_leap_time)
    // safe-range hypothesis needed for no-overflow (this is what the current code cannot guarantee)
    && (forall|i: int| 0 <= i < tr.len() ==> -0x4000_0000_0000_0000 < (#[trigger] tr[i]).unix_leap_time < 0x4000_0000_0000_0000)
}

// type in effect in interval k: k=0 before first transition, k=i after transition i-1
spec fn interval_type(tr: Seq<Transition>, lt: Seq<LocalTimeType>, k: int) -> LocalTimeType {
    if k == 0 { lt[0] } else { lt[tr[k - 1].local_time_type_index as int] }
}
spec fn in_interval(tr: Seq<Transition>, k: int, u: int) -> bool {
    (k == 0 || tr[k - 1].unix_leap_time <= u) && (k == tr.len() || u < tr[k].unix_leap_time)
}
// "o is a correct offset for wall time `local`": the instant local - o.off is governed by type o
spec fn sound(tr: Seq<Transition>, lt: Seq<LocalTimeType>, local: int, o: LocalTimeType) -> bool {
    exists|k: int| 0 <= k <= tr.len() && #[trigger] interval_type(tr, lt, k) == o && in_interval(tr, k, local - o.ut_offset)
}

impl<'a> TimeZoneRef<'a> {
    fn from_local_table(&self, local_leap_time: i64) -> (r: Option<MappedLocalTime<LocalTimeType>>)
        requires wf(self.transitions@, self.local_time_types@), self.transitions@.len() > 0,
        ensures
            match r {
                Some(MappedLocalTime::Single(o)) => sound(self.transitions@, self.local_time_types@, local_leap_time as int, o),
                Some(MappedLocalTime::Ambiguous(a, b)) =>
                    sound(self.transitions@, self.local_time_types@, local_leap_time as int, a)
                    && sound(self.transitions@, self.local_time_types@, local_leap_time as int, b)
                    && a.ut_offset <= b.ut_offset,
                _ => true,
            }
    {
            let mut prev = self.local_time_types[0];

            for transition in it: self.transitions
                invariant
                    wf(self.transitions@, self.local_time_types@),
                    it.index@ <= self.transitions@.len(),
                    prev == interval_type(self.transitions@, self.local_time_types@, it.index@ as int),
                    it.index@ > 0 ==> self.transitions@[it.index@ - 1].unix_leap_time + prev.ut_offset < local_leap_time,
            {
                let after_ltt = self.local_time_types[transition.local_time_type_index];

                // the end and start here refers to where the time starts prior to the transition
                // and where it ends up after. not the temporal relationship.
                let transition_end = transition.unix_leap_time + i64::from(after_ltt.ut_offset);
                let transition_start = transition.unix_leap_time + i64::from(prev.ut_offset);
                proof {
                    let k = it.index@ as int;
                    assert(interval_type(self.transitions@, self.local_time_types@, k) == prev);
                    assert(interval_type(self.transitions@, self.local_time_types@, k + 1) == after_ltt);
                }

                match transition_start.cmp(&transition_end) {
                    Ordering::Greater => {
                        // backwards transition, eg from DST to regular
                        // this means a given local time could have one of two possible offsets
                        if local_leap_time < transition_end {
                            return Some(MappedLocalTime::Single(prev));
                        } else if local_leap_time >= transition_end
                            && local_leap_time <= transition_start
                        {
                            if prev.ut_offset < after_ltt.ut_offset {
                                return Some(MappedLocalTime::Ambiguous(prev, after_ltt));
                            } else {
                                return Some(MappedLocalTime::Ambiguous(after_ltt, prev));
                            }
                        }
                    }
                    Ordering::Equal => {
                        // should this ever happen? presumably we have to handle it anyway.
                        if local_leap_time < transition_start {
                            return Some(MappedLocalTime::Single(prev));
                        } else if local_leap_time == transition_end {
                            if prev.ut_offset < after_ltt.ut_offset {
                                return Some(MappedLocalTime::Ambiguous(prev, after_ltt));
                            } else {
                                return Some(MappedLocalTime::Ambiguous(after_ltt, prev));
                            }
                        }
                    }
                    Ordering::Less => {
                        // forwards transition, eg from regular to DST
                        // this means that times that are skipped are invalid local times
                        if local_leap_time <= transition_start {
                            return Some(MappedLocalTime::Single(prev));
                        } else if local_leap_time < transition_end {
                            return Some(MappedLocalTime::None);
                        } else if local_leap_time == transition_end {
                            return Some(MappedLocalTime::Single(after_ltt));
                        }
                    }
                }

                // try the next transition, we are fully after this one
                prev = after_ltt;
            }
            None
    }
}
} // verus!
fn main() {}
