#!/usr/bin/env python3
# Probe: NaiveDate day-count arithmetic unit, real text from /repo/src/naive/date/mod.rs
import sys
import os
HERE = os.path.dirname(os.path.abspath(__file__))
OUT = os.environ.get('PROBE_OUT', '/var/tmp')
sys.path.insert(0, HERE)
from xprobe import *

D = Src('/repo/src/naive/date/mod.rs')
impl = D.impl_body('impl NaiveDate {')

PRE = r'''use vstd::prelude::*;
use vstd::arithmetic::div_mod::*;
use core::num::NonZeroI32;
macro_rules! try_opt { ($e:expr) => { match $e { Some(v) => v, None => return None, } }; }
verus! {
pub assume_specification [i32::rem_euclid] (x: i32, d: i32) -> (r: i32)
    requires d > 0, ensures r == (x as int) % (d as int);
pub assume_specification [i32::div_euclid] (x: i32, d: i32) -> (r: i32)
    requires d > 0, ensures r == (x as int) / (d as int);

// ---------------- calendar spec (independent of the code) ----------------
spec fn is_leap(y: int) -> bool { y % 4 == 0 && (y % 100 != 0 || y % 400 == 0) }
spec fn year_len(y: int) -> int { if is_leap(y) { 366 } else { 365 } }
spec fn days_before_year(y: int) -> int { let p = y - 1; 365 * p + p / 4 - p / 100 + p / 400 }
spec fn day_number(y: int, o: int) -> int { days_before_year(y) + o }
spec fn MIN_Y() -> int { -262143 }
spec fn MAX_Y() -> int { 262142 }
spec fn DN_MIN() -> int { day_number(MIN_Y(), 1) }
spec fn DN_MAX() -> int { day_number(MAX_Y(), 365) }

// cycle form used by the code
spec fn leaps_before(ym: int) -> int { (ym + 3) / 4 - (ym + 99) / 100 + (ym + 399) / 400 }
spec fn cyc(ym: int, ord: int) -> int { ym * 365 + leaps_before(ym) + ord - 1 }

proof fn lb_step(ym: int)
    requires 0 <= ym < 400
    ensures leaps_before(ym + 1) == leaps_before(ym) + (if is_leap(ym) { 1int } else { 0int }),
            0 <= leaps_before(ym) <= 97, leaps_before(400) == 97, leaps_before(0) == 0
{}

proof fn dby_step(y: int)
    ensures days_before_year(y + 1) == days_before_year(y) + year_len(y)
{}

proof fn dby_mono(a: int, b: int)
    requires a <= b
    ensures 365 * (b - a) <= days_before_year(b) - days_before_year(a) <= 366 * (b - a)
    decreases b - a
{
    if a < b { dby_mono(a, b - 1); dby_step(b - 1); }
}

proof fn in_range(y: int, o: int)
    requires 1 <= o <= year_len(y)
    ensures (MIN_Y() <= y <= MAX_Y()) <==> (DN_MIN() <= day_number(y, o) <= DN_MAX())
{
    dby_step(y); dby_step(MAX_Y());
    if y >= MIN_Y() { dby_mono(MIN_Y(), y); } else { dby_mono(y + 1, MIN_Y()); }
    if y <= MAX_Y() { dby_mono(y + 1, MAX_Y() + 1); } else { dby_mono(MAX_Y() + 1, y); }
}

proof fn slow_path(y: int, o: int, days: int, cdiv: int, cmod: int, y2mod: int, o2: int)
    requires 1 <= o <= year_len(y),
             cdiv == (cyc(y % 400, o) + days) / 146097, cmod == (cyc(y % 400, o) + days) % 146097,
             0 <= y2mod < 400, 1 <= o2 <= year_len(y2mod), cyc(y2mod, o2) == cmod
    ensures ({ let y2 = (y / 400 + cdiv) * 400 + y2mod;
               day_number(y2, o2) == day_number(y, o) + days && 1 <= o2 <= year_len(y2) && y2 % 400 == y2mod
               && ((MIN_Y() <= y2 <= MAX_Y()) <==> (DN_MIN() <= day_number(y, o) + days <= DN_MAX())) })
{
    let y2 = (y / 400 + cdiv) * 400 + y2mod;
    dn_cycle(y, o); dn_cycle(y2, o2);
    assert(y2 / 400 == y / 400 + cdiv && y2 % 400 == y2mod);
    in_range(y2, o2);
}

proof fn dn_cycle(y: int, o: int)
    ensures day_number(y, o) == 146097 * (y / 400) + cyc(y % 400, o) - 365,
            is_leap(y) == is_leap(y % 400)
{
    let q = y / 400; let ym = y % 400;
    assert(y == 400 * q + ym);
}

// ---------------- abstract view of the packed date ----------------
#[derive(Clone, Copy)]
struct YearFlags(u8);
#[derive(Clone, Copy)]
struct NaiveDate { yof: NonZeroI32 }
#[derive(Clone, Copy)]
struct TimeDelta { secs: i64, nanos: i32 }
#[derive(Clone, Copy)]
struct Days(u64);

uninterp spec fn v_yof(d: NaiveDate) -> int;
uninterp spec fn flags400(ym: int) -> int;
spec fn flags_of(y: int) -> int { flags400(y % 400) }
spec fn v_year(d: NaiveDate) -> int { v_yof(d) / 8192 }
spec fn v_ord(d: NaiveDate) -> int { (v_yof(d) % 8192) / 16 }
spec fn v_flags(d: NaiveDate) -> int { v_yof(d) % 16 }
spec fn wf(d: NaiveDate) -> bool {
    MIN_Y() <= v_year(d) <= MAX_Y() && 1 <= v_ord(d) <= year_len(v_year(d)) && v_flags(d) == flags_of(v_year(d))
    && -2147483648 <= v_yof(d) <= 2147483647
}
spec fn dn(d: NaiveDate) -> int { day_number(v_year(d), v_ord(d)) }

spec fn td_ns(t: TimeDelta) -> int { t.secs as int * 1_000_000_000 + t.nanos as int }
spec fn trunc_div(a: int, b: int) -> int { if a >= 0 { a / b } else { -((-a) / b) } }

impl TimeDelta {
    #[verifier::external_body]
    const fn num_days(&self) -> (r: i64)
        ensures r as int == trunc_div(td_ns(*self), 86_400_000_000_000)
    { unimplemented!() }
    #[verifier::external_body]
    const fn try_days(days: i64) -> (r: Option<TimeDelta>)
        ensures r.is_some() <==> -9223372036854775807int * 1000000 <= days as int * 86_400_000_000_000 <= 9223372036854775807int * 1000000,
                r.is_some() ==> td_ns(r.unwrap()) == days as int * 86_400_000_000_000
    { unimplemented!() }
}
#[verifier::external_body]
const fn expect<T: Copy>(opt: Option<T>, msg: &str) -> (r: T)
    requires opt.is_some() ensures r == opt.unwrap()
{ unimplemented!() }

impl YearFlags {
    #[verifier::external_body]
    const fn from_year_mod_400(year: i32) -> (r: YearFlags)
        requires 0 <= year < 400 ensures r.0 as int == flags400(year as int)
    { unimplemented!() }
}
'''

consts = '\n'.join(fix_const(D.const(n)) for n in
                   ['MAX_YEAR', 'MIN_YEAR', 'ORDINAL_MASK', 'LEAP_YEAR_MASK', 'OL_MASK', 'MAX_OL', 'YEAR_DELTAS'])
# MIN_YEAR/MAX_YEAR use >> on i32 consts: state their values as obligations
consts = consts.replace("const MAX_YEAR: i32 = (i32::MAX >> 13) - 1;", "exec const MAX_YEAR: i32 ensures MAX_YEAR == 262142 { assert(i32::MAX >> 13u32 == 262143i32) by(bit_vector); (i32::MAX >> 13) - 1 }")
consts = consts.replace("const MIN_YEAR: i32 = (i32::MIN >> 13) + 1;", "exec const MIN_YEAR: i32 ensures MIN_YEAR == -262143 { assert(i32::MIN >> 13u32 == -262144i32) by(bit_vector); (i32::MIN >> 13) + 1 }")
consts = consts.replace("const OL_MASK: i32 = ORDINAL_MASK | LEAP_YEAR_MASK;", "const OL_MASK: i32 = 0b1_1111_1111_1000;")
consts = consts.replace("const MAX_OL: i32 = 366 << 4;", "const MAX_OL: i32 = 5856;")

table_cases = "\n        ".join(f"if i == {k} {{ assert(YEAR_DELTAS[{k}] as int == leaps_before({k})); }}" for k in range(401))
TABLE = '''
proof fn table_ok()
    ensures forall|i: int| 0 <= i <= 400 ==> (#[trigger] YEAR_DELTAS[i]) as int == leaps_before(i)
{
    assert forall|i: int| 0 <= i <= 400 implies (#[trigger] YEAR_DELTAS[i]) as int == leaps_before(i) by {
        ''' + table_cases + '''
    }
}
'''

STUBS = r'''
impl NaiveDate {
    #[verifier::external_body]
    const fn yof(&self) -> (r: i32) ensures r as int == v_yof(*self) { unimplemented!() }
    #[verifier::external_body]
    const fn year(&self) -> (r: i32) ensures r as int == v_year(*self) { unimplemented!() }
    #[verifier::external_body]
    const fn ordinal(&self) -> (r: u32) ensures r as int == v_ord(*self) { unimplemented!() }
    #[verifier::external_body]
    const fn leap_year(&self) -> (r: bool) requires wf(*self) ensures r == is_leap(v_year(*self)) { unimplemented!() }
    #[verifier::external_body]
    const fn from_yof(yof: i32) -> (r: NaiveDate) ensures v_yof(r) == yof as int { unimplemented!() }
    #[verifier::external_body]
    const fn from_ordinal_and_flags(year: i32, ordinal: u32, flags: YearFlags) -> (r: Option<NaiveDate>)
        requires flags.0 as int == flags_of(year as int)
        ensures r.is_some() <==> (MIN_Y() <= year <= MAX_Y() && 1 <= ordinal <= year_len(year as int)),
                r.is_some() ==> v_year(r.unwrap()) == year && v_ord(r.unwrap()) == ordinal && wf(r.unwrap())
    { unimplemented!() }
'''

fns = []
def F(name, within=impl, **kw):
    sig, body = D.fn(name, within)
    fns.append(emit_fn(sig, body, **kw))

RANGE = "DN_MIN() <= {e} <= DN_MAX()"
F('from_num_days_from_ce_opt',
  ensures="r.is_some() <==> " + RANGE.format(e="days as int") + ", r.is_some() ==> wf(r.unwrap()) && dn(r.unwrap()) == days as int",
  hints=[("let (year_mod_400, ordinal) = cycle_to_yo", "        proof { dn_cycle(MIN_Y(), 1); dn_cycle(MAX_Y(), 365); }"),
         ("NaiveDate::from_ordinal_and_flags(year_div_400 * 400", "        proof { dn_cycle(year_div_400 as int * 400 + year_mod_400 as int, ordinal as int); }")])
F('add_days',
  requires="wf(self)",
  ensures="r.is_some() <==> " + RANGE.format(e="dn(self) + days as int") + ", r.is_some() ==> wf(r.unwrap()) && dn(r.unwrap()) == dn(self) + days as int",
  hints=[("if let Some(ordinal) = ((self.yof() & ORDINAL_MASK) >> 4).checked_add(days)",
          "        let ghost y0 = v_yof(self) as i32;\n        proof { assert(((y0 & 0b1_1111_1111_0000i32) >> 4u32) == ((y0 as int) % 8192) / 16) by(bit_vector); }"),
         ("return Some(NaiveDate::from_yof(year_and_flags | (ordinal << 4)));",
          "                proof { let n = (year_and_flags | (ordinal << 4)) as i32;\n"
          "                  assert(((n as int) % 8192) / 16 == ordinal as int && (n as int) % 16 == (y0 as int) % 16 && (n as int) / 8192 == (y0 as int) / 8192) by(bit_vector)\n"
          "                    requires 0 < ordinal <= 366, n == ((y0 & !0b1_1111_1111_0000i32) | (ordinal << 4u32));\n"
          "                  in_range(v_year(self), ordinal as int); }"),
         ("NaiveDate::from_ordinal_and_flags(year_div_400 * 400", "        proof { slow_path(v_year(self), v_ord(self), days as int, cycle_div_400y as int, cycle as int, year_mod_400 as int, ordinal as int); }")])
F('num_days_from_ce', requires="wf(*self)", ensures="r as int == dn(*self)",
  hints=[("ndays += ((year * 1461) >> 2)", "        proof { let a = (year * 1461) as i32; assert(0 <= year < 400 * 800);\n"
          "          assert(a >> 2u32 == a / 4) by(bit_vector) requires a >= 0;\n"
          "          assert(div_100 >> 2u32 == div_100 / 4) by(bit_vector) requires div_100 >= 0; }")])
F('signed_duration_since', requires="wf(self), wf(rhs)",
  ensures="td_ns(r) == (dn(self) - dn(rhs)) * 86_400_000_000_000",
  hints=[("let days = (year1_div_400", "        proof { dn_cycle(v_year(self), v_ord(self)); dn_cycle(v_year(rhs), v_ord(rhs)); dn_cycle(MIN_Y(), 1); dn_cycle(MAX_Y(), 365); }")])
F('checked_add_days', requires="wf(self)",
  ensures="r.is_some() <==> " + RANGE.format(e="dn(self) + days.0 as int") + ", r.is_some() ==> wf(r.unwrap()) && dn(r.unwrap()) == dn(self) + days.0 as int")
F('checked_sub_days', requires="wf(self)",
  ensures="r.is_some() <==> " + RANGE.format(e="dn(self) - days.0 as int") + ", r.is_some() ==> wf(r.unwrap()) && dn(r.unwrap()) == dn(self) - days.0 as int")
F('checked_add_signed', requires="wf(self)",
  ensures="r.is_some() <==> " + RANGE.format(e="dn(self) + trunc_div(td_ns(rhs), 86_400_000_000_000)") +
          ", r.is_some() ==> wf(r.unwrap()) && dn(r.unwrap()) == dn(self) + trunc_div(td_ns(rhs), 86_400_000_000_000)")

free = []
sig, body = D.fn('div_mod_floor'); free.append(emit_fn(sig, body, requires="div > 0", ensures="r.0 == val as int / div as int, r.1 == val as int % div as int"))
sig, body = D.fn('yo_to_cycle'); free.append(emit_fn(sig, body, requires="year_mod_400 < 400, 1 <= ordinal <= 366", ensures="r as int == cyc(year_mod_400 as int, ordinal as int)", hints=[("year_mod_400 * 365", "    proof { table_ok(); }")]))
sig, body = D.fn('cycle_to_yo'); free.append(emit_fn(sig, body, requires="cycle < 146097",
    ensures="r.0 < 400, 1 <= r.1 <= year_len(r.0 as int), cyc(r.0 as int, r.1 as int) == cycle as int",
    hints=[("let delta = YEAR_DELTAS", "    proof { table_ok(); assert(year_mod_400 <= 400); if year_mod_400 > 0 { lb_step(year_mod_400 as int - 1); } if year_mod_400 < 400 { lb_step(year_mod_400 as int); } }")]))

out = PRE + consts + TABLE + '\n'.join(free) + STUBS + '\n'.join('    ' + f.replace('\n', '\n') for f in fns) + '\n}\n} // verus!\nfn main() {}\n'
open(os.path.join(OUT, 'date_unit.rs'), 'w').write(out)
print('ok', len(fns), 'methods')
