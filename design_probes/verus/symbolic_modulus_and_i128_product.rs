use vstd::prelude::*;
use vstd::arithmetic::div_mod::*;
verus! {
pub assume_specification [i64::abs] (x: i64) -> (r: i64)
    requires x > i64::MIN,
    ensures r == (if x < 0 { -(x as int) } else { x as int });

pub open spec fn floor_to(stamp: int, span: int) -> int { stamp - stamp % span }

// real code shape: round.rs duration_trunc core (stamp % span with Rust truncating remainder)
fn trunc_core(stamp: i64, span: i64) -> (r: i64)
    requires span > 0, 
    ensures
        (stamp as int - r as int) == floor_to(stamp as int, span as int),
        0 <= r < span,
{
    let delta_down = stamp % span;
    if delta_down == 0 { 0 }
    else if delta_down > 0 { delta_down }
    else { 
        proof { }
        span - delta_down.abs() }
}

// TimeDelta::checked_mul shape
pub struct TimeDelta { pub secs: i64, pub nanos: i32 }
impl TimeDelta {
    pub open spec fn wf(&self) -> bool { 0 <= self.nanos < 1_000_000_000 }
    pub open spec fn ns(&self) -> int { self.secs as int * 1_000_000_000 + self.nanos as int }
    pub fn mul_core(&self, rhs: i32) -> (r: (i128, i64))
        requires self.wf()
        ensures r.0 as int * 1_000_000_000 + r.1 as int == self.ns() * rhs as int, 0 <= r.1 < 1_000_000_000
    {
        assert(-2147483648 * 1_000_000_000 <= self.nanos as int * rhs as int <= 2147483648 * 1_000_000_000) by(nonlinear_arith)
            requires 0 <= self.nanos < 1_000_000_000, -2147483648 <= rhs <= 2147483647;
        let total_nanos = self.nanos as i64 * rhs as i64;
        let extra_secs = total_nanos / 1_000_000_000;
        let nanos = total_nanos % 1_000_000_000;
        let (extra_secs, nanos) = if nanos < 0 { (extra_secs - 1, nanos + 1_000_000_000) } else { (extra_secs, nanos) };
        assert(-9223372036854775808 * 2147483648 <= self.secs as int * rhs as int <= 9223372036854775808 * 2147483648) by(nonlinear_arith)
            requires -9223372036854775808 <= self.secs <= 9223372036854775807, -2147483648 <= rhs <= 2147483647;
        let secs: i128 = self.secs as i128 * rhs as i128 + extra_secs as i128;
        assert(secs as int * 1_000_000_000 + nanos as int == self.ns() * rhs as int) by(nonlinear_arith)
            requires secs as int == self.secs as int * rhs as int + extra_secs as int,
                     extra_secs as int * 1_000_000_000 + nanos as int == self.nanos as int * rhs as int,
                     self.ns() == self.secs as int * 1_000_000_000 + self.nanos as int;
        (secs, nanos)
    }
}
} // verus!
fn main() {}
