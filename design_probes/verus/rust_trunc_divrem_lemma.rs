use vstd::prelude::*;
use vstd::arithmetic::div_mod::*;
verus! {
spec fn abs(x: int) -> int { if x < 0 { -x } else { x } }
proof fn euclid(x: int, d: int)
    requires d != 0
    ensures x == d * (x / d) + (x % d), 0 <= x % d < abs(d)
{
    lemma_fundamental_div_mod(x, d);
    if d > 0 { lemma_mod_bound(x, d); } else { assert(0 <= x % d < -d) by(nonlinear_arith) requires d < 0; }
}
proof fn div_neg(a: int, b: int) requires b != 0, a < 0 ensures rust_div(a, b) == -((-a) / b), rust_rem(a, b) == -((-a) % b) { reveal(rust_div); reveal(rust_rem); }
proof fn div_sym(a: int, b: int) requires b != 0, a > 0 ensures rust_div(a, b) == -rust_div(-a, b), rust_rem(a, b) == -rust_rem(-a, b) { reveal(rust_div); reveal(rust_rem); }
proof fn div_zero(b: int) requires b != 0 ensures rust_div(0, b) == 0, rust_rem(0, b) == 0 { reveal(rust_div); reveal(rust_rem); }

proof fn rust_divrem(a: int, b: int)
    requires b != 0
    ensures a == rust_div(a, b) * b + rust_rem(a, b),
            abs(rust_rem(a, b)) < abs(b),
            (a >= 0 ==> rust_rem(a, b) >= 0) && (a <= 0 ==> rust_rem(a, b) <= 0)
{
    if a < 0 {
        div_neg(a, b); euclid(-a, b);
        assert(a == (-((-a) / b)) * b + (-((-a) % b))) by(nonlinear_arith) requires -a == b * ((-a) / b) + ((-a) % b);
    } else if a > 0 {
        div_sym(a, b); div_neg(-a, b); euclid(a, b);
        assert(a == (a / b) * b + (a % b)) by(nonlinear_arith) requires a == b * (a / b) + (a % b);
    } else {
        div_zero(b);
        assert(0 == 0 * b + 0) by(nonlinear_arith);
    }
}
} // verus!
fn main() {}
