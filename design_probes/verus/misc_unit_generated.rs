use vstd::prelude::*;
macro_rules! try_opt { ($e:expr) => { match $e { Some(v) => v, None => return None, } }; }
verus! {
pub assume_specification [i64::rem_euclid] (x: i64, d: i64) -> (r: i64) requires d > 0, ensures r == (x as int) % (d as int);
pub assume_specification [i64::div_euclid] (x: i64, d: i64) -> (r: i64) requires d > 0, ensures r == (x as int) / (d as int);
pub assume_specification [i32::rem_euclid] (x: i32, d: i32) -> (r: i32) requires d > 0, ensures r == (x as int) % (d as int);
pub assume_specification [i32::div_euclid] (x: i32, d: i32) -> (r: i32) requires d > 0, ensures r == (x as int) / (d as int);

spec fn is_leap(y: int) -> bool { y % 4 == 0 && (y % 100 != 0 || y % 400 == 0) }
spec fn month_len(y: int, m: int) -> int { if m == 2 { if is_leap(y) { 29 } else { 28 } } else if m == 4 || m == 6 || m == 9 || m == 11 { 30 } else { 31 } }
spec fn MIN_Y() -> int { -262143 }
spec fn MAX_Y() -> int { 262142 }
spec fn LIM() -> int { 9223372036854775807int * 1000000int }

#[derive(Copy, Clone)] struct TimeDelta { secs: i64, nanos: i32 }
#[derive(Copy, Clone)] struct FixedOffset { local_minus_utc: i32 }
#[derive(Copy, Clone)] struct NaiveTime { secs: u32, frac: u32 }
#[derive(Copy, Clone)] struct NaiveDate { yof: i32 }
#[derive(Copy, Clone)] struct NaiveDateTime { date: NaiveDate, time: NaiveTime }
#[derive(Copy, Clone)] struct Months(u32);
#[derive(Copy, Clone)] struct YearFlags(u8);
struct NaiveDateDaysIterator { value: NaiveDate }

spec fn ns(t: TimeDelta) -> int { t.secs as int * 1_000_000_000 + t.nanos as int }
spec fn tdinv(t: TimeDelta) -> bool { 0 <= t.nanos < 1_000_000_000 && -LIM() <= ns(t) <= LIM() }
spec fn twf(t: NaiveTime) -> bool { t.secs < 86400 && t.frac < 2_000_000_000 }
spec fn leap(t: NaiveTime) -> bool { t.frac >= 1_000_000_000 }
// position on the joint line that contains the leap second of whichever operand is leap
spec fn jpos(x: NaiveTime, other: NaiveTime) -> int {
    x.secs as int * 1_000_000_000 + x.frac as int + (if leap(other) && other.secs < x.secs { 1_000_000_000int } else { 0int })
}

uninterp spec fn dy(d: NaiveDate) -> int;   // year
uninterp spec fn dm(d: NaiveDate) -> int;   // month
uninterp spec fn dd(d: NaiveDate) -> int;   // day
uninterp spec fn dn(d: NaiveDate) -> int;   // day number
uninterp spec fn dwf(d: NaiveDate) -> bool; // in public range, well formed
spec fn dwf_facts(d: NaiveDate) -> bool { dwf(d) ==> MIN_Y() <= dy(d) <= MAX_Y() && 1 <= dm(d) <= 12 && 1 <= dd(d) <= month_len(dy(d), dm(d)) }

#[verifier::external_body]
const fn expect<T>(opt: Option<T>, msg: &str) -> (r: T) requires opt.is_some() ensures r == opt.unwrap() { unimplemented!() }

impl TimeDelta {
    #[verifier::external_body]
    const fn new(secs: i64, nanos: u32) -> (r: Option<TimeDelta>)
        ensures r.is_some() <==> (nanos < 1_000_000_000 && -LIM() <= secs as int * 1_000_000_000 + nanos as int <= LIM()),
                r.is_some() ==> tdinv(r.unwrap()) && ns(r.unwrap()) == secs as int * 1_000_000_000 + nanos as int
    { unimplemented!() }
}
impl FixedOffset {
    #[verifier::external_body]
    const fn local_minus_utc(&self) -> (r: i32) ensures r == self.local_minus_utc { unimplemented!() }
}
uninterp spec fn yf_year(f: YearFlags) -> int;
spec fn offwf(o: FixedOffset) -> bool { -86400 < o.local_minus_utc < 86400 }
impl YearFlags {
    #[verifier::external_body]
    const fn from_year(year: i32) -> (r: YearFlags) ensures yf_year(r) == year { unimplemented!() }
    #[verifier::external_body]
    const fn ndays(&self) -> (r: u32) ensures r == (if is_leap(yf_year(*self)) { 366int } else { 365int }) { unimplemented!() }
}
impl NaiveDate {
    #[verifier::external_body] const fn year(&self) -> (r: i32) requires dwf(*self) ensures r == dy(*self), dwf_facts(*self) { unimplemented!() }
    #[verifier::external_body] const fn month(&self) -> (r: u32) requires dwf(*self) ensures r == dm(*self), dwf_facts(*self) { unimplemented!() }
    #[verifier::external_body] const fn day(&self) -> (r: u32) requires dwf(*self) ensures r == dd(*self), dwf_facts(*self) { unimplemented!() }
    #[verifier::external_body]
    const fn from_ymd_opt(year: i32, month: u32, day: u32) -> (r: Option<NaiveDate>)
        ensures r.is_some() <==> (MIN_Y() <= year <= MAX_Y() && 1 <= month <= 12 && 1 <= day <= month_len(year as int, month as int)),
                r.is_some() ==> dwf(r.unwrap()) && dy(r.unwrap()) == year && dm(r.unwrap()) == month && dd(r.unwrap()) == day
    { unimplemented!() }
    #[verifier::external_body]
    const fn succ_opt(&self) -> (r: Option<NaiveDate>) requires dwf(*self)
        ensures r.is_some() ==> dwf(r.unwrap()) && dn(r.unwrap()) == dn(*self) + 1
    { unimplemented!() }
    #[verifier::external_body]
    const fn pred_opt(&self) -> (r: Option<NaiveDate>) requires dwf(*self)
        ensures r.is_some() ==> dwf(r.unwrap()) && dn(r.unwrap()) == dn(*self) - 1
    { unimplemented!() }
}
impl NaiveTime {
const fn signed_duration_since(self, rhs: NaiveTime) -> (r: TimeDelta)
    requires twf(self), twf(rhs),
    ensures tdinv(r), ns(r) == jpos(self, rhs) - jpos(rhs, self),
{
        //     |    |    :leap|    |    |    |    |    |    |    :leap|    |
        //     |    |    :    |    |    |    |    |    |    |    :    |    |
        // ----+----+-----*---+----+----+----+----+----+----+-------*-+----+----
        //          |   `rhs` |                             |    `self`
        //          |======================================>|       |
        //          |     |  `self.secs - rhs.secs`         |`self.frac`
        //          |====>|   |                             |======>|
        //      `rhs.frac`|========================================>|
        //          |     |   |        `self - rhs`         |       |

        let mut secs = self.secs as i64 - rhs.secs as i64;
        let frac = self.frac as i64 - rhs.frac as i64;

        // `secs` may contain a leap second yet to be counted
        if self.secs > rhs.secs && rhs.frac >= 1_000_000_000 {
            secs += 1;
        } else if self.secs < rhs.secs && self.frac >= 1_000_000_000 {
            secs -= 1;
        }

        let secs_from_frac = frac.div_euclid(1_000_000_000);
        let frac = frac.rem_euclid(1_000_000_000) as u32;

        expect(TimeDelta::new(secs + secs_from_frac, frac), "must be in range")
    }

const fn overflowing_add_offset(&self, offset: FixedOffset) -> (r: (NaiveTime, i32))
    requires twf(*self), offwf(offset),
    ensures twf(r.0), r.0.frac == self.frac, -1 <= r.1 <= 1, r.0.secs as int + r.1 as int * 86400 == self.secs as int + offset.local_minus_utc as int,
{
        let secs = self.secs as i32 + offset.local_minus_utc();
        let days = secs.div_euclid(86_400);
        let secs = secs.rem_euclid(86_400);
        (NaiveTime { secs: secs as u32, frac: self.frac }, days)
    }

const fn overflowing_sub_offset(&self, offset: FixedOffset) -> (r: (NaiveTime, i32))
    requires twf(*self), offwf(offset),
    ensures twf(r.0), r.0.frac == self.frac, -1 <= r.1 <= 1, r.0.secs as int + r.1 as int * 86400 == self.secs as int - offset.local_minus_utc as int,
{
        let secs = self.secs as i32 - offset.local_minus_utc();
        let days = secs.div_euclid(86_400);
        let secs = secs.rem_euclid(86_400);
        (NaiveTime { secs: secs as u32, frac: self.frac }, days)
    }
}
impl NaiveDate {
const fn diff_months(self, months: i32) -> (r: Option<Self>)
    requires dwf(self),
    ensures ({ let t = dy(self) * 12 + dm(self) - 1 + months as int; let y = t / 12; let m = t % 12 + 1;
                 (r.is_some() <==> MIN_Y() <= y <= MAX_Y())
                 && (r.is_some() ==> dwf(r.unwrap()) && dy(r.unwrap()) == y && dm(r.unwrap()) == m
                       && dd(r.unwrap()) == (if dd(self) <= month_len(y, m) { dd(self) } else { month_len(y, m) })) }),
{
        let months = try_opt!((self.year() * 12 + self.month() as i32 - 1).checked_add(months));
        let year = months.div_euclid(12);
        let month = months.rem_euclid(12) as u32 + 1;

        // Clamp original day in case new month is shorter
        let flags = YearFlags::from_year(year);
        let feb_days = if flags.ndays() == 366 { 29 } else { 28 };
        let days = [31, feb_days, 31, 30, 31, 30, 31, 31, 30, 31, 30, 31];
        let day_max = days[(month - 1) as usize];
        let mut day = self.day();
        if day > day_max {
            day = day_max;
        };

        NaiveDate::from_ymd_opt(year, month, day)
    }

const fn checked_add_months(self, months: Months) -> (r: Option<Self>)
    requires dwf(self),
    ensures months.0 == 0 ==> r == Some(self),
{
        if months.0 == 0 {
            return Some(self);
        }

        match months.0 <= i32::MAX as u32 {
            true => self.diff_months(months.0 as i32),
            false => None,
        }
    }
}
impl NaiveDateTime {
const fn checked_add_offset(self, rhs: FixedOffset) -> (r: Option<NaiveDateTime>)
    requires dwf(self.date), twf(self.time), offwf(rhs),
    ensures r.is_some() ==> dwf(r.unwrap().date) && twf(r.unwrap().time) && r.unwrap().time.frac == self.time.frac && dn(r.unwrap().date) * 86400 + r.unwrap().time.secs as int == dn(self.date) * 86400 + self.time.secs as int + rhs.local_minus_utc as int,
{
        let (time, days) = self.time.overflowing_add_offset(rhs);
        let date = match days {
            -1 => try_opt!(self.date.pred_opt()),
            1 => try_opt!(self.date.succ_opt()),
            _ => self.date,
        };
        Some(NaiveDateTime { date, time })
    }
}
impl NaiveDateDaysIterator {
fn Iterator__next(&mut self) -> (r: Option<NaiveDate>)
    requires dwf(old(self).value),
    ensures r.is_some() ==> r.unwrap() == old(self).value && dwf(final(self).value) && dn(final(self).value) == dn(old(self).value) + 1,
 r.is_none() ==> final(self).value == old(self).value,
{
        // We return the current value, and have no way to return `NaiveDate::MAX`.
        let current = self.value;
        // This can't panic because current is < NaiveDate::MAX:
        self.value = current.succ_opt()?;
        Some(current)
    }
}
} // verus!
fn main() {}
