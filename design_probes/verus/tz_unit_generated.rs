use vstd::prelude::*;
use core::cmp::Ordering;
verus! {

#[derive(Copy, Clone)]
struct Transition { unix_leap_time: i64, local_time_type_index: usize }
#[derive(Copy, Clone, PartialEq, Eq)]
struct LocalTimeType { ut_offset: i32, is_dst: bool }
#[derive(Copy, Clone)]
struct LeapSecond { unix_leap_time: i64, correction: i32 }
enum MappedLocalTime<T> { Single(T), Ambiguous(T, T), None }
enum Error { FindLocalTimeType(&'static str), OutOfRange(&'static str) }
struct NaiveDateTime { ts: i64 }
struct DateTimeUtc { ts: i64 }
impl NaiveDateTime {
    #[verifier::external_body]
    fn and_utc(&self) -> (r: DateTimeUtc) ensures r.ts == self.ts { unimplemented!() }
}
impl DateTimeUtc {
    #[verifier::external_body]
    fn timestamp(&self) -> (r: i64) ensures r == self.ts { unimplemented!() }
}
// rule part abstracted: this probe only covers zones without a footer rule
struct TransitionRule { x: u8 }
impl TransitionRule {
    #[verifier::external_body]
    fn find_local_time_type_from_local(&self, local_time: NaiveDateTime) -> (r: Result<MappedLocalTime<LocalTimeType>, Error>) { unimplemented!() }
}

struct TimeZoneRef<'a> {
    transitions: &'a [Transition],
    local_time_types: &'a [LocalTimeType],
    leap_seconds: &'a [LeapSecond],
    extra_rule: &'a Option<TransitionRule>,
}

spec fn wf(tr: Seq<Transition>, lt: Seq<LocalTimeType>) -> bool {
    lt.len() > 0
    && (forall|i: int| 0 <= i < tr.len() ==> (#[trigger] tr[i]).local_time_type_index < lt.len())
    && (forall|i: int, j: int| 0 <= i < j < tr.len() ==> (#[trigger] tr[i]).unix_leap_time < (#[trigger] tr[j]).unix_leap_time)
    // range hypothesis without which `transition time + offset` can overflow (DESIGN §5 item 5)
    && (forall|i: int| 0 <= i < tr.len() ==> -0x4000_0000_0000_0000 < (#[trigger] tr[i]).unix_leap_time < 0x4000_0000_0000_0000)
    // separation hypothesis of the property's zone models: offsets within a day, transitions more than two days apart
    && (forall|i: int| 0 <= i < lt.len() ==> -86400 < (#[trigger] lt[i]).ut_offset < 86400)
    && (forall|i: int| 0 <= i < tr.len() - 1 ==> (#[trigger] tr[i]).unix_leap_time + 172800 < tr[i + 1].unix_leap_time)
}
spec fn interval_type(tr: Seq<Transition>, lt: Seq<LocalTimeType>, k: int) -> LocalTimeType {
    if k == 0 { lt[0] } else { lt[tr[k - 1].local_time_type_index as int] }
}
// instant u is governed by interval k; `incl` admits the boundary instant T[k] itself (the documented boundary second)
spec fn in_interval(tr: Seq<Transition>, k: int, u: int, incl: bool) -> bool {
    (k == 0 || tr[k - 1].unix_leap_time <= u) && (k == tr.len() || u < tr[k].unix_leap_time || (incl && u == tr[k].unix_leap_time))
}
spec fn sound_lo(tr: Seq<Transition>, lt: Seq<LocalTimeType>, local: int, o: LocalTimeType, k: int, incl: bool) -> bool {
    0 <= k <= tr.len() && interval_type(tr, lt, k) == o && (k == 0 || tr[k - 1].unix_leap_time <= local - o.ut_offset)
    && (k == tr.len() || local - o.ut_offset < tr[k].unix_leap_time || (incl && local - o.ut_offset == tr[k].unix_leap_time))
}

spec fn post(tr: Seq<Transition>, lt: Seq<LocalTimeType>, local: int, r: Result<MappedLocalTime<LocalTimeType>, Error>) -> bool {
    &&& (r is Ok && r->Ok_0 is Single) ==> (exists|k: int| #[trigger] sound_lo(tr, lt, local, r->Ok_0->Single_0, k, true))
    &&& (r is Ok && r->Ok_0 is Ambiguous) ==> r->Ok_0->Ambiguous_0.ut_offset < r->Ok_0->Ambiguous_1.ut_offset
            && (exists|k: int| #[trigger] sound_lo(tr, lt, local, r->Ok_0->Ambiguous_0, k, true))
            && (exists|k: int| #[trigger] sound_lo(tr, lt, local, r->Ok_0->Ambiguous_1, k, true))
}
proof fn post_single(tr: Seq<Transition>, lt: Seq<LocalTimeType>, local: int, o: LocalTimeType, k: int)
    requires sound_lo(tr, lt, local, o, k, true)
    ensures post(tr, lt, local, Ok(MappedLocalTime::Single(o)))
{
    let r: Result<MappedLocalTime<LocalTimeType>, Error> = Ok(MappedLocalTime::Single(o));
    assert(sound_lo(tr, lt, local, r->Ok_0->Single_0, k, true));
}
proof fn post_amb(tr: Seq<Transition>, lt: Seq<LocalTimeType>, local: int, a: LocalTimeType, ka: int, b: LocalTimeType, kb: int)
    requires sound_lo(tr, lt, local, a, ka, true), sound_lo(tr, lt, local, b, kb, true), a.ut_offset < b.ut_offset
    ensures post(tr, lt, local, Ok(MappedLocalTime::Ambiguous(a, b)))
{
    let r: Result<MappedLocalTime<LocalTimeType>, Error> = Ok(MappedLocalTime::Ambiguous(a, b));
    assert(sound_lo(tr, lt, local, r->Ok_0->Ambiguous_0, ka, true));
    assert(sound_lo(tr, lt, local, r->Ok_0->Ambiguous_1, kb, true));
}
impl<'a> TimeZoneRef<'a> {
fn find_local_time_type_from_local(
        &self,
        local_time: NaiveDateTime,
    ) -> (r: Result<crate::MappedLocalTime<LocalTimeType>, Error>)
    requires wf(self.transitions@, self.local_time_types@), *self.extra_rule is None,
    ensures post(self.transitions@, self.local_time_types@, local_time.ts as int, r),
{
        // #TODO: this is wrong as we need 'local_time_to_local_leap_time ?
        // but ... does the local time even include leap seconds ??
        // let unix_leap_time = match self.unix_time_to_unix_leap_time(local_time) {
        //     Ok(unix_leap_time) => unix_leap_time,
        //     Err(Error::OutOfRange(error)) => return Err(Error::FindLocalTimeType(error)),
        //     Err(err) => return Err(err),
        // };
        let local_leap_time = local_time.and_utc().timestamp();

        // if we have at least one transition,
        // we must check _all_ of them, in case of any Overlapping (MappedLocalTime::Ambiguous) or Skipping (MappedLocalTime::None) transitions
        let offset_after_last = if !self.transitions.is_empty() {
            let ghost tr = self.transitions@; let ghost lt = self.local_time_types@;
            let mut prev = self.local_time_types[0];

            for transition in it: self.transitions
                invariant
                    wf(self.transitions@, self.local_time_types@), tr == self.transitions@, lt == self.local_time_types@,
                    it.index@ <= tr.len(), local_leap_time == local_time.ts,
                    prev == interval_type(tr, lt, it.index@ as int),
                    it.index@ > 0 ==> tr[it.index@ - 1].unix_leap_time + prev.ut_offset < local_leap_time,
            {
                let after_ltt = self.local_time_types[transition.local_time_type_index];

                // the end and start here refers to where the time starts prior to the transition
                // and where it ends up after. not the temporal relationship.
                proof { let k = it.index@ as int; assert(interval_type(tr, lt, k) == prev); assert(interval_type(tr, lt, k + 1) == after_ltt); }
                let transition_end = transition.unix_leap_time + i64::from(after_ltt.ut_offset);
                let transition_start = transition.unix_leap_time + i64::from(prev.ut_offset);

                match transition_start.cmp(&transition_end) {
                    Ordering::Greater => {
                        // backwards transition, eg from DST to regular
                        // this means a given local time could have one of two possible offsets
                        if local_leap_time < transition_end {
                            proof { post_single(tr, lt, local_time.ts as int, prev, it.index@ as int); }
                            return Ok(MappedLocalTime::Single(prev));
                        } else if local_leap_time >= transition_end
                            && local_leap_time <= transition_start
                        {
                            if prev.ut_offset < after_ltt.ut_offset {
                                proof { post_amb(tr, lt, local_time.ts as int, prev, it.index@ as int, after_ltt, it.index@ as int + 1); }
                                return Ok(MappedLocalTime::Ambiguous(prev, after_ltt));
                            } else {
                                proof { post_amb(tr, lt, local_time.ts as int, after_ltt, it.index@ as int + 1, prev, it.index@ as int); }
                                return Ok(MappedLocalTime::Ambiguous(after_ltt, prev));
                            }
                        }
                    }
                    Ordering::Equal => {
                        // should this ever happen? presumably we have to handle it anyway.
                        if local_leap_time < transition_start {
                            proof { post_single(tr, lt, local_time.ts as int, prev, it.index@ as int); }
                            return Ok(MappedLocalTime::Single(prev));
                        } else if local_leap_time == transition_end {
                            if prev.ut_offset < after_ltt.ut_offset {
                                proof { post_amb(tr, lt, local_time.ts as int, prev, it.index@ as int, after_ltt, it.index@ as int + 1); }
                                return Ok(MappedLocalTime::Ambiguous(prev, after_ltt));
                            } else {
                                proof { post_amb(tr, lt, local_time.ts as int, after_ltt, it.index@ as int + 1, prev, it.index@ as int); }
                                return Ok(MappedLocalTime::Ambiguous(after_ltt, prev));
                            }
                        }
                    }
                    Ordering::Less => {
                        // forwards transition, eg from regular to DST
                        // this means that times that are skipped are invalid local times
                        if local_leap_time <= transition_start {
                            proof { post_single(tr, lt, local_time.ts as int, prev, it.index@ as int); }
                            return Ok(MappedLocalTime::Single(prev));
                        } else if local_leap_time < transition_end {
                            return Ok(MappedLocalTime::None);
                        } else if local_leap_time == transition_end {
                            proof { post_single(tr, lt, local_time.ts as int, after_ltt, it.index@ as int + 1); }
                            return Ok(MappedLocalTime::Single(after_ltt));
                        }
                    }
                }

                // try the next transition, we are fully after this one
                prev = after_ltt;
            }

            prev
        } else {
            self.local_time_types[0]
        };

        if let Some(extra_rule) = self.extra_rule {
            match extra_rule.find_local_time_type_from_local(local_time) {
                Ok(local_time_type) => Ok(local_time_type),
                Err(Error::OutOfRange(error)) => Err(Error::FindLocalTimeType(error)),
                err => err,
            }
        } else {
            { proof { post_single(self.transitions@, self.local_time_types@, local_time.ts as int, offset_after_last, self.transitions@.len() as int); } Ok(MappedLocalTime::Single(offset_after_last)) }
        }
    }
}
} // verus!
fn main() {}
