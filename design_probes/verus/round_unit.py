#!/usr/bin/env python3
# Probe: C17 round.rs monomorphised at NaiveDateTime, real text.
import sys, re
import os
HERE = os.path.dirname(os.path.abspath(__file__))
OUT = os.environ.get('PROBE_OUT', '/var/tmp')
sys.path.insert(0, HERE)
from xprobe import *

R = Src('/repo/src/round.rs')

PRE = r'''use vstd::prelude::*;
use vstd::arithmetic::div_mod::*;
use core::cmp::Ordering;
verus! {
pub assume_specification [i64::abs] (x: i64) -> (r: i64)
    requires x > i64::MIN, ensures r == (if x < 0 { -(x as int) } else { x as int });

#[derive(Copy, Clone)] struct TimeDelta { secs: i64, nanos: i32 }
#[derive(Copy, Clone)] struct NaiveDateTime { d: i64 }   // abstract: only `instant` matters here
struct DateTimeUtc { datetime: NaiveDateTime }
enum RoundingError { DurationExceedsTimestamp, DurationExceedsLimit, TimestampExceedsLimit }

spec fn LIM() -> int { 9223372036854775807int * 1000000int }
spec fn ns(t: TimeDelta) -> int { t.secs as int * 1_000_000_000 + t.nanos as int }
spec fn tdinv(t: TimeDelta) -> bool { 0 <= t.nanos < 1_000_000_000 && -LIM() <= ns(t) <= LIM() }
uninterp spec fn instant(x: NaiveDateTime) -> int;      // ns since Unix epoch (non-leap)
uninterp spec fn wf(x: NaiveDateTime) -> bool;
spec fn I_MIN() -> int { -8_334_601_228_800int * 1_000_000_000 }   // instant(NaiveDateTime::MIN)
spec fn I_MAX() -> int { 8_210_266_876_800int * 1_000_000_000 - 1 } // instant(NaiveDateTime::MAX)

impl TimeDelta {
    #[verifier::external_body]
    const fn num_nanoseconds(&self) -> (r: Option<i64>)
        requires tdinv(*self)
        ensures r.is_some() <==> i64::MIN <= ns(*self) <= i64::MAX, r.is_some() ==> r.unwrap() as int == ns(*self)
    { unimplemented!() }
    #[verifier::external_body]
    const fn nanoseconds(nanos: i64) -> (r: TimeDelta) ensures tdinv(r), ns(r) == nanos as int { unimplemented!() }
}
impl NaiveDateTime {
    #[verifier::external_body]
    const fn and_utc(&self) -> (r: DateTimeUtc) ensures r.datetime == *self { unimplemented!() }
}
impl DateTimeUtc {
    #[verifier::external_body]
    const fn timestamp_nanos_opt(&self) -> (r: Option<i64>)
        requires wf(self.datetime)
        ensures r.is_some() <==> i64::MIN <= instant(self.datetime) <= i64::MAX, r.is_some() ==> r.unwrap() as int == instant(self.datetime)
    { unimplemented!() }
}
// the operator impls `NaiveDateTime + TimeDelta` / `- TimeDelta` (= checked_*_signed + expect), contract from C03
#[verifier::external_body]
fn ndt_add(a: NaiveDateTime, d: TimeDelta) -> (r: NaiveDateTime)
    requires wf(a), tdinv(d), I_MIN() <= instant(a) + ns(d) <= I_MAX()
    ensures wf(r), instant(r) == instant(a) + ns(d)
{ unimplemented!() }
#[verifier::external_body]
fn ndt_sub(a: NaiveDateTime, d: TimeDelta) -> (r: NaiveDateTime)
    requires wf(a), tdinv(d), I_MIN() <= instant(a) - ns(d) <= I_MAX()
    ensures wf(r), instant(r) == instant(a) - ns(d)
{ unimplemented!() }

proof fn neg_mod(s: int, p: int)
    requires p > 0, s < 0
    ensures (-s) % p == 0 ==> s % p == 0, (-s) % p != 0 ==> s % p == p - (-s) % p
{
    lemma_fundamental_div_mod(-s, p); lemma_mod_bound(-s, p);
    let q = (-s) / p; let r = (-s) % p;
    if r == 0 {
        assert(s == (-q) * p + 0) by(nonlinear_arith) requires -s == p * q + r, r == 0;
        lemma_fundamental_div_mod_converse(s, p, -q, 0);
    } else {
        assert(s == (-q - 1) * p + (p - r)) by(nonlinear_arith) requires -s == p * q + r;
        lemma_fundamental_div_mod_converse(s, p, -q - 1, p - r);
    }
}

spec fn floor_mult(s: int, p: int) -> int { s - s % p }
spec fn ceil_mult(s: int, p: int) -> int { if s % p == 0 { s } else { s - s % p + p } }
'''

def mono(sig, body):
    sig = re.sub(r'<T>', '', sig)
    sig = sig.replace('original: T', 'original: NaiveDateTime').replace('Result<T, RoundingError>', 'Result<NaiveDateTime, RoundingError>')
    sig = re.sub(r'\bwhere\b.*$', '', sig, flags=re.S)
    call = r'(TimeDelta::nanoseconds\((?:[^()]|\([^()]*\))*\))'
    body = re.sub(r'original \+ ' + call, r'ndt_add(original, \1)', body)
    body = re.sub(r'original - ' + call, r'ndt_sub(original, \1)', body)
    return sig, body

COMMON_REQ = "wf(naive), wf(original), original == naive, tdinv(duration), I_MIN() <= instant(naive) <= I_MAX()"
ERRS = ("(ns(duration) <= 0 || ns(duration) > i64::MAX) ==> r is Err,"
        " !(i64::MIN <= instant(naive) <= i64::MAX) ==> r is Err")
HINT = ("let delta_down = stamp % span;",
        "        proof { lemma_fundamental_div_mod(stamp as int, span as int); lemma_mod_bound(stamp as int, span as int);\n"
        "                if stamp < 0 { lemma_fundamental_div_mod(-(stamp as int), span as int); lemma_mod_bound(-(stamp as int), span as int); neg_mod(stamp as int, span as int); } }")
out = []
for name, ens in [
    ('duration_trunc', "r is Ok ==> instant(r->Ok_0) == floor_mult(instant(naive), ns(duration))"),
    ('duration_round_up', "r is Ok ==> instant(r->Ok_0) == ceil_mult(instant(naive), ns(duration))"),
    ('duration_round', "r is Ok ==> ({ let s = instant(naive); let p = ns(duration); let lo = floor_mult(s, p); let hi = ceil_mult(s, p); instant(r->Ok_0) == (if hi - s <= s - lo { hi } else { lo }) })"),
]:
    sig, body = R.fn(name, R.s[R.s.index('fn ' + name + '<T>('):])
    sig, body = mono(sig, body)
    out.append(emit_fn(sig, body, requires=COMMON_REQ,
                       ensures=ens + ",\n " + ERRS + ",\n (0 < ns(duration) <= i64::MAX && i64::MIN <= instant(naive) <= i64::MAX) ==> r is Ok",
                       hints=[HINT]))
sig, body = R.fn('span_for_digits')
out.append(emit_fn(sig, body, ensures="digits >= 9 ==> r == 1, digits == 0 ==> r == 1_000_000_000, digits == 3 ==> r == 1_000_000, digits == 6 ==> r == 1000"))
open(os.path.join(OUT, 'round_unit.rs'), 'w').write(PRE + '\n'.join(out) + '\n} // verus!\nfn main() {}\n')
print('ok')
