#!/usr/bin/env python3
# Probe: C05/C16 rule.rs calendar helpers, real text
import sys, re
import os
HERE = os.path.dirname(os.path.abspath(__file__))
OUT = os.environ.get('PROBE_OUT', '/var/tmp')
sys.path.insert(0, HERE)
from xprobe import *
R = Src('/repo/src/offset/local/tz_info/rule.rs')
MOD = Src('/repo/src/offset/local/tz_info/mod.rs')
impl_u = R.impl_body('impl UtcDateTime {')

PRE = r'''use vstd::prelude::*;
verus! {
spec fn is_leap(y: int) -> bool { y % 4 == 0 && (y % 100 != 0 || y % 400 == 0) }
spec fn days_before_year(y: int) -> int { let p = y - 1; 365 * p + p / 4 - p / 100 + p / 400 }
spec fn cum_days(y: int, m: int) -> int {
    let l: int = if is_leap(y) { 1 } else { 0 };
    if m == 1 { 0 } else if m == 2 { 31 } else if m == 3 { 59 + l } else if m == 4 { 90 + l } else if m == 5 { 120 + l }
    else if m == 6 { 151 + l } else if m == 7 { 181 + l } else if m == 8 { 212 + l } else if m == 9 { 243 + l }
    else if m == 10 { 273 + l } else if m == 11 { 304 + l } else { 334 + l }
}
spec fn month_len(y: int, m: int) -> int { if m == 2 { if is_leap(y) { 29 } else { 28 } } else if m == 4 || m == 6 || m == 9 || m == 11 { 30 } else { 31 } }
spec fn epoch_day(y: int, m: int, d: int) -> int { days_before_year(y) + cum_days(y, m) + d - 719163 }

enum Error { OutOfRange(&'static str) }
struct UtcDateTime { year: i32, month: u8, month_day: u8, hour: u8, minute: u8, second: u8 }
'''
names = ['SECONDS_PER_MINUTE','SECONDS_PER_HOUR','MINUTES_PER_HOUR','MONTHS_PER_YEAR','DAYS_PER_NORMAL_YEAR','DAYS_PER_4_YEARS','DAYS_PER_100_YEARS','DAYS_PER_400_YEARS','UNIX_OFFSET_SECS','OFFSET_YEAR','DAY_IN_MONTHS_LEAP_YEAR_FROM_MARCH']
consts = '\n'.join(fix_const(R.const(n)) for n in names)
consts += '\n' + '\n'.join(fix_const(MOD.const(n)) for n in ['HOURS_PER_DAY','SECONDS_PER_DAY','CUMUL_DAY_IN_MONTHS_NORMAL_YEAR'])
# `const X: i64 = A * B + c` are fine for Verus only if no signed / or %; these use * and + only.
consts = consts.replace('const SECONDS_PER_HOUR: i64 = 3600;\n', '', 1) if consts.count('const SECONDS_PER_HOUR') > 1 else consts

sig, body = R.fn('is_leap_year')
f1 = emit_fn(sig, body, ensures="r == is_leap(year as int)")
sig, body = R.fn('days_since_unix_epoch')
f2 = emit_fn(sig, body, requires="1 <= month <= 12, -1000 <= month_day <= 1000",
             ensures="r as int == epoch_day(year as int, month as int, month_day as int)")
sig, body = R.fn('from_timespec', impl_u)
body = body.replace("while month < DAY_IN_MONTHS_LEAP_YEAR_FROM_MARCH.len() {",
    """while month < DAY_IN_MONTHS_LEAP_YEAR_FROM_MARCH.len()
            invariant 0 <= month <= 12, 0 <= remaining_days <= 366,
            decreases 12 - month
        {""")
body = re.sub(r'(\w+) %= ([^;]+);', r'\1 = \1 % \2;', body)
f3 = emit_fn(sig, body,
    ensures="""r is Ok ==> ({ let t = r->Ok_0; 1 <= t.month <= 12 && 1 <= t.month_day <= month_len(t.year as int, t.month as int) && t.hour < 24 && t.minute < 60 && t.second < 60
                 && epoch_day(t.year as int, t.month as int, t.month_day as int) * 86400 + t.hour as int * 3600 + t.minute as int * 60 + t.second as int == unix_time as int })""")
open(os.path.join(OUT, 'rule_unit.rs'), 'w').write(PRE + consts + '\n' + f1 + f2 + 'impl UtcDateTime {\n' + f3 + '}\n} // verus!\nfn main() {}\n')
print('ok')
