use vstd::prelude::*;
use core::num::NonZeroI32;

macro_rules! try_opt {
    ($e:expr) => {
        match $e {
            Some(v) => v,
            None => return None,
        }
    };
}

verus! {
pub assume_specification [i64::abs] (x: i64) -> (r: i64)
    requires x > i64::MIN,
    ensures r == (if x < 0 { -(x as int) } else { x as int });

pub const YEAR_DELTAS: &'static [u8; 8] = &[0, 1, 1, 1, 1, 2, 2, 2];

fn lookup(i: usize) -> (r: u8)
    requires i < 8
    ensures r as int == (i as int + 3) / 4
{
    YEAR_DELTAS[i]
}

const ORDINAL_MASK: i32 = 0b1_1111_1111_0000;

fn year_of(yof: i32) -> (r: i32)
    ensures r as int == (yof as int) / 8192
{
    let r = yof >> 13;
    assert(yof >> 13u32 == yof / 8192i32 - (if yof % 8192i32 < 0 { 1i32 } else { 0i32 }) ) by(bit_vector);
    r
}

fn ordinal_of(yof: i32) -> (r: u32)
    ensures r as int == ((yof as int) % 8192) / 16
{
    let r = ((yof & ORDINAL_MASK) >> 4) as u32;
    assert(((yof & 0b1_1111_1111_0000i32) >> 4u32) == ((yof as int) % 8192) / 16) by(bit_vector);
    r
}

pub struct TimeDelta { pub secs: i64, pub nanos: i32 }

impl TimeDelta {
    pub open spec fn wf(&self) -> bool { 0 <= self.nanos < 1_000_000_000 }
    pub open spec fn ns(&self) -> int { self.secs as int * 1_000_000_000 + self.nanos as int }

    pub const fn num_seconds(&self) -> (r: i64)
        requires self.wf(), self.secs < i64::MAX
        ensures r as int == (if self.ns() >= 0 { self.ns() / 1_000_000_000 } else { -((-self.ns()) / 1_000_000_000) })
    {
        if self.secs < 0 && self.nanos > 0 { self.secs + 1 } else { self.secs }
    }

    pub const fn checked_mul(&self, rhs: i32) -> (r: Option<TimeDelta>)
        requires self.wf()
    {
        let total_nanos = self.nanos as i64 * rhs as i64;
        let secs: i128 = self.secs as i128 * rhs as i128 + total_nanos as i128;
        if secs <= i64::MIN as i128 || secs >= i64::MAX as i128 {
            return None;
        };
        Some(TimeDelta { secs: secs as i64, nanos: 0 })
    }

    pub const fn classify(&self, nanos: i32) -> (r: i64) {
        match nanos {
            i32::MIN..=-1 => -1,
            1_000_000_000..=i32::MAX => 1,
            _ => 0,
        }
    }

    pub const fn t_abs(&self) -> (r: i64)
        requires self.secs > i64::MIN
    {
        self.secs.abs()
    }
    pub const fn t_try(&self, x: Option<i64>) -> (r: Option<i64>)
    {
        let v = try_opt!(x);
        v.checked_add(1)
    }
}

pub struct ND { yof: NonZeroI32 }
impl ND {
    const fn yof(&self) -> i32 { self.yof.get() }
    const fn from_yof(yof: i32) -> ND
        requires yof != 0
    {
        ND { yof: unsafe { NonZeroI32::new_unchecked(yof) } }
    }
}

} // verus!
fn main() {}
