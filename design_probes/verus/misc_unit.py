#!/usr/bin/env python3
# Probe: C07 signed_duration_since (joint leap line), C04 offset shifts, C08 diff_months, C03 day iterator (R6)
import sys, re
import os
HERE = os.path.dirname(os.path.abspath(__file__))
OUT = os.environ.get('PROBE_OUT', '/var/tmp')
sys.path.insert(0, HERE)
from xprobe import *

TM = Src('/repo/src/naive/time/mod.rs')
ND = Src('/repo/src/naive/date/mod.rs')
NDT = Src('/repo/src/naive/datetime/mod.rs')
impl_t = TM.impl_body('impl NaiveTime {')
impl_d = ND.impl_body('impl NaiveDate {')
impl_dt = NDT.impl_body('impl NaiveDateTime {')
impl_it = ND.impl_body('impl Iterator for NaiveDateDaysIterator {')

PRE = r'''use vstd::prelude::*;
macro_rules! try_opt { ($e:expr) => { match $e { Some(v) => v, None => return None, } }; }
verus! {
pub assume_specification [i64::rem_euclid] (x: i64, d: i64) -> (r: i64) requires d > 0, ensures r == (x as int) % (d as int);
pub assume_specification [i64::div_euclid] (x: i64, d: i64) -> (r: i64) requires d > 0, ensures r == (x as int) / (d as int);
pub assume_specification [i32::rem_euclid] (x: i32, d: i32) -> (r: i32) requires d > 0, ensures r == (x as int) % (d as int);
pub assume_specification [i32::div_euclid] (x: i32, d: i32) -> (r: i32) requires d > 0, ensures r == (x as int) / (d as int);

spec fn is_leap(y: int) -> bool { y % 4 == 0 && (y % 100 != 0 || y % 400 == 0) }
spec fn month_len(y: int, m: int) -> int { if m == 2 { if is_leap(y) { 29 } else { 28 } } else if m == 4 || m == 6 || m == 9 || m == 11 { 30 } else { 31 } }
spec fn MIN_Y() -> int { -262143 }
spec fn MAX_Y() -> int { 262142 }
spec fn LIM() -> int { 9223372036854775807int * 1000000int }

#[derive(Copy, Clone)] struct TimeDelta { secs: i64, nanos: i32 }
#[derive(Copy, Clone)] struct FixedOffset { local_minus_utc: i32 }
#[derive(Copy, Clone)] struct NaiveTime { secs: u32, frac: u32 }
#[derive(Copy, Clone)] struct NaiveDate { yof: i32 }
#[derive(Copy, Clone)] struct NaiveDateTime { date: NaiveDate, time: NaiveTime }
#[derive(Copy, Clone)] struct Months(u32);
#[derive(Copy, Clone)] struct YearFlags(u8);
struct NaiveDateDaysIterator { value: NaiveDate }

spec fn ns(t: TimeDelta) -> int { t.secs as int * 1_000_000_000 + t.nanos as int }
spec fn tdinv(t: TimeDelta) -> bool { 0 <= t.nanos < 1_000_000_000 && -LIM() <= ns(t) <= LIM() }
spec fn twf(t: NaiveTime) -> bool { t.secs < 86400 && t.frac < 2_000_000_000 }
spec fn leap(t: NaiveTime) -> bool { t.frac >= 1_000_000_000 }
// position on the joint line that contains the leap second of whichever operand is leap
spec fn jpos(x: NaiveTime, other: NaiveTime) -> int {
    x.secs as int * 1_000_000_000 + x.frac as int + (if leap(other) && other.secs < x.secs { 1_000_000_000int } else { 0int })
}

uninterp spec fn dy(d: NaiveDate) -> int;   // year
uninterp spec fn dm(d: NaiveDate) -> int;   // month
uninterp spec fn dd(d: NaiveDate) -> int;   // day
uninterp spec fn dn(d: NaiveDate) -> int;   // day number
uninterp spec fn dwf(d: NaiveDate) -> bool; // in public range, well formed
spec fn dwf_facts(d: NaiveDate) -> bool { dwf(d) ==> MIN_Y() <= dy(d) <= MAX_Y() && 1 <= dm(d) <= 12 && 1 <= dd(d) <= month_len(dy(d), dm(d)) }

#[verifier::external_body]
const fn expect<T>(opt: Option<T>, msg: &str) -> (r: T) requires opt.is_some() ensures r == opt.unwrap() { unimplemented!() }

impl TimeDelta {
    #[verifier::external_body]
    const fn new(secs: i64, nanos: u32) -> (r: Option<TimeDelta>)
        ensures r.is_some() <==> (nanos < 1_000_000_000 && -LIM() <= secs as int * 1_000_000_000 + nanos as int <= LIM()),
                r.is_some() ==> tdinv(r.unwrap()) && ns(r.unwrap()) == secs as int * 1_000_000_000 + nanos as int
    { unimplemented!() }
}
impl FixedOffset {
    #[verifier::external_body]
    const fn local_minus_utc(&self) -> (r: i32) ensures r == self.local_minus_utc { unimplemented!() }
}
spec fn offwf(o: FixedOffset) -> bool { -86400 < o.local_minus_utc < 86400 }
impl YearFlags {
    #[verifier::external_body]
    const fn from_year(year: i32) -> (r: YearFlags) { unimplemented!() }
    #[verifier::external_body]
    const fn ndays(&self) -> (r: u32) { unimplemented!() }
}
impl NaiveDate {
    #[verifier::external_body] const fn year(&self) -> (r: i32) requires dwf(*self) ensures r == dy(*self), dwf_facts(*self) { unimplemented!() }
    #[verifier::external_body] const fn month(&self) -> (r: u32) requires dwf(*self) ensures r == dm(*self), dwf_facts(*self) { unimplemented!() }
    #[verifier::external_body] const fn day(&self) -> (r: u32) requires dwf(*self) ensures r == dd(*self), dwf_facts(*self) { unimplemented!() }
    #[verifier::external_body]
    const fn from_ymd_opt(year: i32, month: u32, day: u32) -> (r: Option<NaiveDate>)
        ensures r.is_some() <==> (MIN_Y() <= year <= MAX_Y() && 1 <= month <= 12 && 1 <= day <= month_len(year as int, month as int)),
                r.is_some() ==> dwf(r.unwrap()) && dy(r.unwrap()) == year && dm(r.unwrap()) == month && dd(r.unwrap()) == day
    { unimplemented!() }
    #[verifier::external_body]
    const fn succ_opt(&self) -> (r: Option<NaiveDate>) requires dwf(*self)
        ensures r.is_some() ==> dwf(r.unwrap()) && dn(r.unwrap()) == dn(*self) + 1
    { unimplemented!() }
    #[verifier::external_body]
    const fn pred_opt(&self) -> (r: Option<NaiveDate>) requires dwf(*self)
        ensures r.is_some() ==> dwf(r.unwrap()) && dn(r.unwrap()) == dn(*self) - 1
    { unimplemented!() }
}
'''

def M(src, within, name, **kw):
    sig, body = src.fn(name, within)
    return emit_fn(sig, body, **kw)

# YearFlags::ndays is used in diff_months as `flags.ndays() == 366`: give the stubs their K-contract
PRE = PRE.replace("const fn from_year(year: i32) -> (r: YearFlags) { unimplemented!() }",
                  "const fn from_year(year: i32) -> (r: YearFlags) ensures yf_year(r) == year { unimplemented!() }")
PRE = PRE.replace("const fn ndays(&self) -> (r: u32) { unimplemented!() }",
                  "const fn ndays(&self) -> (r: u32) ensures r == (if is_leap(yf_year(*self)) { 366int } else { 365int }) { unimplemented!() }")
PRE = PRE.replace("spec fn offwf", "uninterp spec fn yf_year(f: YearFlags) -> int;\nspec fn offwf")

time_fns = '\n'.join([
    M(TM, impl_t, 'signed_duration_since', requires="twf(self), twf(rhs)",
      ensures="tdinv(r), ns(r) == jpos(self, rhs) - jpos(rhs, self)"),
    M(TM, impl_t, 'overflowing_add_offset', requires="twf(*self), offwf(offset)",
      ensures="twf(r.0), r.0.frac == self.frac, -1 <= r.1 <= 1, r.0.secs as int + r.1 as int * 86400 == self.secs as int + offset.local_minus_utc as int"),
    M(TM, impl_t, 'overflowing_sub_offset', requires="twf(*self), offwf(offset)",
      ensures="twf(r.0), r.0.frac == self.frac, -1 <= r.1 <= 1, r.0.secs as int + r.1 as int * 86400 == self.secs as int - offset.local_minus_utc as int"),
])
date_fns = '\n'.join([
    M(ND, impl_d, 'diff_months', requires="dwf(self)",
      ensures="""({ let t = dy(self) * 12 + dm(self) - 1 + months as int; let y = t / 12; let m = t % 12 + 1;
                 (r.is_some() <==> MIN_Y() <= y <= MAX_Y())
                 && (r.is_some() ==> dwf(r.unwrap()) && dy(r.unwrap()) == y && dm(r.unwrap()) == m
                       && dd(r.unwrap()) == (if dd(self) <= month_len(y, m) { dd(self) } else { month_len(y, m) })) })"""),
    M(ND, impl_d, 'checked_add_months', requires="dwf(self)",
      ensures="months.0 == 0 ==> r == Some(self)"),
])
dt_fns = '\n'.join([
    M(NDT, impl_dt, 'checked_add_offset', requires="dwf(self.date), twf(self.time), offwf(rhs)",
      ensures="r.is_some() ==> dwf(r.unwrap().date) && twf(r.unwrap().time) && r.unwrap().time.frac == self.time.frac"
              " && dn(r.unwrap().date) * 86400 + r.unwrap().time.secs as int == dn(self.date) * 86400 + self.time.secs as int + rhs.local_minus_utc as int"),
])
# R6: trait impl method extracted as inherent method
sig, body = ND.fn('next', impl_it)
sig = sig.replace('fn next(&mut self) -> Option<Self::Item>', 'fn Iterator__next(&mut self) -> Option<NaiveDate>')
it_fn = emit_fn(sig, body, requires="dwf(old(self).value)",
                ensures="r.is_some() ==> r.unwrap() == old(self).value && dwf(final(self).value) && dn(final(self).value) == dn(old(self).value) + 1,\n"
                        " r.is_none() ==> final(self).value == old(self).value")

out = (PRE + 'impl NaiveTime {\n' + time_fns + '}\nimpl NaiveDate {\n' + date_fns + '}\nimpl NaiveDateTime {\n' + dt_fns +
       '}\nimpl NaiveDateDaysIterator {\n' + it_fn + '}\n} // verus!\nfn main() {}\n')
open(os.path.join(OUT, 'misc_unit.rs'), 'w').write(out)
print('ok')
