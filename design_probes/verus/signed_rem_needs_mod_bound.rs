use vstd::prelude::*;
use vstd::arithmetic::div_mod::*;
verus! {
fn m1(stamp: i64, span: i64) -> (r: i64)
    requires span > 0, stamp >= 0
    ensures r as int == (stamp as int) % (span as int),
{
    let r = stamp % span;
    proof {
        lemma_fundamental_div_mod(stamp as int, span as int);
        lemma_mod_bound(stamp as int, span as int);
    }
    assert(r == stamp % span);
    assert(0 <= (stamp as int) % (span as int) < span);
    r
}
} // verus!
fn main() {}
