use vstd::prelude::*;
use vstd::arithmetic::div_mod::*;
verus! {
spec fn abs(x: int) -> int { if x < 0 { -x } else { x } }
proof fn euclid(x: int, d: int)
    requires d != 0
    ensures x == d * (x / d) + (x % d), 0 <= x % d < abs(d)
{
    lemma_fundamental_div_mod(x, d);
    if d > 0 { lemma_mod_bound(x, d); } else { assert(0 <= x % d < -d) by(nonlinear_arith) requires d < 0; }
}
proof fn div_neg(a: int, b: int) requires b != 0, a < 0 ensures rust_div(a, b) == -((-a) / b), rust_rem(a, b) == -((-a) % b) { reveal(rust_div); reveal(rust_rem); }
proof fn div_sym(a: int, b: int) requires b != 0, a > 0 ensures rust_div(a, b) == -rust_div(-a, b), rust_rem(a, b) == -rust_rem(-a, b) { reveal(rust_div); reveal(rust_rem); }
proof fn div_zero(b: int) requires b != 0 ensures rust_div(0, b) == 0, rust_rem(0, b) == 0 { reveal(rust_div); reveal(rust_rem); }
proof fn rust_divrem(a: int, b: int)
    requires b != 0
    ensures a == rust_div(a, b) * b + rust_rem(a, b),
            abs(rust_rem(a, b)) < abs(b),
            (a >= 0 ==> rust_rem(a, b) >= 0) && (a <= 0 ==> rust_rem(a, b) <= 0),
            abs(rust_div(a, b)) <= abs(a),
            (a >= 0 && b > 0 || a <= 0 && b < 0) ==> rust_div(a, b) >= 0,
            (a >= 0 && b < 0 || a <= 0 && b > 0) ==> rust_div(a, b) <= 0,
{
    if a < 0 {
        div_neg(a, b); euclid(-a, b);
        assert(a == (-((-a) / b)) * b + (-((-a) % b))) by(nonlinear_arith) requires -a == b * ((-a) / b) + ((-a) % b);
    } else if a > 0 {
        div_sym(a, b); div_neg(-a, b); euclid(a, b);
        assert(a == (a / b) * b + (a % b)) by(nonlinear_arith) requires a == b * (a / b) + (a % b);
    } else {
        div_zero(b);
        assert(0 == 0 * b + 0) by(nonlinear_arith);
    }
    let q = rust_div(a, b); let r = rust_rem(a, b);
    assert(abs(q) <= abs(a) && ((a >= 0 && b > 0 || a <= 0 && b < 0) ==> q >= 0) && ((a >= 0 && b < 0 || a <= 0 && b > 0) ==> q <= 0)) by(nonlinear_arith)
        requires a == q * b + r, abs(r) < abs(b), (a >= 0 ==> r >= 0), (a <= 0 ==> r <= 0), b != 0;
}

#[derive(Clone, Copy)]
struct TimeDelta { secs: i64, nanos: i32 }
const NANOS_PER_SEC: i32 = 1_000_000_000;
spec fn LIM() -> int { 9223372036854775807int * 1000000int }
impl TimeDelta {
    spec fn ns(&self) -> int { self.secs as int * 1_000_000_000 + self.nanos as int }
    spec fn inv(&self) -> bool { 0 <= self.nanos < 1_000_000_000 && -LIM() <= self.ns() <= LIM() }

    const fn checked_div(&self, rhs: i32) -> (r: Option<TimeDelta>)
        requires self.inv(),
        ensures r.is_some() <==> rhs != 0,
    {
        if rhs == 0 {
            return None;
        }
        proof {
            rust_divrem(self.secs as int, rhs as int);
            rust_divrem(self.nanos as int, rhs as int);
        }
        let secs = self.secs / rhs as i64;
        let carry = self.secs % rhs as i64;
        proof {
            assert(abs(carry as int * 1_000_000_000) < abs(rhs as int) * 1_000_000_000) by(nonlinear_arith) requires abs(carry as int) < abs(rhs as int);
            rust_divrem(carry as int * 1_000_000_000, rhs as int);
            let e = rust_div(carry as int * 1_000_000_000, rhs as int);
            assert(abs(e) < 1_000_000_000) by(nonlinear_arith)
                requires carry as int * 1_000_000_000 == e * rhs as int + rust_rem(carry as int * 1_000_000_000, rhs as int),
                         abs(rust_rem(carry as int * 1_000_000_000, rhs as int)) < abs(rhs as int),
                         abs(carry as int * 1_000_000_000) < abs(rhs as int) * 1_000_000_000, rhs != 0,
                         (carry as int * 1_000_000_000 >= 0 ==> rust_rem(carry as int * 1_000_000_000, rhs as int) >= 0),
                         (carry as int * 1_000_000_000 <= 0 ==> rust_rem(carry as int * 1_000_000_000, rhs as int) <= 0);
        }
        let extra_nanos = carry * NANOS_PER_SEC as i64 / rhs as i64;
        let nanos = self.nanos / rhs + extra_nanos as i32;

        let (secs, nanos) = match nanos {
            i32::MIN..=-1 => (secs - 1, nanos + NANOS_PER_SEC),
            NANOS_PER_SEC..=i32::MAX => (secs + 1, nanos - NANOS_PER_SEC),
            _ => (secs, nanos),
        };

        Some(TimeDelta { secs, nanos })
    }
}
} // verus!
fn main() {}
