use vstd::prelude::*;
use core::num::NonZeroI32;
use core::cmp::Ordering;
verus! {

#[derive(Copy, Clone)]
pub struct Transition { pub unix_leap_time: i64, pub local_time_type_index: usize }
#[derive(Copy, Clone)]
pub struct Ltt { pub ut_offset: i32, pub is_dst: bool }

pub struct TzRef<'a> { pub transitions: &'a [Transition], pub local_time_types: &'a [Ltt] }

impl<'a> TzRef<'a> {
    pub open spec fn wf(&self) -> bool {
        self.local_time_types@.len() > 0
        && forall|i: int| 0 <= i < self.transitions@.len() ==> (#[trigger] self.transitions@[i]).local_time_type_index < self.local_time_types@.len()
    }

    fn count_fwd(&self, local: i64) -> (r: usize)
        requires self.wf()
        ensures r <= self.transitions@.len()
    {
        let mut n: usize = 0;
        let mut prev = self.local_time_types[0];
        for transition in it: self.transitions
            invariant n <= it.index@, self.wf(),
        {
            let after = self.local_time_types[transition.local_time_type_index];
            match (transition.unix_leap_time).cmp(&local) {
                Ordering::Greater => { n += 1; }
                Ordering::Equal => {}
                Ordering::Less => {}
            }
            prev = after;
        }
        n
    }
}

fn nz(n: NonZeroI32) -> (r: i32) ensures r != 0 { n.get() }

} // verus!
fn main() {}
