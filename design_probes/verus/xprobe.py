#!/usr/bin/env python3
"""Probe-only mechanical extractor: pulls fn / const items out of /repo/src files verbatim and splices
contracts + anchored hints.  Usage: see unit scripts (date_unit.py ...)."""
import re

def match_brace(s, j):
    depth = 0; k = j; n = len(s)
    while k < n:
        c = s[k]
        if s.startswith('//', k):
            k = s.index('\n', k); continue
        if s.startswith('/*', k):
            k = s.index('*/', k) + 2; continue
        if c == '"':
            k += 1
            while s[k] != '"':
                if s[k] == '\\': k += 1
                k += 1
        elif c == "'" and re.match(r"'(\\.|[^\\'])'", s[k:k+4]):
            k += len(re.match(r"'(\\.|[^\\'])'", s[k:k+4]).group(0)) - 1
        elif c == '{': depth += 1
        elif c == '}':
            depth -= 1
            if depth == 0: return k
        k += 1
    raise Exception('unbalanced')

def strip_attrs(s):
    s = re.sub(r'^[ \t]*//[/!].*\n', '', s, flags=re.M)
    s = re.sub(r'^[ \t]*#\[[^\]]*\]\n', '', s, flags=re.M)
    return s

class Src:
    def __init__(self, path):
        self.path = path
        self.s = open(path).read()

    def impl_body(self, header):
        i = self.s.index(header)
        j = self.s.index('{', i)
        k = match_brace(self.s, j)
        return self.s[j+1:k]

    def fn(self, name, within=None):
        """return (signature_text, body_text) of `fn name` (first match) inside `within` text or whole file"""
        t = within if within is not None else self.s
        m = re.search(r'(?:pub(?:\([a-z]+\))? )?(?:const )?(?:unsafe )?fn ' + re.escape(name) + r'\b', t)
        if not m: raise KeyError('anchor lost: fn ' + name + ' in ' + self.path)
        b = t.index('{', m.end())
        # skip where-clauses etc: first '{' after signature at depth 0 of parens
        e = match_brace(t, b)
        return t[m.start():b], t[b:e+1]

    def const(self, name):
        m = re.search(r'(?:pub(?:\([a-z]+\))? )?const ' + re.escape(name) + r'\b[^=]*?=\s', self.s)
        if not m: raise KeyError('anchor lost: const ' + name)
        # end at first ';' at bracket depth 0
        k = m.end(); depth = 0
        while True:
            c = self.s[k]
            if c in '[({': depth += 1
            elif c in '])}': depth -= 1
            elif c == ';' and depth == 0: break
            k += 1
        return self.s[m.start():k+1]

def emit_fn(sig, body, requires='', ensures='', hints=(), retname='r', decreases=''):
    sig = strip_attrs(sig).strip()
    sig = re.sub(r'^pub(\([a-z]+\))? ', '', sig)
    m = re.search(r'->\s*(.+)$', sig, flags=re.S)
    if m:
        sig = sig[:m.start()] + '-> (' + retname + ': ' + m.group(1).strip() + ')'
    spec = ''
    if requires: spec += '\n    requires ' + requires + ','
    if ensures: spec += '\n    ensures ' + ensures + ','
    if decreases: spec += '\n    decreases ' + decreases + ','
    body = strip_attrs(body)
    for anchor, text in hints:
        i = body.find(anchor)
        if i < 0: raise KeyError('anchor lost: hint anchor ' + repr(anchor))
        ls = body.rfind('\n', 0, i) + 1
        body = body[:ls] + text + '\n' + body[ls:]
    return sig + spec + '\n' + body + '\n'

def fix_const(txt):
    txt = re.sub(r'^pub(\([a-z]+\))? ', '', strip_attrs(txt).strip())
    txt = re.sub(r': &\[', ": &'static [", txt)
    return txt
