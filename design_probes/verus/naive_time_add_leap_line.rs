use vstd::prelude::*;
verus! {
pub assume_specification [i64::rem_euclid] (x: i64, d: i64) -> (r: i64)
    requires d > 0, ensures r == (x as int) % (d as int);

struct TimeDelta { secs: i64, nanos: i32 }
spec const LIM: int = 9223372036854775807int * 1000000int;
impl TimeDelta {
    spec fn ns(&self) -> int { self.secs as int * 1_000_000_000 + self.nanos as int }
    spec fn inv(&self) -> bool { 0 <= self.nanos < 1_000_000_000 && -LIM <= self.ns() <= LIM }
    #[verifier::external_body]
    const fn num_seconds(&self) -> (r: i64)
        requires self.inv()
        ensures r as int == (if self.ns() >= 0 { self.ns() / 1_000_000_000 } else { -((-self.ns()) / 1_000_000_000) })
    { unimplemented!() }
    #[verifier::external_body]
    const fn subsec_nanos(&self) -> (r: i32)
        requires self.inv()
        ensures r as int == self.ns() - (if self.ns() >= 0 { self.ns() / 1_000_000_000 } else { -((-self.ns()) / 1_000_000_000) }) * 1_000_000_000,
                -1_000_000_000 < r < 1_000_000_000
    { unimplemented!() }
}
struct NaiveTime { secs: u32, frac: u32 }
spec const DAY: int = 86400int * 1000000000int;
impl NaiveTime {
    spec fn inv(&self) -> bool { self.secs < 86400 && self.frac < 2_000_000_000 }
    spec fn pos(&self) -> int { self.secs as int * 1_000_000_000 + self.frac as int }
    // leap-line model: result position N on the ordinary line (before wrapping), or "stay"
    spec fn add_model(&self, d: int) -> (bool, int) {
        let p = self.pos(); let r = p + d; let s = self.secs as int * 1_000_000_000;
        if self.frac < 1_000_000_000 { (false, r) }
        else if r >= s + 2_000_000_000 { (false, r - 1_000_000_000) }
        else if r >= s { (true, r) }
        else { (false, r) }
    }
    const fn overflowing_add_signed(&self, rhs: TimeDelta) -> (res: (NaiveTime, i64))
        requires self.inv(), rhs.inv()
        ensures ({
            let m = self.add_model(rhs.ns());
            let (t, carry) = res;
            t.inv() && (if m.0 { carry == 0 && t.secs == self.secs && t.pos() == m.1 }
                        else { t.frac < 1_000_000_000 && t.pos() == m.1 % DAY && carry as int * 1_000_000_000 == m.1 - m.1 % DAY && carry as int % 86400 == 0 })
        })
    {
        let mut secs = self.secs as i64;
        let mut frac = self.frac as i32;
        let secs_to_add = rhs.num_seconds();
        let frac_to_add = rhs.subsec_nanos();

        // Check if `self` is a leap second and adding `rhs` would escape that leap second.
        // If that is the case, update `frac` and `secs` to involve no leap second.
        // If it stays within the leap second or the second before, and only adds a fractional
        // second, just do that and return (this way the rest of the code can ignore leap seconds).
        if frac >= 1_000_000_000 {
            // check below is adjusted to not overflow an i32: `frac + frac_to_add >= 2_000_000_000`
            if secs_to_add > 0 || (frac_to_add > 0 && frac >= 2_000_000_000 - frac_to_add) {
                frac -= 1_000_000_000;
            } else if secs_to_add < 0 {
                frac -= 1_000_000_000;
                secs += 1;
            } else {
                return (NaiveTime { secs: self.secs, frac: (frac + frac_to_add) as u32 }, 0);
            }
        }

        let mut secs = secs + secs_to_add;
        frac += frac_to_add;

        if frac < 0 {
            frac += 1_000_000_000;
            secs -= 1;
        } else if frac >= 1_000_000_000 {
            frac -= 1_000_000_000;
            secs += 1;
        }

        let secs_in_day = secs.rem_euclid(86_400);
        let remaining = secs - secs_in_day;
        (NaiveTime { secs: secs_in_day as u32, frac: frac as u32 }, remaining)
    }
}
} // verus!
fn main() {}
