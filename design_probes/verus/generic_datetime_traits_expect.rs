use vstd::prelude::*;
macro_rules! try_opt { ($e:expr) => { match $e { Some(v) => v, None => return None, } }; }
verus! {
pub trait Offset: Sized + Clone { fn fix(&self) -> FixedOffset; }
pub trait TimeZone: Sized + Clone { type Offset: Offset; }
#[derive(Copy, Clone)]
pub struct FixedOffset { local_minus_utc: i32 }
#[derive(Copy, Clone)]
pub struct Utc;
impl Offset for Utc { fn fix(&self) -> FixedOffset { FixedOffset { local_minus_utc: 0 } } }
impl TimeZone for Utc { type Offset = Utc; }
#[derive(Copy, Clone)]
pub struct NaiveDateTime { date: i32, time: u32 }
pub struct DateTime<Tz: TimeZone> { datetime: NaiveDateTime, offset: Tz::Offset }

#[verifier::external_body]
const fn expect<T: Copy>(opt: Option<T>, msg: &str) -> (r: T)
    requires opt.is_some()
    ensures r == opt.unwrap()
{ match opt { Some(v) => v, None => panic!("{}", msg) } }

impl<Tz: TimeZone> DateTime<Tz> {
    const fn timestamp(&self) -> (r: i64)
        ensures r == (self.datetime.date as int - 719163) * 86400 + self.datetime.time as int
    {
        let gregorian_day = self.datetime.date as i64;
        let seconds_from_midnight = self.datetime.time as i64;
        (gregorian_day - 719_163) * 86_400 + seconds_from_midnight
    }
    fn checked(&self, x: Option<i32>) -> (r: Option<i32>) {
        let v = x?;
        if v < 100 { Some(v + 1) } else { None }
    }
}
impl DateTime<Utc> {
    const fn mk(d: Option<i32>, t: u32) -> (r: Option<Self>)
        ensures d.is_some() ==> r.is_some() && r.unwrap().datetime.date == d.unwrap()
    {
        let date = try_opt!(d);
        Some(DateTime { datetime: NaiveDateTime { date, time: t }, offset: Utc })
    }
    const fn mk2(d: Option<i32>) -> (r: i32) requires d.is_some() {
        expect(d, "x")
    }
}
} // verus!
fn main() {}
