#!/usr/bin/env python3
# Probe: C05/C16 transition-table lookups, real text from tz_info/timezone.rs
import sys, re
import os
HERE = os.path.dirname(os.path.abspath(__file__))
OUT = os.environ.get('PROBE_OUT', '/var/tmp')
sys.path.insert(0, HERE)
from xprobe import *

T = Src('/repo/src/offset/local/tz_info/timezone.rs')
impl = T.impl_body("impl<'a> TimeZoneRef<'a> {")

PRE = r'''use vstd::prelude::*;
use core::cmp::Ordering;
verus! {

#[derive(Copy, Clone)]
struct Transition { unix_leap_time: i64, local_time_type_index: usize }
#[derive(Copy, Clone, PartialEq, Eq)]
struct LocalTimeType { ut_offset: i32, is_dst: bool }
#[derive(Copy, Clone)]
struct LeapSecond { unix_leap_time: i64, correction: i32 }
enum MappedLocalTime<T> { Single(T), Ambiguous(T, T), None }
enum Error { FindLocalTimeType(&'static str), OutOfRange(&'static str) }
struct NaiveDateTime { ts: i64 }
struct DateTimeUtc { ts: i64 }
impl NaiveDateTime {
    #[verifier::external_body]
    fn and_utc(&self) -> (r: DateTimeUtc) ensures r.ts == self.ts { unimplemented!() }
}
impl DateTimeUtc {
    #[verifier::external_body]
    fn timestamp(&self) -> (r: i64) ensures r == self.ts { unimplemented!() }
}
// rule part abstracted: this probe only covers zones without a footer rule
struct TransitionRule { x: u8 }
impl TransitionRule {
    #[verifier::external_body]
    fn find_local_time_type_from_local(&self, local_time: NaiveDateTime) -> (r: Result<MappedLocalTime<LocalTimeType>, Error>) { unimplemented!() }
}

struct TimeZoneRef<'a> {
    transitions: &'a [Transition],
    local_time_types: &'a [LocalTimeType],
    leap_seconds: &'a [LeapSecond],
    extra_rule: &'a Option<TransitionRule>,
}

spec fn wf(tr: Seq<Transition>, lt: Seq<LocalTimeType>) -> bool {
    lt.len() > 0
    && (forall|i: int| 0 <= i < tr.len() ==> (#[trigger] tr[i]).local_time_type_index < lt.len())
    && (forall|i: int, j: int| 0 <= i < j < tr.len() ==> (#[trigger] tr[i]).unix_leap_time < (#[trigger] tr[j]).unix_leap_time)
    // range hypothesis without which `transition time + offset` can overflow (DESIGN §5 item 5)
    && (forall|i: int| 0 <= i < tr.len() ==> -0x4000_0000_0000_0000 < (#[trigger] tr[i]).unix_leap_time < 0x4000_0000_0000_0000)
    // separation hypothesis of the property's zone models: offsets within a day, transitions more than two days apart
    && (forall|i: int| 0 <= i < lt.len() ==> -86400 < (#[trigger] lt[i]).ut_offset < 86400)
    && (forall|i: int| 0 <= i < tr.len() - 1 ==> (#[trigger] tr[i]).unix_leap_time + 172800 < tr[i + 1].unix_leap_time)
}
spec fn interval_type(tr: Seq<Transition>, lt: Seq<LocalTimeType>, k: int) -> LocalTimeType {
    if k == 0 { lt[0] } else { lt[tr[k - 1].local_time_type_index as int] }
}
// instant u is governed by interval k; `incl` admits the boundary instant T[k] itself (the documented boundary second)
spec fn in_interval(tr: Seq<Transition>, k: int, u: int, incl: bool) -> bool {
    (k == 0 || tr[k - 1].unix_leap_time <= u) && (k == tr.len() || u < tr[k].unix_leap_time || (incl && u == tr[k].unix_leap_time))
}
spec fn sound_lo(tr: Seq<Transition>, lt: Seq<LocalTimeType>, local: int, o: LocalTimeType, k: int, incl: bool) -> bool {
    0 <= k <= tr.len() && interval_type(tr, lt, k) == o && (k == 0 || tr[k - 1].unix_leap_time <= local - o.ut_offset)
    && (k == tr.len() || local - o.ut_offset < tr[k].unix_leap_time || (incl && local - o.ut_offset == tr[k].unix_leap_time))
}

spec fn post(tr: Seq<Transition>, lt: Seq<LocalTimeType>, local: int, r: Result<MappedLocalTime<LocalTimeType>, Error>) -> bool {
    &&& (r is Ok && r->Ok_0 is Single) ==> (exists|k: int| #[trigger] sound_lo(tr, lt, local, r->Ok_0->Single_0, k, true))
    &&& (r is Ok && r->Ok_0 is Ambiguous) ==> r->Ok_0->Ambiguous_0.ut_offset < r->Ok_0->Ambiguous_1.ut_offset
            && (exists|k: int| #[trigger] sound_lo(tr, lt, local, r->Ok_0->Ambiguous_0, k, true))
            && (exists|k: int| #[trigger] sound_lo(tr, lt, local, r->Ok_0->Ambiguous_1, k, true))
}
proof fn post_single(tr: Seq<Transition>, lt: Seq<LocalTimeType>, local: int, o: LocalTimeType, k: int)
    requires sound_lo(tr, lt, local, o, k, true)
    ensures post(tr, lt, local, Ok(MappedLocalTime::Single(o)))
{
    let r: Result<MappedLocalTime<LocalTimeType>, Error> = Ok(MappedLocalTime::Single(o));
    assert(sound_lo(tr, lt, local, r->Ok_0->Single_0, k, true));
}
proof fn post_amb(tr: Seq<Transition>, lt: Seq<LocalTimeType>, local: int, a: LocalTimeType, ka: int, b: LocalTimeType, kb: int)
    requires sound_lo(tr, lt, local, a, ka, true), sound_lo(tr, lt, local, b, kb, true), a.ut_offset < b.ut_offset
    ensures post(tr, lt, local, Ok(MappedLocalTime::Ambiguous(a, b)))
{
    let r: Result<MappedLocalTime<LocalTimeType>, Error> = Ok(MappedLocalTime::Ambiguous(a, b));
    assert(sound_lo(tr, lt, local, r->Ok_0->Ambiguous_0, ka, true));
    assert(sound_lo(tr, lt, local, r->Ok_0->Ambiguous_1, kb, true));
}
'''

sig, body = T.fn('find_local_time_type_from_local', impl)
ens = "post(self.transitions@, self.local_time_types@, local_time.ts as int, r)"
W = "assert(sound_lo(self.transitions@, self.local_time_types@, local_time.ts as int, {o}, {k}, true));"
hints = [
    ("let mut prev = self.local_time_types[0];", "            let ghost tr = self.transitions@; let ghost lt = self.local_time_types@;"),
    ("let transition_end = transition.unix_leap_time", "                proof { let k = it.index@ as int; assert(interval_type(tr, lt, k) == prev); assert(interval_type(tr, lt, k + 1) == after_ltt); }"),
]
# witnesses before each `return Ok(crate::MappedLocalTime::Single(prev))` etc.
def add_witness(body):
    out = []
    for line in body.split('\n'):
        m = re.search(r'return Ok\(crate::MappedLocalTime::(Single|Ambiguous)\(([^)]*)\)\)', line)
        if m:
            args = [a.strip() for a in m.group(2).split(',')]
            ind = re.match(r'\s*', line).group(0)
            kk = lambda a: 'it.index@ as int' if a == 'prev' else 'it.index@ as int + 1'
            if m.group(1) == 'Single':
                out.append(ind + 'proof { post_single(tr, lt, local_time.ts as int, %s, %s); }' % (args[0], kk(args[0])))
            else:
                out.append(ind + 'proof { post_amb(tr, lt, local_time.ts as int, %s, %s, %s, %s); }' % (args[0], kk(args[0]), args[1], kk(args[1])))
        out.append(line)
    return '\n'.join(out)
body = add_witness(body)
body = body.replace('crate::MappedLocalTime', 'MappedLocalTime')
body = body.replace('for transition in self.transitions {',
    '''for transition in it: self.transitions
                invariant
                    wf(self.transitions@, self.local_time_types@), tr == self.transitions@, lt == self.local_time_types@,
                    it.index@ <= tr.len(), local_leap_time == local_time.ts,
                    prev == interval_type(tr, lt, it.index@ as int),
                    it.index@ > 0 ==> tr[it.index@ - 1].unix_leap_time + prev.ut_offset < local_leap_time,
            {''')
fn_txt = emit_fn(sig, body,
    requires="wf(self.transitions@, self.local_time_types@), *self.extra_rule is None",
    ensures=ens, hints=hints)
# final Single(offset_after_last): witness k = len
fn_txt = fn_txt.replace("Ok(MappedLocalTime::Single(offset_after_last))",
    "{ proof { post_single(self.transitions@, self.local_time_types@, local_time.ts as int, offset_after_last, self.transitions@.len() as int); } Ok(MappedLocalTime::Single(offset_after_last)) }")
open(os.path.join(OUT, 'tz_unit.rs'), 'w').write(PRE + "impl<'a> TimeZoneRef<'a> {\n" + fn_txt + "}\n} // verus!\nfn main() {}\n")
print('ok')
