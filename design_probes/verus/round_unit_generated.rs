use vstd::prelude::*;
use vstd::arithmetic::div_mod::*;
use core::cmp::Ordering;
verus! {
pub assume_specification [i64::abs] (x: i64) -> (r: i64)
    requires x > i64::MIN, ensures r == (if x < 0 { -(x as int) } else { x as int });

#[derive(Copy, Clone)] struct TimeDelta { secs: i64, nanos: i32 }
#[derive(Copy, Clone)] struct NaiveDateTime { d: i64 }   // abstract: only `instant` matters here
struct DateTimeUtc { datetime: NaiveDateTime }
enum RoundingError { DurationExceedsTimestamp, DurationExceedsLimit, TimestampExceedsLimit }

spec fn LIM() -> int { 9223372036854775807int * 1000000int }
spec fn ns(t: TimeDelta) -> int { t.secs as int * 1_000_000_000 + t.nanos as int }
spec fn tdinv(t: TimeDelta) -> bool { 0 <= t.nanos < 1_000_000_000 && -LIM() <= ns(t) <= LIM() }
uninterp spec fn instant(x: NaiveDateTime) -> int;      // ns since Unix epoch (non-leap)
uninterp spec fn wf(x: NaiveDateTime) -> bool;
spec fn I_MIN() -> int { -8_334_601_228_800int * 1_000_000_000 }   // instant(NaiveDateTime::MIN)
spec fn I_MAX() -> int { 8_210_266_876_800int * 1_000_000_000 - 1 } // instant(NaiveDateTime::MAX)

impl TimeDelta {
    #[verifier::external_body]
    const fn num_nanoseconds(&self) -> (r: Option<i64>)
        requires tdinv(*self)
        ensures r.is_some() <==> i64::MIN <= ns(*self) <= i64::MAX, r.is_some() ==> r.unwrap() as int == ns(*self)
    { unimplemented!() }
    #[verifier::external_body]
    const fn nanoseconds(nanos: i64) -> (r: TimeDelta) ensures tdinv(r), ns(r) == nanos as int { unimplemented!() }
}
impl NaiveDateTime {
    #[verifier::external_body]
    const fn and_utc(&self) -> (r: DateTimeUtc) ensures r.datetime == *self { unimplemented!() }
}
impl DateTimeUtc {
    #[verifier::external_body]
    const fn timestamp_nanos_opt(&self) -> (r: Option<i64>)
        requires wf(self.datetime)
        ensures r.is_some() <==> i64::MIN <= instant(self.datetime) <= i64::MAX, r.is_some() ==> r.unwrap() as int == instant(self.datetime)
    { unimplemented!() }
}
// the operator impls `NaiveDateTime + TimeDelta` / `- TimeDelta` (= checked_*_signed + expect), contract from C03
#[verifier::external_body]
fn ndt_add(a: NaiveDateTime, d: TimeDelta) -> (r: NaiveDateTime)
    requires wf(a), tdinv(d), I_MIN() <= instant(a) + ns(d) <= I_MAX()
    ensures wf(r), instant(r) == instant(a) + ns(d)
{ unimplemented!() }
#[verifier::external_body]
fn ndt_sub(a: NaiveDateTime, d: TimeDelta) -> (r: NaiveDateTime)
    requires wf(a), tdinv(d), I_MIN() <= instant(a) - ns(d) <= I_MAX()
    ensures wf(r), instant(r) == instant(a) - ns(d)
{ unimplemented!() }

proof fn neg_mod(s: int, p: int)
    requires p > 0, s < 0
    ensures (-s) % p == 0 ==> s % p == 0, (-s) % p != 0 ==> s % p == p - (-s) % p
{
    lemma_fundamental_div_mod(-s, p); lemma_mod_bound(-s, p);
    let q = (-s) / p; let r = (-s) % p;
    if r == 0 {
        assert(s == (-q) * p + 0) by(nonlinear_arith) requires -s == p * q + r, r == 0;
        lemma_fundamental_div_mod_converse(s, p, -q, 0);
    } else {
        assert(s == (-q - 1) * p + (p - r)) by(nonlinear_arith) requires -s == p * q + r;
        lemma_fundamental_div_mod_converse(s, p, -q - 1, p - r);
    }
}

spec fn floor_mult(s: int, p: int) -> int { s - s % p }
spec fn ceil_mult(s: int, p: int) -> int { if s % p == 0 { s } else { s - s % p + p } }
fn duration_trunc(
    naive: NaiveDateTime,
    original: NaiveDateTime,
    duration: TimeDelta,
) -> (r: Result<NaiveDateTime, RoundingError>)
    requires wf(naive), wf(original), original == naive, tdinv(duration), I_MIN() <= instant(naive) <= I_MAX(),
    ensures r is Ok ==> instant(r->Ok_0) == floor_mult(instant(naive), ns(duration)),
 (ns(duration) <= 0 || ns(duration) > i64::MAX) ==> r is Err, !(i64::MIN <= instant(naive) <= i64::MAX) ==> r is Err,
 (0 < ns(duration) <= i64::MAX && i64::MIN <= instant(naive) <= i64::MAX) ==> r is Ok,
{
    if let Some(span) = duration.num_nanoseconds() {
        if span <= 0 {
            return Err(RoundingError::DurationExceedsLimit);
        }
        let stamp =
            naive.and_utc().timestamp_nanos_opt().ok_or(RoundingError::TimestampExceedsLimit)?;
        proof { lemma_fundamental_div_mod(stamp as int, span as int); lemma_mod_bound(stamp as int, span as int);
                if stamp < 0 { lemma_fundamental_div_mod(-(stamp as int), span as int); lemma_mod_bound(-(stamp as int), span as int); neg_mod(stamp as int, span as int); } }
        let delta_down = stamp % span;
        match delta_down.cmp(&0) {
            Ordering::Equal => Ok(original),
            Ordering::Greater => Ok(ndt_sub(original, TimeDelta::nanoseconds(delta_down))),
            Ordering::Less => Ok(ndt_sub(original, TimeDelta::nanoseconds(span - delta_down.abs()))),
        }
    } else {
        Err(RoundingError::DurationExceedsLimit)
    }
}

fn duration_round_up(
    naive: NaiveDateTime,
    original: NaiveDateTime,
    duration: TimeDelta,
) -> (r: Result<NaiveDateTime, RoundingError>)
    requires wf(naive), wf(original), original == naive, tdinv(duration), I_MIN() <= instant(naive) <= I_MAX(),
    ensures r is Ok ==> instant(r->Ok_0) == ceil_mult(instant(naive), ns(duration)),
 (ns(duration) <= 0 || ns(duration) > i64::MAX) ==> r is Err, !(i64::MIN <= instant(naive) <= i64::MAX) ==> r is Err,
 (0 < ns(duration) <= i64::MAX && i64::MIN <= instant(naive) <= i64::MAX) ==> r is Ok,
{
    if let Some(span) = duration.num_nanoseconds() {
        if span <= 0 {
            return Err(RoundingError::DurationExceedsLimit);
        }
        let stamp =
            naive.and_utc().timestamp_nanos_opt().ok_or(RoundingError::TimestampExceedsLimit)?;
        proof { lemma_fundamental_div_mod(stamp as int, span as int); lemma_mod_bound(stamp as int, span as int);
                if stamp < 0 { lemma_fundamental_div_mod(-(stamp as int), span as int); lemma_mod_bound(-(stamp as int), span as int); neg_mod(stamp as int, span as int); } }
        let delta_down = stamp % span;
        match delta_down.cmp(&0) {
            Ordering::Equal => Ok(original),
            Ordering::Greater => Ok(ndt_add(original, TimeDelta::nanoseconds(span - delta_down))),
            Ordering::Less => Ok(ndt_add(original, TimeDelta::nanoseconds(delta_down.abs()))),
        }
    } else {
        Err(RoundingError::DurationExceedsLimit)
    }
}

fn duration_round(
    naive: NaiveDateTime,
    original: NaiveDateTime,
    duration: TimeDelta,
) -> (r: Result<NaiveDateTime, RoundingError>)
    requires wf(naive), wf(original), original == naive, tdinv(duration), I_MIN() <= instant(naive) <= I_MAX(),
    ensures r is Ok ==> ({ let s = instant(naive); let p = ns(duration); let lo = floor_mult(s, p); let hi = ceil_mult(s, p); instant(r->Ok_0) == (if hi - s <= s - lo { hi } else { lo }) }),
 (ns(duration) <= 0 || ns(duration) > i64::MAX) ==> r is Err, !(i64::MIN <= instant(naive) <= i64::MAX) ==> r is Err,
 (0 < ns(duration) <= i64::MAX && i64::MIN <= instant(naive) <= i64::MAX) ==> r is Ok,
{
    if let Some(span) = duration.num_nanoseconds() {
        if span <= 0 {
            return Err(RoundingError::DurationExceedsLimit);
        }
        let stamp =
            naive.and_utc().timestamp_nanos_opt().ok_or(RoundingError::TimestampExceedsLimit)?;
        proof { lemma_fundamental_div_mod(stamp as int, span as int); lemma_mod_bound(stamp as int, span as int);
                if stamp < 0 { lemma_fundamental_div_mod(-(stamp as int), span as int); lemma_mod_bound(-(stamp as int), span as int); neg_mod(stamp as int, span as int); } }
        let delta_down = stamp % span;
        if delta_down == 0 {
            Ok(original)
        } else {
            let (delta_up, delta_down) = if delta_down < 0 {
                (delta_down.abs(), span - delta_down.abs())
            } else {
                (span - delta_down, delta_down)
            };
            if delta_up <= delta_down {
                Ok(ndt_add(original, TimeDelta::nanoseconds(delta_up)))
            } else {
                Ok(ndt_sub(original, TimeDelta::nanoseconds(delta_down)))
            }
        }
    } else {
        Err(RoundingError::DurationExceedsLimit)
    }
}

const fn span_for_digits(digits: u16) -> (r: u32)
    ensures digits >= 9 ==> r == 1, digits == 0 ==> r == 1_000_000_000, digits == 3 ==> r == 1_000_000, digits == 6 ==> r == 1000,
{
    // fast lookup form of: 10^(9-min(9,digits))
    match digits {
        0 => 1_000_000_000,
        1 => 100_000_000,
        2 => 10_000_000,
        3 => 1_000_000,
        4 => 100_000,
        5 => 10_000,
        6 => 1_000,
        7 => 100,
        8 => 10,
        _ => 1,
    }
}

} // verus!
fn main() {}
