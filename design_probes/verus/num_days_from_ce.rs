use vstd::prelude::*;
verus! {
pub assume_specification [i64::rem_euclid] (x: i64, d: i64) -> (r: i64)
    requires d > 0,
    ensures r == (x as int) % (d as int);
pub assume_specification [i64::div_euclid] (x: i64, d: i64) -> (r: i64)
    requires d > 0,
    ensures r == (x as int) / (d as int);

pub open spec fn is_leap(y: int) -> bool { y % 4 == 0 && (y % 100 != 0 || y % 400 == 0) }
pub open spec fn days_before_year(y: int) -> int {
    let p = y - 1;
    365 * p + p / 4 - p / 100 + p / 400
}

// real code shape: num_days_from_ce
fn num_days_from_ce(year0: i32, ordinal: u32) -> (r: i32)
    requires -262144 <= year0 <= 262143, 1 <= ordinal <= 366,
    ensures r as int == days_before_year(year0 as int) + ordinal as int,
{
    let mut year = year0 - 1;
    let mut ndays = 0;
    if year < 0 {
        let excess = 1 + (-year) / 400;
        year += excess * 400;
        ndays -= excess * 146_097;
    }
    let div_100 = year / 100;
    proof {
        let a = (year * 1461) as i32;
        assert(0 <= year < 400 * 800);
        assert(a >> 2u32 == a / 4) by(bit_vector) requires a >= 0;
        assert(div_100 >> 2u32 == div_100 / 4) by(bit_vector) requires div_100 >= 0;
    }
    ndays += ((year * 1461) >> 2) - div_100 + (div_100 >> 2);
    ndays + ordinal as i32
}

fn t_rem(x: i64) -> (r: i64)
    ensures r == x % 86400, 0 <= r < 86400
{
    x.rem_euclid(86_400)
}
fn t_div(x: i64) -> (r: i64)
    ensures r == x / 86400
{
    x.div_euclid(86_400)
}
fn t_checked(x: i64, y: i64) -> (r: Option<i64>)
    ensures r.is_some() <==> (i64::MIN <= x * y <= i64::MAX),
{
    x.checked_mul(y)
}
fn t_signed_div(x: i64) -> (r: i64)
    requires x > i64::MIN
{
    x / 1000
}
fn t_signed_mod(x: i64) -> (r: i64)
{
    x % 1000
}

} // verus!
fn main() {}
