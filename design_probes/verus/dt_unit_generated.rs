use vstd::prelude::*;
use vstd::arithmetic::div_mod::*;
macro_rules! try_opt { ($e:expr) => { match $e { Some(v) => v, None => return None, } }; }
verus! {
pub assume_specification [i64::rem_euclid] (x: i64, d: i64) -> (r: i64)
    requires d > 0, ensures r == (x as int) % (d as int);
pub assume_specification [i64::div_euclid] (x: i64, d: i64) -> (r: i64)
    requires d > 0, ensures r == (x as int) / (d as int);

spec fn DN_MIN() -> int { -95746811 }   // day_number(-262143, 1)   (checked against calendar.vrs by lemma in the real unit)
spec fn DN_MAX() -> int { 95745717 }    // day_number(262142, 365)
spec fn LIM() -> int { 9223372036854775807int * 1000000int }
spec fn trunc_div(a: int, b: int) -> int { if a >= 0 { a / b } else { -((-a) / b) } }
spec fn DAYNS() -> int { 86_400_000_000_000 }

trait Offset: Sized + Clone {}
trait TimeZone: Sized + Clone { type Offset: Offset; }
#[derive(Copy, Clone)] struct Utc;
impl Offset for Utc {}
impl TimeZone for Utc { type Offset = Utc; }

#[derive(Copy, Clone)] struct TimeDelta { secs: i64, nanos: i32 }
#[derive(Copy, Clone)] struct NaiveDate { yof: i32 }
#[derive(Copy, Clone)] struct NaiveTime { secs: u32, frac: u32 }
#[derive(Copy, Clone)] struct NaiveDateTime { date: NaiveDate, time: NaiveTime }
struct DateTime<Tz: TimeZone> { datetime: NaiveDateTime, offset: Tz::Offset }

uninterp spec fn dn(d: NaiveDate) -> int;
uninterp spec fn dwf(d: NaiveDate) -> bool;
spec fn twf(t: NaiveTime) -> bool { t.secs < 86400 && t.frac < 2_000_000_000 }
spec fn nonleap(t: NaiveTime) -> bool { t.frac < 1_000_000_000 }
spec fn ns(t: TimeDelta) -> int { t.secs as int * 1_000_000_000 + t.nanos as int }
spec fn tdinv(t: TimeDelta) -> bool { 0 <= t.nanos < 1_000_000_000 && -LIM() <= ns(t) <= LIM() }
spec fn wf(x: NaiveDateTime) -> bool { dwf(x.date) && twf(x.time) && DN_MIN() <= dn(x.date) <= DN_MAX() }
spec fn tpos(t: NaiveTime) -> int { t.secs as int * 1_000_000_000 + t.frac as int }
spec fn instant(x: NaiveDateTime) -> int { dn(x.date) * DAYNS() + tpos(x.time) }

#[verifier::external_body]
const fn expect<T>(opt: Option<T>, msg: &str) -> (r: T)
    requires opt.is_some() ensures r == opt.unwrap()
{ unimplemented!() }

impl TimeDelta {
    #[verifier::external_body]
    const fn try_seconds(seconds: i64) -> (r: Option<TimeDelta>)
        ensures r.is_some() <==> -LIM() <= seconds as int * 1_000_000_000 <= LIM(),
                r.is_some() ==> tdinv(r.unwrap()) && ns(r.unwrap()) == seconds as int * 1_000_000_000
    { unimplemented!() }
    #[verifier::external_body]
    const fn checked_add(&self, rhs: &TimeDelta) -> (r: Option<TimeDelta>)
        requires tdinv(*self), tdinv(*rhs)
        ensures r.is_some() <==> -LIM() <= ns(*self) + ns(*rhs) <= LIM(),
                r.is_some() ==> tdinv(r.unwrap()) && ns(r.unwrap()) == ns(*self) + ns(*rhs)
    { unimplemented!() }
}
impl NaiveDate {
    #[verifier::external_body]
    const fn from_num_days_from_ce_opt(days: i32) -> (r: Option<NaiveDate>)
        ensures r.is_some() <==> DN_MIN() <= days <= DN_MAX(), r.is_some() ==> dwf(r.unwrap()) && dn(r.unwrap()) == days
    { unimplemented!() }
    #[verifier::external_body]
    const fn num_days_from_ce(&self) -> (r: i32) requires dwf(*self) ensures r == dn(*self) { unimplemented!() }
    #[verifier::external_body]
    const fn and_time(&self, time: NaiveTime) -> (r: NaiveDateTime) ensures r.date == *self, r.time == time { unimplemented!() }
    #[verifier::external_body]
    const fn checked_add_signed(self, rhs: TimeDelta) -> (r: Option<NaiveDate>)
        requires dwf(self), DN_MIN() <= dn(self) <= DN_MAX()
        ensures r.is_some() <==> DN_MIN() <= dn(self) + trunc_div(ns(rhs), DAYNS()) <= DN_MAX(),
                r.is_some() ==> dwf(r.unwrap()) && dn(r.unwrap()) == dn(self) + trunc_div(ns(rhs), DAYNS())
    { unimplemented!() }
    #[verifier::external_body]
    const fn checked_sub_signed(self, rhs: TimeDelta) -> (r: Option<NaiveDate>)
        requires dwf(self), DN_MIN() <= dn(self) <= DN_MAX()
        ensures r.is_some() <==> DN_MIN() <= dn(self) - trunc_div(ns(rhs), DAYNS()) <= DN_MAX(),
                r.is_some() ==> dwf(r.unwrap()) && dn(r.unwrap()) == dn(self) - trunc_div(ns(rhs), DAYNS())
    { unimplemented!() }
    #[verifier::external_body]
    const fn signed_duration_since(self, rhs: NaiveDate) -> (r: TimeDelta)
        requires dwf(self), dwf(rhs), DN_MIN() <= dn(self) <= DN_MAX(), DN_MIN() <= dn(rhs) <= DN_MAX()
        ensures tdinv(r), ns(r) == (dn(self) - dn(rhs)) * DAYNS()
    { unimplemented!() }
}
impl NaiveTime {
    #[verifier::external_body]
    const fn from_num_seconds_from_midnight_opt(secs: u32, nano: u32) -> (r: Option<NaiveTime>)
        ensures r.is_some() <==> (secs < 86400 && (nano < 1_000_000_000 || (nano < 2_000_000_000 && secs % 60 == 59))),
                r.is_some() ==> r.unwrap().secs == secs && r.unwrap().frac == nano
    { unimplemented!() }
    #[verifier::external_body]
    const fn num_seconds_from_midnight(&self) -> (r: u32) ensures r == self.secs { unimplemented!() }
    #[verifier::external_body]
    const fn nanosecond(&self) -> (r: u32) ensures r == self.frac { unimplemented!() }
    // non-leap part of the C07 contract (proved in the naive_time unit)
    #[verifier::external_body]
    const fn overflowing_add_signed(&self, rhs: TimeDelta) -> (r: (NaiveTime, i64))
        requires twf(*self), tdinv(rhs)
        ensures twf(r.0), nonleap(*self) ==> nonleap(r.0) && tpos(r.0) + r.1 as int * 1_000_000_000 == tpos(*self) + ns(rhs) && r.1 as int % 86400 == 0
    { unimplemented!() }
    #[verifier::external_body]
    const fn overflowing_sub_signed(&self, rhs: TimeDelta) -> (r: (NaiveTime, i64))
        requires twf(*self), tdinv(rhs)
        ensures twf(r.0), nonleap(*self) ==> nonleap(r.0) && tpos(r.0) - r.1 as int * 1_000_000_000 == tpos(*self) - ns(rhs) && r.1 as int % 86400 == 0
    { unimplemented!() }
    #[verifier::external_body]
    const fn signed_duration_since(self, rhs: NaiveTime) -> (r: TimeDelta)
        requires twf(self), twf(rhs)
        ensures tdinv(r), -86_402_000_000_000 < ns(r) < 86_402_000_000_000, nonleap(self) && nonleap(rhs) ==> ns(r) == tpos(self) - tpos(rhs)
    { unimplemented!() }
}
const UNIX_EPOCH_DAY: i64 = 719_163;
impl<Tz: TimeZone> DateTime<Tz> {
#[verifier::external_body]
const fn from_naive_utc_and_offset(datetime: NaiveDateTime, offset: Tz::Offset) -> (r: DateTime<Tz>) ensures r.datetime == datetime { unimplemented!() }
const fn timestamp(&self) -> (r: i64)
    requires wf(self.datetime),
    ensures r as int == (dn(self.datetime.date) - 719163) * 86400 + self.datetime.time.secs as int,
{
        let gregorian_day = self.datetime.date().num_days_from_ce() as i64;
        let seconds_from_midnight = self.datetime.time().num_seconds_from_midnight() as i64;
        (gregorian_day - UNIX_EPOCH_DAY) * 86_400 + seconds_from_midnight
    }

const fn timestamp_subsec_nanos(&self) -> (r: u32)
    ensures r == self.datetime.time.frac,
{
        self.datetime.time().nanosecond()
    }

const fn timestamp_subsec_millis(&self) -> (r: u32)
    ensures r as int == self.datetime.time.frac as int / 1_000_000,
{
        self.timestamp_subsec_nanos() / 1_000_000
    }

const fn timestamp_subsec_micros(&self) -> (r: u32)
    ensures r as int == self.datetime.time.frac as int / 1_000,
{
        self.timestamp_subsec_nanos() / 1_000
    }

const fn timestamp_millis(&self) -> (r: i64)
    requires wf(self.datetime),
    ensures r as int == ((dn(self.datetime.date) - 719163) * 86400 + self.datetime.time.secs as int) * 1000 + self.datetime.time.frac as int / 1_000_000,
{
        let as_ms = self.timestamp() * 1000;
        as_ms + self.timestamp_subsec_millis() as i64
    }

const fn timestamp_micros(&self) -> (r: i64)
    requires wf(self.datetime),
    ensures r as int == ((dn(self.datetime.date) - 719163) * 86400 + self.datetime.time.secs as int) * 1_000_000 + self.datetime.time.frac as int / 1_000,
{
        let as_us = self.timestamp() * 1_000_000;
        as_us + self.timestamp_subsec_micros() as i64
    }

const fn timestamp_nanos_opt(&self) -> (r: Option<i64>)
    requires wf(self.datetime),
    ensures ({ let v = ((dn(self.datetime.date) - 719163) * 86400 + self.datetime.time.secs as int) * 1_000_000_000 + self.datetime.time.frac as int; (nonleap(self.datetime.time) ==> (r.is_some() <==> i64::MIN <= v <= i64::MAX)) && (r.is_some() ==> r.unwrap() as int == v) }),
{
        let mut timestamp = self.timestamp();
        let mut subsec_nanos = self.timestamp_subsec_nanos() as i64;
        // `(timestamp * 1_000_000_000) + subsec_nanos` may create a temporary that underflows while
        // the final value can be represented as an `i64`.
        // As workaround we converting the negative case to:
        // `((timestamp + 1) * 1_000_000_000) + (ns - 1_000_000_000)``
        //
        // Also see <https://github.com/chronotope/chrono/issues/1289>.
        if timestamp < 0 {
            subsec_nanos -= 1_000_000_000;
            timestamp += 1;
        }
        try_opt!(timestamp.checked_mul(1_000_000_000)).checked_add(subsec_nanos)
    }
}
impl DateTime<Utc> {
const fn from_timestamp(secs: i64, nsecs: u32) -> (r: Option<Self>)
    ensures r.is_some() <==> (DN_MIN() <= secs as int / 86400 + 719163 <= DN_MAX() && (nsecs < 1_000_000_000 || (nsecs < 2_000_000_000 && (secs as int % 86400) % 60 == 59))), r.is_some() ==> wf(r.unwrap().datetime) && dn(r.unwrap().datetime.date) == secs as int / 86400 + 719163 && r.unwrap().datetime.time.secs as int == secs as int % 86400 && r.unwrap().datetime.time.frac == nsecs,
{
        let days = secs.div_euclid(86_400) + UNIX_EPOCH_DAY;
        let secs = secs.rem_euclid(86_400);
        if days < i32::MIN as i64 || days > i32::MAX as i64 {
            return None;
        }
        let date = try_opt!(NaiveDate::from_num_days_from_ce_opt(days as i32));
        let time = try_opt!(NaiveTime::from_num_seconds_from_midnight_opt(secs as u32, nsecs));
        Some(date.and_time(time).and_utc())
    }

const fn from_timestamp_millis(millis: i64) -> (r: Option<Self>)
    ensures r.is_some() <==> (DN_MIN() <= (millis as int / 1000) / 86400 + 719163 <= DN_MAX()), r.is_some() ==> wf(r.unwrap().datetime) && (dn(r.unwrap().datetime.date) - 719163) * 86400_000 + r.unwrap().datetime.time.secs as int * 1000 + r.unwrap().datetime.time.frac as int / 1_000_000 == millis as int && r.unwrap().datetime.time.frac as int % 1_000_000 == 0,
{
        let secs = millis.div_euclid(1000);
        let nsecs = millis.rem_euclid(1000) as u32 * 1_000_000;
        Self::from_timestamp(secs, nsecs)
    }

const fn from_timestamp_nanos(nanos: i64) -> (r: Self)
    ensures wf(r.datetime) && ((dn(r.datetime.date) - 719163) * 86400 + r.datetime.time.secs as int) * 1_000_000_000 + r.datetime.time.frac as int == nanos as int && r.datetime.time.frac < 1_000_000_000,
{
        let secs = nanos.div_euclid(1_000_000_000);
        let nsecs = nanos.rem_euclid(1_000_000_000) as u32;
        expect(Self::from_timestamp(secs, nsecs), "timestamp in nanos is always in range")
    }
}
impl NaiveDateTime {
const fn date(&self) -> (r: NaiveDate)
    ensures r == self.date,
{
        self.date
    }

const fn time(&self) -> (r: NaiveTime)
    ensures r == self.time,
{
        self.time
    }

const fn and_utc(&self) -> (r: DateTime<Utc>)
    ensures r.datetime == *self,
{
        DateTime::from_naive_utc_and_offset(*self, Utc)
    }

const fn checked_add_signed(self, rhs: TimeDelta) -> (r: Option<NaiveDateTime>)
    requires wf(self), tdinv(rhs),
    ensures nonleap(self.time) ==> ((r.is_some() <==> DN_MIN() * DAYNS() <= instant(self) + ns(rhs) < (DN_MAX() + 1) * DAYNS()) && (r.is_some() ==> wf(r.unwrap()) && nonleap(r.unwrap().time) && instant(r.unwrap()) == instant(self) + ns(rhs))),
{
        let (time, remainder) = self.time.overflowing_add_signed(rhs);
        let remainder = try_opt!(TimeDelta::try_seconds(remainder));
        let date = try_opt!(self.date.checked_add_signed(remainder));
        Some(NaiveDateTime { date, time })
    }

const fn checked_sub_signed(self, rhs: TimeDelta) -> (r: Option<NaiveDateTime>)
    requires wf(self), tdinv(rhs),
    ensures nonleap(self.time) ==> ((r.is_some() <==> DN_MIN() * DAYNS() <= instant(self) - ns(rhs) < (DN_MAX() + 1) * DAYNS()) && (r.is_some() ==> wf(r.unwrap()) && nonleap(r.unwrap().time) && instant(r.unwrap()) == instant(self) - ns(rhs))),
{
        let (time, remainder) = self.time.overflowing_sub_signed(rhs);
        let remainder = try_opt!(TimeDelta::try_seconds(remainder));
        let date = try_opt!(self.date.checked_sub_signed(remainder));
        Some(NaiveDateTime { date, time })
    }

const fn signed_duration_since(self, rhs: NaiveDateTime) -> (r: TimeDelta)
    requires wf(self), wf(rhs),
    ensures tdinv(r), nonleap(self.time) && nonleap(rhs.time) ==> ns(r) == instant(self) - instant(rhs),
{
        expect(
            self.date
                .signed_duration_since(rhs.date)
                .checked_add(&self.time.signed_duration_since(rhs.time)),
            "always in range",
        )
    }
}
} // verus!
fn main() {}
