import re,sys
src=open('/repo/src/time_delta.rs').read()

def match_brace(s,j):
    depth=0;k=j;n=len(s)
    while k<n:
        c=s[k]
        if c=='/' and s[k:k+2]=='//':
            k=s.index('\n',k); continue
        if c=='"':
            k+=1
            while s[k]!='"':
                if s[k]=='\\': k+=1
                k+=1
        elif c=='{': depth+=1
        elif c=='}':
            depth-=1
            if depth==0: return k
        k+=1
    raise Exception('unbalanced')

def strip(s):
    s=re.sub(r'^\s*///.*\n','',s,flags=re.M)
    s=re.sub(r'^\s*#\[(inline|must_use|deprecated|cfg_attr|derive|allow)[^\n]*\]\n','',s,flags=re.M)
    # multi-line attributes
    s=re.sub(r'^\s*#\[deprecated\([^\]]*\)\]\n','',s,flags=re.M|re.S)
    return s

i=src.index('impl TimeDelta {'); j=src.index('{',i); k=match_brace(src,j)
body=src[j+1:k]
# split into fns
fns={}
pos=0
for m in re.finditer(r'(pub(\(crate\))? )?(const )?fn (\w+)',body):
    name=m.group(4)
    b=body.index('{',m.end()); e=match_brace(body,b)
    fns[name]=(body[m.start():b], body[b:e+1])
consts=re.findall(r'pub const (MIN|MAX): Self = (MIN|MAX);',body)

NS="self.secs as int * 1_000_000_000 + self.nanos as int"
contracts={
 'new': ("", "r.is_some() <==> (nanos < 1_000_000_000 && -LIM() <= secs as int * 1_000_000_000 + nanos as int <= LIM()),\n r.is_some() ==> r.unwrap().inv() && r.unwrap().ns() == secs as int * 1_000_000_000 + nanos as int"),
 'try_seconds': ("", "r.is_some() <==> -LIM() <= seconds as int * 1_000_000_000 <= LIM(), r.is_some() ==> r.unwrap().inv() && r.unwrap().ns() == seconds as int * 1_000_000_000"),
 'try_days': ("", "r.is_some() <==> -LIM() <= days as int * 86_400_000_000_000 <= LIM(), r.is_some() ==> r.unwrap().inv() && r.unwrap().ns() == days as int * 86_400_000_000_000"),
 'try_weeks': ("", "r.is_some() <==> -LIM() <= weeks as int * 604_800_000_000_000 <= LIM(), r.is_some() ==> r.unwrap().inv() && r.unwrap().ns() == weeks as int * 604_800_000_000_000"),
 'try_hours': ("", "r.is_some() <==> -LIM() <= hours as int * 3_600_000_000_000 <= LIM(), r.is_some() ==> r.unwrap().inv() && r.unwrap().ns() == hours as int * 3_600_000_000_000"),
 'try_minutes': ("", "r.is_some() <==> -LIM() <= minutes as int * 60_000_000_000 <= LIM(), r.is_some() ==> r.unwrap().inv() && r.unwrap().ns() == minutes as int * 60_000_000_000"),
 'try_milliseconds': ("", "r.is_some() <==> milliseconds > i64::MIN, r.is_some() ==> r.unwrap().inv() && r.unwrap().ns() == milliseconds as int * 1_000_000"),
 'microseconds': ("", "r.inv(), r.ns() == microseconds as int * 1000"),
 'nanoseconds': ("", "r.inv(), r.ns() == nanos as int"),
 'num_seconds': ("self.inv()", "r as int == trunc_div(self.ns(), 1_000_000_000)"),
 'subsec_nanos': ("self.inv()", "r as int == self.ns() - trunc_div(self.ns(), 1_000_000_000) * 1_000_000_000, -1_000_000_000 < r < 1_000_000_000"),
 'num_days': ("self.inv()", "r as int == trunc_div(self.ns(), 86_400_000_000_000)"),
 'num_weeks': ("self.inv()", "r as int == trunc_div(self.ns(), 604_800_000_000_000)"),
 'num_hours': ("self.inv()", "r as int == trunc_div(self.ns(), 3_600_000_000_000)"),
 'num_minutes': ("self.inv()", "r as int == trunc_div(self.ns(), 60_000_000_000)"),
 'num_milliseconds': ("self.inv()", "r as int == trunc_div(self.ns(), 1_000_000)"),
 'subsec_millis': ("self.inv()", "r as int == trunc_div(self.ns() - trunc_div(self.ns(), 1_000_000_000) * 1_000_000_000, 1_000_000)"),
 'subsec_micros': ("self.inv()", "r as int == trunc_div(self.ns() - trunc_div(self.ns(), 1_000_000_000) * 1_000_000_000, 1_000)"),
 'num_microseconds': ("self.inv()", "r.is_some() <==> i64::MIN <= trunc_div(self.ns(), 1000) <= i64::MAX, r.is_some() ==> r.unwrap() as int == trunc_div(self.ns(), 1000)"),
 'num_nanoseconds': ("self.inv()", "r.is_some() <==> i64::MIN <= self.ns() <= i64::MAX, r.is_some() ==> r.unwrap() as int == self.ns()"),
 'checked_add': ("self.inv(), rhs.inv()", "r.is_some() <==> -LIM() <= self.ns() + rhs.ns() <= LIM(), r.is_some() ==> r.unwrap().inv() && r.unwrap().ns() == self.ns() + rhs.ns()"),
 'checked_sub': ("self.inv(), rhs.inv()", "r.is_some() <==> -LIM() <= self.ns() - rhs.ns() <= LIM(), r.is_some() ==> r.unwrap().inv() && r.unwrap().ns() == self.ns() - rhs.ns()"),
 'checked_mul': ("self.inv()", "r.is_some() <==> -LIM() <= self.ns() * rhs as int <= LIM(), r.is_some() ==> r.unwrap().inv() && r.unwrap().ns() == self.ns() * rhs as int"),
 'checked_div': ("self.inv()", "r.is_some() <==> rhs != 0, r.is_some() ==> r.unwrap().inv()"),
 'abs': ("self.inv()", "r.inv(), r.ns() == (if self.ns() < 0 { -self.ns() } else { self.ns() })"),
 'neg': ("self.inv()", "r.inv(), r.ns() == -self.ns()"),
 'zero': ("", "r.inv(), r.ns() == 0"),
 'is_zero': ("self.inv()", "r == (self.ns() == 0)"),
}
skip={'weeks','days','hours','minutes','seconds','milliseconds','as_seconds_f64','as_seconds_f32','min_value','max_value','from_std','to_std'}
out=[]
for name,(sig,bd) in fns.items():
    if name in skip: continue
    sig=strip(sig).strip()
    sig=re.sub(r'^pub(\(crate\))? ','',sig)
    req,ens=contracts.get(name,("",""))
    # name the return value
    m=re.search(r'->\s*(.+)$',sig,flags=re.S)
    if m:
        sig=sig[:m.start()]+'-> (r: '+m.group(1).strip()+')'
    spec=''
    if req: spec+='\n        requires '+req+','
    if ens: spec+='\n        ensures '+ens+','
    out.append('    '+sig+spec+'\n    '+bd+'\n')
methods='\n'.join(out)

def grab_const(name):
    m=re.search(r'pub\(crate\) const '+name+r': TimeDelta = TimeDelta \{.*?\};',src,flags=re.S)
    return m.group(0).replace('pub(crate) ','')
def mk_exec_const(name, ens):
    t=grab_const(name)
    m=re.match(r'const (\w+): TimeDelta = (TimeDelta \{.*\});',t,flags=re.S)
    return f'exec const {name}: TimeDelta\n    ensures {ens}\n{{ {m.group(2)} }}'
consts_txt='\n'.join(re.findall(r'^(?:pub\(crate\) )?const [A-Z_]+: i(?:32|64) = [^;]+;',src,flags=re.M)).replace('pub(crate) ','')
dmf=re.search(r'const fn div_mod_floor_64\(.*?\n\}',src,flags=re.S).group(0)
file=f'''use vstd::prelude::*;
use vstd::arithmetic::div_mod::*;
macro_rules! try_opt {{ ($e:expr) => {{ match $e {{ Some(v) => v, None => return None, }} }}; }}
verus! {{
pub assume_specification [i64::rem_euclid] (x: i64, d: i64) -> (r: i64)
    requires d > 0, ensures r == (x as int) % (d as int);
pub assume_specification [i64::div_euclid] (x: i64, d: i64) -> (r: i64)
    requires d > 0, ensures r == (x as int) / (d as int);
pub assume_specification [i64::abs] (x: i64) -> (r: i64)
    requires x > i64::MIN, ensures r == (if x < 0 {{ -(x as int) }} else {{ x as int }});

spec fn LIM() -> int {{ 9223372036854775807int * 1000000int }}
spec fn trunc_div(a: int, b: int) -> int {{ if a >= 0 {{ a / b }} else {{ -((-a) / b) }} }}

{consts_txt}

#[derive(Clone, Copy)]
struct TimeDelta {{ secs: i64, nanos: i32 }}

{mk_exec_const('MIN', 'MIN.secs == -9223372036854776 && MIN.nanos == 193_000_000')}
{mk_exec_const('MAX', 'MAX.secs == 9223372036854775 && MAX.nanos == 807_000_000')}

{dmf.replace('-> (i64, i64) {', "-> (r: (i64, i64)) requires other > 0 ensures r.0 == this as int / other as int, r.1 == this as int % other as int {")}

impl TimeDelta {{
    spec fn ns(&self) -> int {{ {NS} }}
    spec fn inv(&self) -> bool {{ 0 <= self.nanos < 1_000_000_000 && -LIM() <= self.ns() <= LIM() }}

{methods}
}}
}} // verus!
fn main() {{}}
'''
open('td.rs','w').write(file)
print(len(fns), 'fns found;', len(out), 'emitted')
