#!/usr/bin/env python3
# Probe: find_local_time_type (instant -> type) + validate, real text
import sys, re
import os
HERE = os.path.dirname(os.path.abspath(__file__))
OUT = os.environ.get('PROBE_OUT', '/var/tmp')
sys.path.insert(0, HERE)
from xprobe import *
T = Src('/repo/src/offset/local/tz_info/timezone.rs')
impl = T.impl_body("impl<'a> TimeZoneRef<'a> {")
PRE = r'''use vstd::prelude::*;
verus! {
#[derive(Copy, Clone)]
struct Transition { unix_leap_time: i64, local_time_type_index: usize }
#[derive(Copy, Clone, PartialEq, Eq)]
struct LocalTimeType { ut_offset: i32, is_dst: bool }
#[derive(Copy, Clone)]
struct LeapSecond { unix_leap_time: i64, correction: i32 }
enum Error { FindLocalTimeType(&'static str), OutOfRange(&'static str), TimeZone(&'static str) }
struct TransitionRule { x: u8 }
impl TransitionRule {
    #[verifier::external_body]
    fn find_local_time_type(&self, unix_time: i64) -> (r: Result<&LocalTimeType, Error>) { unimplemented!() }
}
struct TimeZoneRef<'a> {
    transitions: &'a [Transition],
    local_time_types: &'a [LocalTimeType],
    leap_seconds: &'a [LeapSecond],
    extra_rule: &'a Option<TransitionRule>,
}
spec fn sorted(tr: Seq<Transition>) -> bool { forall|i: int, j: int| 0 <= i < j < tr.len() ==> (#[trigger] tr[i]).unix_leap_time < (#[trigger] tr[j]).unix_leap_time }
spec fn wf(tr: Seq<Transition>, lt: Seq<LocalTimeType>) -> bool {
    lt.len() > 0 && sorted(tr)
    && (forall|i: int| 0 <= i < tr.len() ==> (#[trigger] tr[i]).local_time_type_index < lt.len())
}
// std contract of slice::binary_search_by_key specialised at key = Transition::unix_leap_time (trusted)
#[verifier::external_body]
fn bsbk_transition(s: &[Transition], key: &i64) -> (r: Result<usize, usize>)
    requires sorted(s@)
    ensures match r {
        Ok(i) => i < s@.len() && s@[i as int].unix_leap_time == *key,
        Err(i) => i <= s@.len() && (forall|j: int| 0 <= j < i ==> (#[trigger] s@[j]).unix_leap_time < *key) && (forall|j: int| i <= j < s@.len() ==> (#[trigger] s@[j]).unix_leap_time > *key),
    }
{ unimplemented!() }
// index of the interval that governs instant t: number of transitions with time <= t
spec fn governs(tr: Seq<Transition>, k: int, t: int) -> bool {
    0 <= k <= tr.len() && (k == 0 || tr[k - 1].unix_leap_time <= t) && (k == tr.len() || t < tr[k].unix_leap_time)
}
spec fn interval_type(tr: Seq<Transition>, lt: Seq<LocalTimeType>, k: int) -> LocalTimeType {
    if k == 0 { lt[0] } else { lt[tr[k - 1].local_time_type_index as int] }
}
'''
sig, body = T.fn('find_local_time_type', impl)
body = body.replace("self\n                        .transitions\n                        .binary_search_by_key(&unix_leap_time, Transition::unix_leap_time)",
                    "bsbk_transition(self.transitions, &unix_leap_time)")
assert 'bsbk_transition' in body
f1 = emit_fn(sig, body,
    requires="wf(self.transitions@, self.local_time_types@), self.leap_seconds@.len() == 0, *self.extra_rule is None",
    ensures="r is Ok, exists|k: int| governs(self.transitions@, k, unix_time as int) && #[trigger] interval_type(self.transitions@, self.local_time_types@, k) == *(r->Ok_0)",
    hints=[("let local_time_type_index = if index > 0", "                    proof { assert(governs(self.transitions@, index as int, unix_time as int)); }")])
sig, body = T.fn('unix_time_to_unix_leap_time', impl)
body = body.replace("while i < self.leap_seconds.len() {", "while i < self.leap_seconds.len()\n            invariant i <= self.leap_seconds@.len(), self.leap_seconds@.len() == 0 ==> unix_leap_time == unix_time,\n            decreases self.leap_seconds@.len() - i\n        {")
f0 = emit_fn(sig, body, ensures="self.leap_seconds@.len() == 0 ==> r is Ok && r->Ok_0 == unix_time")
open(os.path.join(OUT, 'tz2_unit.rs'), 'w').write(PRE + "impl<'a> TimeZoneRef<'a> {\n" + f0 + f1 + "}\n} // verus!\nfn main() {}\n")
print('ok')
