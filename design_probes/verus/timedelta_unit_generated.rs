use vstd::prelude::*;
use vstd::arithmetic::div_mod::*;
macro_rules! try_opt { ($e:expr) => { match $e { Some(v) => v, None => return None, } }; }
verus! {
pub assume_specification [i64::rem_euclid] (x: i64, d: i64) -> (r: i64)
    requires d > 0, ensures r == (x as int) % (d as int);
pub assume_specification [i64::div_euclid] (x: i64, d: i64) -> (r: i64)
    requires d > 0, ensures r == (x as int) / (d as int);
pub assume_specification [i64::abs] (x: i64) -> (r: i64)
    requires x > i64::MIN, ensures r == (if x < 0 { -(x as int) } else { x as int });

spec fn LIM() -> int { 9223372036854775807int * 1000000int }
spec fn trunc_div(a: int, b: int) -> int { if a >= 0 { a / b } else { -((-a) / b) } }

const NANOS_PER_MICRO: i32 = 1000;
const NANOS_PER_MILLI: i32 = 1_000_000;
const NANOS_PER_SEC: i32 = 1_000_000_000;
const MICROS_PER_SEC: i64 = 1_000_000;
const MILLIS_PER_SEC: i64 = 1000;
const SECS_PER_MINUTE: i64 = 60;
const SECS_PER_HOUR: i64 = 3600;
const SECS_PER_DAY: i64 = 86_400;
const SECS_PER_WEEK: i64 = 604_800;

#[derive(Clone, Copy)]
struct TimeDelta { secs: i64, nanos: i32 }

exec const MIN: TimeDelta
    ensures MIN.secs == -9223372036854776 && MIN.nanos == 193_000_000
{ TimeDelta {
    secs: -i64::MAX / MILLIS_PER_SEC - 1,
    nanos: NANOS_PER_SEC + (-i64::MAX % MILLIS_PER_SEC) as i32 * NANOS_PER_MILLI,
} }
exec const MAX: TimeDelta
    ensures MAX.secs == 9223372036854775 && MAX.nanos == 807_000_000
{ TimeDelta {
    secs: i64::MAX / MILLIS_PER_SEC,
    nanos: (i64::MAX % MILLIS_PER_SEC) as i32 * NANOS_PER_MILLI,
} }

const fn div_mod_floor_64(this: i64, other: i64) -> (r: (i64, i64)) requires other > 0 ensures r.0 == this as int / other as int, r.1 == this as int % other as int {
    (this.div_euclid(other), this.rem_euclid(other))
}

impl TimeDelta {
    spec fn ns(&self) -> int { self.secs as int * 1_000_000_000 + self.nanos as int }
    spec fn inv(&self) -> bool { 0 <= self.nanos < 1_000_000_000 && -LIM() <= self.ns() <= LIM() }

    const fn new(secs: i64, nanos: u32) -> (r: Option<TimeDelta>)
        ensures r.is_some() <==> (nanos < 1_000_000_000 && -LIM() <= secs as int * 1_000_000_000 + nanos as int <= LIM()),
 r.is_some() ==> r.unwrap().inv() && r.unwrap().ns() == secs as int * 1_000_000_000 + nanos as int,
    {
        if secs < MIN.secs
            || secs > MAX.secs
            || nanos >= 1_000_000_000
            || (secs == MAX.secs && nanos > MAX.nanos as u32)
            || (secs == MIN.secs && nanos < MIN.nanos as u32)
        {
            return None;
        }
        Some(TimeDelta { secs, nanos: nanos as i32 })
    }

    const fn try_weeks(weeks: i64) -> (r: Option<TimeDelta>)
        ensures r.is_some() <==> -LIM() <= weeks as int * 604_800_000_000_000 <= LIM(), r.is_some() ==> r.unwrap().inv() && r.unwrap().ns() == weeks as int * 604_800_000_000_000,
    {
        TimeDelta::try_seconds(try_opt!(weeks.checked_mul(SECS_PER_WEEK)))
    }

    const fn try_days(days: i64) -> (r: Option<TimeDelta>)
        ensures r.is_some() <==> -LIM() <= days as int * 86_400_000_000_000 <= LIM(), r.is_some() ==> r.unwrap().inv() && r.unwrap().ns() == days as int * 86_400_000_000_000,
    {
        TimeDelta::try_seconds(try_opt!(days.checked_mul(SECS_PER_DAY)))
    }

    const fn try_hours(hours: i64) -> (r: Option<TimeDelta>)
        ensures r.is_some() <==> -LIM() <= hours as int * 3_600_000_000_000 <= LIM(), r.is_some() ==> r.unwrap().inv() && r.unwrap().ns() == hours as int * 3_600_000_000_000,
    {
        TimeDelta::try_seconds(try_opt!(hours.checked_mul(SECS_PER_HOUR)))
    }

    const fn try_minutes(minutes: i64) -> (r: Option<TimeDelta>)
        ensures r.is_some() <==> -LIM() <= minutes as int * 60_000_000_000 <= LIM(), r.is_some() ==> r.unwrap().inv() && r.unwrap().ns() == minutes as int * 60_000_000_000,
    {
        TimeDelta::try_seconds(try_opt!(minutes.checked_mul(SECS_PER_MINUTE)))
    }

    const fn try_seconds(seconds: i64) -> (r: Option<TimeDelta>)
        ensures r.is_some() <==> -LIM() <= seconds as int * 1_000_000_000 <= LIM(), r.is_some() ==> r.unwrap().inv() && r.unwrap().ns() == seconds as int * 1_000_000_000,
    {
        TimeDelta::new(seconds, 0)
    }

    const fn try_milliseconds(milliseconds: i64) -> (r: Option<TimeDelta>)
        ensures r.is_some() <==> milliseconds > i64::MIN, r.is_some() ==> r.unwrap().inv() && r.unwrap().ns() == milliseconds as int * 1_000_000,
    {
        // We don't need to compare against MAX, as this function accepts an
        // i64, and MAX is aligned to i64::MAX milliseconds.
        if milliseconds < -i64::MAX {
            return None;
        }
        let (secs, millis) = div_mod_floor_64(milliseconds, MILLIS_PER_SEC);
        let d = TimeDelta { secs, nanos: millis as i32 * NANOS_PER_MILLI };
        Some(d)
    }

    const fn microseconds(microseconds: i64) -> (r: TimeDelta)
        ensures r.inv(), r.ns() == microseconds as int * 1000,
    {
        let (secs, micros) = div_mod_floor_64(microseconds, MICROS_PER_SEC);
        let nanos = micros as i32 * NANOS_PER_MICRO;
        TimeDelta { secs, nanos }
    }

    const fn nanoseconds(nanos: i64) -> (r: TimeDelta)
        ensures r.inv(), r.ns() == nanos as int,
    {
        let (secs, nanos) = div_mod_floor_64(nanos, NANOS_PER_SEC as i64);
        TimeDelta { secs, nanos: nanos as i32 }
    }

    const fn num_weeks(&self) -> (r: i64)
        requires self.inv(),
        ensures r as int == trunc_div(self.ns(), 604_800_000_000_000),
    {
        self.num_days() / 7
    }

    const fn num_days(&self) -> (r: i64)
        requires self.inv(),
        ensures r as int == trunc_div(self.ns(), 86_400_000_000_000),
    {
        self.num_seconds() / SECS_PER_DAY
    }

    const fn num_hours(&self) -> (r: i64)
        requires self.inv(),
        ensures r as int == trunc_div(self.ns(), 3_600_000_000_000),
    {
        self.num_seconds() / SECS_PER_HOUR
    }

    const fn num_minutes(&self) -> (r: i64)
        requires self.inv(),
        ensures r as int == trunc_div(self.ns(), 60_000_000_000),
    {
        self.num_seconds() / SECS_PER_MINUTE
    }

    const fn num_seconds(&self) -> (r: i64)
        requires self.inv(),
        ensures r as int == trunc_div(self.ns(), 1_000_000_000),
    {
        // If secs is negative, nanos should be subtracted from the duration.
        if self.secs < 0 && self.nanos > 0 { self.secs + 1 } else { self.secs }
    }

    const fn num_milliseconds(&self) -> (r: i64)
        requires self.inv(),
        ensures r as int == trunc_div(self.ns(), 1_000_000),
    {
        // A proper TimeDelta will not overflow, because MIN and MAX are defined such
        // that the range is within the bounds of an i64, from -i64::MAX through to
        // +i64::MAX inclusive. Notably, i64::MIN is excluded from this range.
        let secs_part = self.num_seconds() * MILLIS_PER_SEC;
        let nanos_part = self.subsec_nanos() / NANOS_PER_MILLI;
        secs_part + nanos_part as i64
    }

    const fn subsec_millis(&self) -> (r: i32)
        requires self.inv(),
        ensures r as int == trunc_div(self.ns() - trunc_div(self.ns(), 1_000_000_000) * 1_000_000_000, 1_000_000),
    {
        self.subsec_nanos() / NANOS_PER_MILLI
    }

    const fn num_microseconds(&self) -> (r: Option<i64>)
        requires self.inv(),
        ensures r.is_some() <==> i64::MIN <= trunc_div(self.ns(), 1000) <= i64::MAX, r.is_some() ==> r.unwrap() as int == trunc_div(self.ns(), 1000),
    {
        let secs_part = try_opt!(self.num_seconds().checked_mul(MICROS_PER_SEC));
        let nanos_part = self.subsec_nanos() / NANOS_PER_MICRO;
        secs_part.checked_add(nanos_part as i64)
    }

    const fn subsec_micros(&self) -> (r: i32)
        requires self.inv(),
        ensures r as int == trunc_div(self.ns() - trunc_div(self.ns(), 1_000_000_000) * 1_000_000_000, 1_000),
    {
        self.subsec_nanos() / NANOS_PER_MICRO
    }

    const fn num_nanoseconds(&self) -> (r: Option<i64>)
        requires self.inv(),
        ensures r.is_some() <==> i64::MIN <= self.ns() <= i64::MAX, r.is_some() ==> r.unwrap() as int == self.ns(),
    {
        let secs_part = try_opt!(self.num_seconds().checked_mul(NANOS_PER_SEC as i64));
        let nanos_part = self.subsec_nanos();
        secs_part.checked_add(nanos_part as i64)
    }

    const fn subsec_nanos(&self) -> (r: i32)
        requires self.inv(),
        ensures r as int == self.ns() - trunc_div(self.ns(), 1_000_000_000) * 1_000_000_000, -1_000_000_000 < r < 1_000_000_000,
    {
        if self.secs < 0 && self.nanos > 0 { self.nanos - NANOS_PER_SEC } else { self.nanos }
    }

    const fn checked_add(&self, rhs: &TimeDelta) -> (r: Option<TimeDelta>)
        requires self.inv(), rhs.inv(),
        ensures r.is_some() <==> -LIM() <= self.ns() + rhs.ns() <= LIM(), r.is_some() ==> r.unwrap().inv() && r.unwrap().ns() == self.ns() + rhs.ns(),
    {
        // No overflow checks here because we stay comfortably within the range of an `i64`.
        // Range checks happen in `TimeDelta::new`.
        let mut secs = self.secs + rhs.secs;
        let mut nanos = self.nanos + rhs.nanos;
        if nanos >= NANOS_PER_SEC {
            nanos -= NANOS_PER_SEC;
            secs += 1;
        }
        TimeDelta::new(secs, nanos as u32)
    }

    const fn checked_sub(&self, rhs: &TimeDelta) -> (r: Option<TimeDelta>)
        requires self.inv(), rhs.inv(),
        ensures r.is_some() <==> -LIM() <= self.ns() - rhs.ns() <= LIM(), r.is_some() ==> r.unwrap().inv() && r.unwrap().ns() == self.ns() - rhs.ns(),
    {
        // No overflow checks here because we stay comfortably within the range of an `i64`.
        // Range checks happen in `TimeDelta::new`.
        let mut secs = self.secs - rhs.secs;
        let mut nanos = self.nanos - rhs.nanos;
        if nanos < 0 {
            nanos += NANOS_PER_SEC;
            secs -= 1;
        }
        TimeDelta::new(secs, nanos as u32)
    }

    const fn checked_mul(&self, rhs: i32) -> (r: Option<TimeDelta>)
        requires self.inv(),
        ensures r.is_some() <==> -LIM() <= self.ns() * rhs as int <= LIM(), r.is_some() ==> r.unwrap().inv() && r.unwrap().ns() == self.ns() * rhs as int,
    {
        // Multiply nanoseconds as i64, because it cannot overflow that way.
        let total_nanos = self.nanos as i64 * rhs as i64;
        let (extra_secs, nanos) = div_mod_floor_64(total_nanos, NANOS_PER_SEC as i64);
        // Multiply seconds as i128 to prevent overflow
        let secs: i128 = self.secs as i128 * rhs as i128 + extra_secs as i128;
        if secs <= i64::MIN as i128 || secs >= i64::MAX as i128 {
            return None;
        };
        Some(TimeDelta { secs: secs as i64, nanos: nanos as i32 })
    }

    const fn checked_div(&self, rhs: i32) -> (r: Option<TimeDelta>)
        requires self.inv(),
        ensures r.is_some() <==> rhs != 0, r.is_some() ==> r.unwrap().inv(),
    {
        if rhs == 0 {
            return None;
        }
        let secs = self.secs / rhs as i64;
        let carry = self.secs % rhs as i64;
        let extra_nanos = carry * NANOS_PER_SEC as i64 / rhs as i64;
        let nanos = self.nanos / rhs + extra_nanos as i32;

        let (secs, nanos) = match nanos {
            i32::MIN..=-1 => (secs - 1, nanos + NANOS_PER_SEC),
            NANOS_PER_SEC..=i32::MAX => (secs + 1, nanos - NANOS_PER_SEC),
            _ => (secs, nanos),
        };

        Some(TimeDelta { secs, nanos })
    }

    const fn abs(&self) -> (r: TimeDelta)
        requires self.inv(),
        ensures r.inv(), r.ns() == (if self.ns() < 0 { -self.ns() } else { self.ns() }),
    {
        if self.secs < 0 && self.nanos != 0 {
            TimeDelta { secs: (self.secs + 1).abs(), nanos: NANOS_PER_SEC - self.nanos }
        } else {
            TimeDelta { secs: self.secs.abs(), nanos: self.nanos }
        }
    }

    const fn zero() -> (r: TimeDelta)
        ensures r.inv(), r.ns() == 0,
    {
        TimeDelta { secs: 0, nanos: 0 }
    }

    const fn is_zero(&self) -> (r: bool)
        requires self.inv(),
        ensures r == (self.ns() == 0),
    {
        self.secs == 0 && self.nanos == 0
    }

    const fn neg(self) -> (r: TimeDelta)
        requires self.inv(),
        ensures r.inv(), r.ns() == -self.ns(),
    {
        let (secs_diff, nanos) = match self.nanos {
            0 => (0, 0),
            nanos => (1, NANOS_PER_SEC - nanos),
        };
        TimeDelta { secs: -self.secs - secs_diff, nanos }
    }

}
} // verus!
fn main() {}
