use chrono::*;
use std::panic::catch_unwind;
fn main() {
    // 2: checked_mul range
    let r = TimeDelta::MAX.checked_mul(2);
    println!(
        "MAX.checked_mul(2) = {:?}  (MAX={:?}) > MAX? {}",
        r,
        TimeDelta::MAX,
        r.map(|x| x > TimeDelta::MAX).unwrap_or(false)
    );
    // 6: %C negative / large year
    let d = NaiveDate::from_ymd_opt(-99, 1, 1).unwrap();
    println!("%C of year -99 = {:?}", d.format("%C").to_string());
    let d = NaiveDate::from_ymd_opt(25700, 1, 1).unwrap();
    println!("%C of year 25700 = {:?}", d.format("%C").to_string());
    // 4: to_rfc3339_opts at range end with offset
    let off = FixedOffset::east_opt(3600).unwrap();
    let dt = off.from_utc_datetime(&NaiveDateTime::MAX);
    println!("to_rfc3339 ok = {:?}", catch_unwind(|| dt.to_rfc3339()).is_ok());
    println!(
        "to_rfc3339_opts ok = {:?}",
        catch_unwind(|| dt.to_rfc3339_opts(SecondsFormat::Secs, false)).is_ok()
    );
    println!(
        "duration_trunc ok = {:?}",
        catch_unwind(|| dt.duration_trunc(TimeDelta::try_days(1).unwrap()).is_ok()).is_ok()
    );
    // 3: from_isoywd_opt(i32::MIN)
    println!(
        "from_isoywd_opt(i32::MIN,1,Mon) ok = {:?}",
        catch_unwind(|| NaiveDate::from_isoywd_opt(i32::MIN, 1, Weekday::Mon)).is_ok()
    );
    // 1
    use num_traits::FromPrimitive;
    println!("Month::from_u64(2^32+1) = {:?}", Month::from_u64((1u64 << 32) + 1));
    println!("Month::from_i64(-4294967295) = {:?}", Month::from_i64(-4294967295));
}
