use chrono::*;
fn main() {
    let dt = NaiveDate::from_ymd_opt(1677, 9, 21).unwrap().and_hms_opt(0, 12, 42).unwrap().with_nanosecond(1_500_000_000).unwrap().and_utc();
    let exact: i128 = dt.timestamp() as i128 * 1_000_000_000 + dt.timestamp_subsec_nanos() as i128;
    println!("dt={:?} ts={} subsec={} exact={} fits_i64={} timestamp_nanos_opt={:?}", dt, dt.timestamp(), dt.timestamp_subsec_nanos(), exact, exact >= i64::MIN as i128 && exact <= i64::MAX as i128, dt.timestamp_nanos_opt());
}
