use chrono::*;
fn main() {
    // transition instant 1_000_000_000 = 2001-09-09T01:46:40Z ; wall = +1h = 02:46:40
    for s in [39u32, 40, 41] {
        let l = NaiveDate::from_ymd_opt(2001, 9, 9).unwrap().and_hms_opt(2, 46, s).unwrap();
        println!("{} -> {:?}", l, Local.from_local_datetime(&l));
    }
}
