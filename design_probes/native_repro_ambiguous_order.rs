use chrono::*;
fn main() {
    let l = NaiveDate::from_ymd_opt(2023, 11, 5).unwrap().and_hms_opt(1, 30, 0).unwrap();
    let r = Local.from_local_datetime(&l);
    println!("{:?}", r);
    if let LocalResult::Ambiguous(a, b) = r { println!("earliest={} latest={} earliest<=latest? {}", a.to_utc(), b.to_utc(), a <= b); }
}
