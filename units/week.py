"""C08: NaiveWeek::checked_first_day / checked_last_day -- the week containing a date for a chosen first weekday starts
on that weekday at most six days earlier and spans seven days; None only past the range."""
from unit import Unit, header, src
from xtract import clean_struct
from specs import prelude as P

FD = 'src/naive/date/mod.rs'
FW = 'src/weekday.rs'
FM = 'src/naive/mod.rs'

WD = r'''
spec fn wd_idx(w: Weekday) -> int {
    match w { Weekday::Mon => 0, Weekday::Tue => 1, Weekday::Wed => 2, Weekday::Thu => 3, Weekday::Fri => 4, Weekday::Sat => 5, Weekday::Sun => 6 }
}
'''


def build(contracts):
    u = Unit('week', contracts)
    u.lemma_owner = {'calendar': 'date', 'rust_div': 'timedelta'}
    u.raw(header(P.HEADER) + P.STD_SPECS + P.EXPECT + P.RUST_DIV_AX + P.CALENDAR_AX)
    u.struct('src/naive/internals.rs', 'YearFlags')
    u.struct(FD, 'NaiveDate', expect_fields='struct NaiveDate { yof: NonZeroI32, }')
    u.raw(clean_struct(src(FW).enum('Weekday'), derive='Clone, Copy'))
    u.struct(FM, 'NaiveWeek', derive=None, expect_fields='struct NaiveWeek { date: NaiveDate, start: Weekday, }')
    u.raw(P.DATE_VIEW_AX + WD)
    u.raw('impl Weekday {')
    for n in ['num_days_from_monday', 'pred']:
        u.stub(FW, n, 'impl Weekday {', cid='Weekday::' + n)
    u.raw('}\nimpl NaiveDate {')
    u.stub(FD, 'weekday', 'impl NaiveDate {', cid='NaiveDate::weekday')
    u.stub(FD, 'add_days', 'impl NaiveDate {', cid='NaiveDate::add_days')
    u.prove(FD, 'week', 'impl NaiveDate {', cid='NaiveDate::week')
    u.stub_all(FD, 'impl NaiveDate {', 'NaiveDate')
    u.raw('}\nimpl NaiveWeek {')
    u.prove(FM, 'new', 'impl NaiveWeek {', cid='NaiveWeek::new')
    for n in ['checked_first_day', 'checked_last_day']:
        u.prove(FM, n, 'impl NaiveWeek {', cid='NaiveWeek::' + n)
    for n in ['first_day', 'last_day']:
        u.prove(FM, n, 'impl NaiveWeek {', cid='NaiveWeek::' + n)
    u.raw('}')
    u.raw(P.FOOTER)
    return u
