"""C17: duration_trunc / duration_round / duration_round_up and round_subsecs / trunc_subsecs of src/round.rs,
generic over T, monomorphised textually at T := NaiveDateTime (R7): `original + x` / `original - x` become calls of
the extracted operator bodies (contracts Add__add / Sub__sub proved in the datetime unit)."""
import re
from unit import Unit, header, src
from xtract import DROPS
from specs import prelude as P

F = 'src/round.rs'
FN = 'src/naive/datetime/mod.rs'
FTD = 'src/time_delta.rs'
FDT = 'src/datetime/mod.rs'

SPEC = r'''
spec fn stamp(x: NaiveDateTime) -> int { instant(x) - UNIX_DAY() * DAYNS() }
spec fn floor_mult(s: int, p: int) -> int { s - s % p }
spec fn ceil_mult(s: int, p: int) -> int { if s % p == 0 { s } else { s - s % p + p } }
spec fn pow10(k: int) -> int decreases k { if k <= 0 { 1 } else { 10 * pow10(k - 1) } }
proof fn pow10_vals()
    ensures pow10(0) == 1, pow10(1) == 10, pow10(2) == 100, pow10(3) == 1000, pow10(4) == 10000, pow10(5) == 100000,
            pow10(6) == 1000000, pow10(7) == 10000000, pow10(8) == 100000000, pow10(9) == 1000000000
{ reveal_with_fuel(pow10, 11); }
// Rust's truncating % on a negative stamp vs the Euclidean remainder
proof fn neg_mod(s: int, p: int)
    requires p > 0, s < 0
    ensures (-s) % p == 0 ==> s % p == 0, (-s) % p != 0 ==> s % p == p - (-s) % p
{
    lemma_fundamental_div_mod(-s, p); lemma_mod_bound(-s, p);
    let q = (-s) / p; let r = (-s) % p;
    if r == 0 {
        assert(s == (-q) * p + 0) by(nonlinear_arith) requires -s == p * q + r, r == 0;
        lemma_fundamental_div_mod_converse(s, p, -q, 0);
    } else {
        assert(s == (-q - 1) * p + (p - r)) by(nonlinear_arith) requires -s == p * q + r;
        lemma_fundamental_div_mod_converse(s, p, -q - 1, p - r);
    }
}
// C17 consequences, as lemmas over the contracts: the result is less than one span away, multiples are fixed points, idempotence
proof fn rounding_facts(s: int, p: int)
    requires p > 0
    ensures floor_mult(s, p) <= s < floor_mult(s, p) + p, s <= ceil_mult(s, p) < s + p,
            floor_mult(s, p) % p == 0, ceil_mult(s, p) % p == 0,
            s % p == 0 ==> floor_mult(s, p) == s && ceil_mult(s, p) == s,
            floor_mult(floor_mult(s, p), p) == floor_mult(s, p), ceil_mult(ceil_mult(s, p), p) == ceil_mult(s, p)
{
    lemma_fundamental_div_mod(s, p); lemma_mod_bound(s, p);
    let q = s / p;
    assert(s - s % p == p * q);
    lemma_mod_multiples_basic(q, p);
    assert((p * q) % p == 0) by { lemma_mul_is_commutative(p, q); }
    lemma_mod_multiples_basic(q + 1, p);
    assert((p * q + p) % p == 0) by { assert(p * q + p == (q + 1) * p) by(nonlinear_arith); }
}
// distance (seconds) between a UTC date-time and a wall-clock reading of it
spec fn wall_off(u: NaiveDateTime, w: NaiveDateTime) -> int { (dn(w.date) * 86400 + w.time.secs as int) - (dn(u.date) * 86400 + u.time.secs as int) }
// same window argument when the stamp is taken on the wall-clock reading and the addition on the UTC value (less than a day apart)
proof fn window_in_range_zoned(u: NaiveDateTime, w: NaiveDateTime, d: int)
    requires dtwf(u), dtwf(w), w.time.frac == u.time.frac, -86400 < wall_off(u, w) < 86400, i64::MIN <= stamp(w) <= i64::MAX, -9223372036854775807 <= d <= 9223372036854775807
    ensures DN_MIN() * DAYNS() <= instant(u) + d - 2_000_000_000, instant(u) + d + 2_000_000_000 < (DN_MAX() + 1) * DAYNS(),
            instant(w) == instant(u) + wall_off(u, w) * 1_000_000_000
{}
// the i64-nanosecond window lies deep inside the date range, so the final `original +/- delta` cannot overflow
proof fn window_in_range(x: NaiveDateTime, d: int)
    requires dtwf(x), nonleap(x.time) || true, i64::MIN <= stamp(x) <= i64::MAX, -9223372036854775807 <= d <= 9223372036854775807
    ensures DN_MIN() * DAYNS() <= instant(x) + d - 2_000_000_000 , instant(x) + d + 2_000_000_000 < (DN_MAX() + 1) * DAYNS()
{}
'''

HINT = ("let delta_down = stamp % span;",
        "        proof { lemma_fundamental_div_mod(stamp as int, span as int); lemma_mod_bound(stamp as int, span as int);\n"
        "                if stamp < 0 { lemma_fundamental_div_mod(-(stamp as int), span as int); lemma_mod_bound(-(stamp as int), span as int); neg_mod(stamp as int, span as int); }\n"
        "                window_in_range(naive, span as int); window_in_range(naive, -(span as int)); window_in_range(naive, 0); }")


def mono(name):
    """R7: textual monomorphisation of a generic fn of round.rs at T := NaiveDateTime"""
    s = src(F)
    sig, body, line = s.fn(name)
    sig2 = re.sub(r'<T>', '', sig)
    sig2 = sig2.replace('original: T', 'original: NaiveDateTime').replace('Result<T, RoundingError>', 'Result<NaiveDateTime, RoundingError>')
    sig2 = re.sub(r'\bwhere\b.*$', '', sig2, flags=re.S).strip()
    DROPS['R7 generic fn monomorphised at NaiveDateTime'] += 1
    return sig2


HINT_Z = ("let delta_down = stamp % span;",
          "        proof { lemma_fundamental_div_mod(stamp as int, span as int); lemma_mod_bound(stamp as int, span as int);\n"
          "                if stamp < 0 { lemma_fundamental_div_mod(-(stamp as int), span as int); lemma_mod_bound(-(stamp as int), span as int); neg_mod(stamp as int, span as int); }\n"
          "                window_in_range_zoned(original.datetime, naive, span as int); window_in_range_zoned(original.datetime, naive, -(span as int)); window_in_range_zoned(original.datetime, naive, 0); }")


def mono_z(name):
    """R7: textual monomorphisation of a generic fn of round.rs at T := DateTime<Tz>"""
    s = src(F)
    sig, body, line = s.fn(name)
    sig2 = re.sub(r'<T>', '<Tz: TimeZone>', sig)
    sig2 = sig2.replace('original: T', 'original: DateTime<Tz>').replace('Result<T, RoundingError>', 'Result<DateTime<Tz>, RoundingError>')
    sig2 = re.sub(r'\bwhere\b.*$', '', sig2, flags=re.S).strip()
    DROPS['R7 generic fn monomorphised at DateTime<Tz>'] += 1
    return sig2


def opsubst(body_src):
    out = []
    call = r'(TimeDelta::nanoseconds\((?:[^()]|\([^()]*\))*\))'
    for m in re.finditer(r'(original|self) ([+-]) ' + call, body_src):
        out.append((m.group(0), '%s.%s(%s)' % (m.group(1), 'Add__add' if m.group(2) == '+' else 'Sub__sub', m.group(3)),
                    'R7 operator on T re-pointed to the extracted NaiveDateTime operator body'))
    return out


def build(contracts):
    u = Unit('round', contracts)
    u.trusted.append('Offset::fix returns a FixedOffset with |offset| < 24 h for EVERY implementation of the trait (stated as the trait method\'s postcondition: it is the type invariant of FixedOffset, whose only constructors east_opt / west_opt enforce it)')
    u.lemma_owner = {'calendar': 'date', 'rust_div': 'timedelta'}
    u.rlimit = 120
    u.raw(header(P.HEADER) + P.STD_SPECS + P.EXPECT + P.RUST_DIV_AX + P.CALENDAR_AX + '''
trait Offset: Sized + Clone {
    spec fn fix_spec(&self) -> FixedOffset;
    fn fix(&self) -> (r: FixedOffset)
        ensures r == self.fix_spec(), offwf(r);
}
trait TimeZone: Sized + Clone { type Offset: Offset; }
#[derive(Copy, Clone)] struct Utc;
impl Offset for Utc {
    spec fn fix_spec(&self) -> FixedOffset { FixedOffset { local_minus_utc: 0 } }
    #[verifier::external_body] fn fix(&self) -> (r: FixedOffset) { unimplemented!() }
}
impl TimeZone for Utc { type Offset = Utc; }
''')
    u.struct('src/naive/internals.rs', 'YearFlags')
    u.struct('src/naive/date/mod.rs', 'NaiveDate', expect_fields='struct NaiveDate { yof: NonZeroI32, }')
    u.struct(FTD, 'TimeDelta', expect_fields='struct TimeDelta { secs: i64, nanos: i32, }')
    u.struct('src/naive/time/mod.rs', 'NaiveTime', expect_fields='struct NaiveTime { secs: u32, frac: u32, }')
    u.struct(FN, 'NaiveDateTime', expect_fields='struct NaiveDateTime { date: NaiveDate, time: NaiveTime, }')
    u.struct(FDT, 'DateTime', derive=None)
    u.struct('src/offset/fixed.rs', 'FixedOffset')
    e = src(F).enum('RoundingError')
    from xtract import clean_struct
    u.raw(clean_struct(e, derive='Clone, Copy'))
    u.raw(P.DATE_VIEW_AX + P.TD_VIEW + P.TIME_VIEW + P.DT_VIEW + SPEC)
    u.raw('impl TimeDelta {')
    for n in ['num_nanoseconds', 'nanoseconds']:
        u.stub(FTD, n, 'impl TimeDelta {', cid='TimeDelta::' + n)
    u.stub_all(FTD, 'impl TimeDelta {', 'TimeDelta')
    u.raw('}\nimpl NaiveTime {')
    u.stub('src/naive/time/mod.rs', 'nanosecond', 'impl NaiveTime {', cid='NaiveTime::nanosecond')
    u.raw('}\nimpl<Tz: TimeZone> DateTime<Tz> {')
    u.stub(FDT, 'timestamp_nanos_opt', 'impl<Tz: TimeZone> DateTime<Tz> {', cid='DateTime::timestamp_nanos_opt')
    u.raw('}\nimpl NaiveDateTime {')
    u.stub(FN, 'and_utc', 'impl NaiveDateTime {', cid='NaiveDateTime::and_utc')
    u.stub(FN, 'add', 'impl Add<TimeDelta> for NaiveDateTime {', cid='NaiveDateTime::Add__add', rename='Add__add')
    u.stub(FN, 'sub', 'impl Sub<TimeDelta> for NaiveDateTime {', cid='NaiveDateTime::Sub__sub', rename='Sub__sub')
    u.prove(FN, 'nanosecond', 'impl Timelike for NaiveDateTime {', cid='NaiveDateTime::Timelike__nanosecond', rename='Timelike__nanosecond',
            subst=[('self.time.nanosecond()', 'self.time.nanosecond()', 'none')])
    # SubsecRound (generic impl) at Self = NaiveDateTime
    IMPL_SR = 'impl<T> SubsecRound for T'
    s = src(F)
    for n in ['round_subsecs', 'trunc_subsecs']:
        sig, body, line = s.fn(n, IMPL_SR)
        subs = opsubst(body) + [('self.nanosecond()', 'self.Timelike__nanosecond()', 'R6 trait call re-pointed')]
        subs += [(m, m.replace('.into()', ' as i64'), 'u32 -> i64 `.into()` written as a widening cast') for m in set(re.findall(r'delta_\w+\.into\(\)', body))]
        subs = [x for i, x in enumerate(subs) if x[0] not in [y[0] for y in subs[:i]]]
        u.prove(F, n, IMPL_SR, cid='NaiveDateTime::SubsecRound__' + n, rename='SubsecRound__' + n, subst=subs,
                replace_sig='fn %s(self, digits: u16) -> NaiveDateTime' % n,
                hints=[("let delta_down = self.nanosecond() % span;" if False else "let delta_down =", "        proof { pow10_vals(); lemma_fundamental_div_mod(self.time.frac as int, span as int); lemma_mod_bound(self.time.frac as int, span as int); succ_pred_dn_form(v_year(self.date), v_ord(self.date)); }")])
    u.raw('}')
    u.prove(F, 'span_for_digits', cid='span_for_digits', hints=[("match digits", "    proof { pow10_vals(); }")])
    for n in ['duration_round', 'duration_trunc', 'duration_round_up']:
        sig, body, line = s.fn(n)
        u.prove(F, n, cid=n, replace_sig=mono(n), subst=opsubst(body), hints=[HINT])
    # the same three generic functions at T := DateTime<Tz> (generic in the zone), over the contracts of DateTime<Tz> + / - TimeDelta
    for n in ['duration_round', 'duration_trunc', 'duration_round_up']:
        sig, body, line = s.fn(n)
        u.prove(F, n, cid=n + '_zoned', rename=n + '_zoned', replace_sig=mono_z(n), subst=opsubst(body), hints=[HINT_Z])
    u.raw('impl<Tz: TimeZone> DateTime<Tz> {')
    u.stub(FDT, 'overflowing_naive_local', 'impl<Tz: TimeZone> DateTime<Tz> {', cid='DateTime::overflowing_naive_local')
    u.stub(FDT, 'add', 'impl<Tz: TimeZone> Add<TimeDelta> for DateTime<Tz> {', cid='DateTime::Add__add', rename='Add__add')
    u.stub(FDT, 'sub', 'impl<Tz: TimeZone> Sub<TimeDelta> for DateTime<Tz> {', cid='DateTime::Sub__sub', rename='Sub__sub')
    IMPL_DRZ = 'impl<Tz: TimeZone> DurationRound for DateTime<Tz> {'
    for n in ['duration_round', 'duration_trunc', 'duration_round_up']:
        u.prove(F, n, IMPL_DRZ, cid='DateTime::DurationRound__' + n, rename='DurationRound__' + n,
                replace_sig='fn %s(self, duration: TimeDelta) -> Result<DateTime<Tz>, RoundingError>' % n,
                subst=[('%s(self.overflowing_naive_local(), self, duration)' % n, '{ let naive = self.overflowing_naive_local(); %s_zoned(naive, self, duration) }' % n, 'R7 call of the generic fn re-pointed to its DateTime<Tz> instance (argument evaluated first, as in Rust)')])
    u.raw('}')
    u.raw('impl NaiveDateTime {')
    IMPL_DR = 'impl DurationRound for NaiveDateTime {'
    for n in ['duration_round', 'duration_trunc', 'duration_round_up']:
        u.prove(F, n, IMPL_DR, cid='NaiveDateTime::DurationRound__' + n, rename='DurationRound__' + n,
                replace_sig='fn %s(self, duration: TimeDelta) -> Result<NaiveDateTime, RoundingError>' % n)
    u.raw('}')
    u.raw(P.FOOTER)
    return u
