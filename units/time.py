"""C07 (+ the time-of-day parts of C03/C04/C08): NaiveTime constructors, accessors, single-field replacement,
leap-aware addition/subtraction/difference and offset shifts, on the real text of src/naive/time/mod.rs."""
from unit import Unit, header
from specs import prelude as P

F = 'src/naive/time/mod.rs'
FT = 'src/time_delta.rs'
FO = 'src/offset/fixed.rs'
IMPL = 'impl NaiveTime {'
TL = 'impl Timelike for NaiveTime {'

LEMMAS = r'''
// antisymmetry of the difference (C07): a - b == -(b - a) on the joint leap line
proof fn diff_antisymmetric(a: NaiveTime, b: NaiveTime)
    ensures jpos(a, b) - jpos(b, a) == -(jpos(b, a) - jpos(a, b))
{}
// for non-leap operands the models collapse to ordinary arithmetic modulo one day
proof fn add_model_nonleap(t: NaiveTime, d: int, res: NaiveTime, c: int)
    requires nonleap(t), add_post(t, d, res, c)
    ensures nonleap(res), tpos(res) + c * 1_000_000_000 == tpos(t) + d, c % 86400 == 0
{}
'''


def build(contracts):
    u = Unit('time', contracts)
    u.raw(header(P.HEADER) + P.STD_SPECS + P.EXPECT + P.RUST_DIV)
    u.struct(FT, 'TimeDelta', expect_fields='struct TimeDelta { secs: i64, nanos: i32, }')
    u.struct(F, 'NaiveTime', expect_fields='struct NaiveTime { secs: u32, frac: u32, }')
    u.struct(FO, 'FixedOffset', expect_fields='struct FixedOffset { local_minus_utc: i32, }')
    u.raw(P.TD_VIEW + P.TIME_VIEW + LEMMAS + '''
use core::time::Duration;
pub uninterp spec fn dur_secs(d: core::time::Duration) -> u64;
pub uninterp spec fn dur_nanos(d: core::time::Duration) -> u32;
pub assume_specification [core::time::Duration::as_secs] (d: &core::time::Duration) -> (r: u64) ensures r == dur_secs(*d);
pub assume_specification [core::time::Duration::subsec_nanos] (d: &core::time::Duration) -> (r: u32) ensures r == dur_nanos(*d), r < 1_000_000_000;
''')
    u.raw('impl TimeDelta {')
    for n in ['num_seconds', 'subsec_nanos', 'new', 'neg']:
        u.stub(FT, n, 'impl TimeDelta {', cid='TimeDelta::' + n)
    u.raw('}\nimpl FixedOffset {')
    u.prove(FO, 'local_minus_utc', 'impl FixedOffset {', cid='FixedOffset::local_minus_utc')
    u.prove(FO, 'utc_minus_local', 'impl FixedOffset {', cid='FixedOffset::utc_minus_local')
    u.raw('}\nimpl NaiveTime {')
    for n in ['from_hms_opt', 'from_hms_milli_opt', 'from_hms_micro_opt', 'from_hms_nano_opt',
              'from_num_seconds_from_midnight_opt', 'hms', 'num_seconds_from_midnight', 'nanosecond',
              'overflowing_sub_signed', 'signed_duration_since',
              'overflowing_add_offset', 'overflowing_sub_offset']:
        u.prove(F, n, IMPL, cid='NaiveTime::' + n)
    for n in ['from_hms', 'from_hms_milli', 'from_hms_micro', 'from_hms_nano', 'from_num_seconds_from_midnight']:
        u.prove(F, n, IMPL, cid='NaiveTime::' + n)
    u.prove(F, 'overflowing_add_signed', IMPL, cid='NaiveTime::overflowing_add_signed',
            hints=[("let secs_in_day = secs.rem_euclid(86_400);", "        proof { pos_mod_day(secs as int, frac as int); }")])
    for n in ['hour', 'minute', 'second', 'nanosecond', 'with_hour', 'with_minute', 'with_second', 'with_nanosecond',
              'num_seconds_from_midnight']:
        u.prove(F, n, TL, cid='NaiveTime::Timelike__' + n, rename='Timelike__' + n)
    # provided methods of the Timelike trait, monomorphised at Self = NaiveTime (R6/R7)
    TR = 'pub trait Timelike: Sized {'
    u.prove('src/traits.rs', 'hour12', TR, cid='NaiveTime::Timelike__hour12', rename='Timelike__hour12',
            subst=[('self.hour()', 'self.Timelike__hour()', 'R6 trait call re-pointed')])
    u.prove('src/traits.rs', 'num_seconds_from_midnight', TR, cid='NaiveTime::Timelike__num_seconds_from_midnight_default',
            rename='Timelike__num_seconds_from_midnight_default',
            subst=[('self.hour() * 3600 + self.minute() * 60 + self.second()',
                    'self.Timelike__hour() * 3600 + self.Timelike__minute() * 60 + self.Timelike__second()', 'R6 trait call re-pointed')])
    u.prove(F, 'add', 'impl Add<TimeDelta> for NaiveTime {', cid='NaiveTime::Add__add', rename='Add__add')
    u.prove(F, 'sub', 'impl Sub<TimeDelta> for NaiveTime {', cid='NaiveTime::Sub__sub', rename='Sub__sub')
    u.prove(F, 'add_assign', 'impl AddAssign<TimeDelta> for NaiveTime {', cid='NaiveTime::AddAssign__add_assign', rename='AddAssign__add_assign',
            subst=[('self.add(rhs)', 'self.Add__add(rhs)', 'R6 trait call re-pointed')])
    u.prove(F, 'sub_assign', 'impl SubAssign<TimeDelta> for NaiveTime {', cid='NaiveTime::SubAssign__sub_assign', rename='SubAssign__sub_assign',
            subst=[('self.sub(rhs)', 'self.Sub__sub(rhs)', 'R6 trait call re-pointed')])
    u.prove(F, 'sub', 'impl Sub<NaiveTime> for NaiveTime {', cid='NaiveTime::Sub_NaiveTime__sub', rename='Sub_NaiveTime__sub')
    u.prove(F, 'add', 'impl Add<Duration> for NaiveTime {', cid='NaiveTime::Add_Duration__add', rename='Add_Duration__add')
    u.prove(F, 'sub', 'impl Sub<Duration> for NaiveTime {', cid='NaiveTime::Sub_Duration__sub', rename='Sub_Duration__sub')
    u.prove(F, 'add_assign', 'impl AddAssign<Duration> for NaiveTime {', cid='NaiveTime::AddAssign_Duration__add_assign', rename='AddAssign_Duration__add_assign',
            subst=[('*self + rhs', 'self.Add_Duration__add(rhs)', 'R6 operator re-pointed to the proved Add<Duration> body')])
    u.prove(F, 'sub_assign', 'impl SubAssign<Duration> for NaiveTime {', cid='NaiveTime::SubAssign_Duration__sub_assign', rename='SubAssign_Duration__sub_assign',
            subst=[('*self - rhs', 'self.Sub_Duration__sub(rhs)', 'R6 operator re-pointed to the proved Sub<Duration> body')])
    u.prove(F, 'add', 'impl Add<FixedOffset> for NaiveTime {', cid='NaiveTime::Add_FixedOffset__add', rename='Add_FixedOffset__add')
    u.prove(F, 'sub', 'impl Sub<FixedOffset> for NaiveTime {', cid='NaiveTime::Sub_FixedOffset__sub', rename='Sub_FixedOffset__sub')
    u.raw('}')
    u.raw(P.FOOTER)
    return u
