"""C05/C16: the TZif transition-table lookups of src/offset/local/tz_info/timezone.rs on the real text.
find_local_time_type_from_local (table scan): every returned candidate is sound (wall -> instant -> wall is the identity),
Ambiguous lists the earlier instant first and its two members differ in offset, no arithmetic overflow for any
file-supplied transition time; validate() establishes the well-formedness the lookups rely on."""
from unit import Unit, header, src
from xtract import clean_struct
from specs import prelude as P

F = 'src/offset/local/tz_info/timezone.rs'
FR = 'src/offset/local/tz_info/rule.rs'
FN = 'src/naive/datetime/mod.rs'
FDT = 'src/datetime/mod.rs'
IMPL = "impl<'a> TimeZoneRef<'a> {"

SPEC = r'''
// trimmed model of tz_info::Error (only the variants these functions construct; payloads are static strings)
enum Error { FindLocalTimeType(&'static str), OutOfRange(&'static str), TimeZone(&'static str), LocalTimeType(&'static str) }

spec fn tzname_char(b: u8) -> bool { (48 <= b <= 57) || (65 <= b <= 90) || (97 <= b <= 122) || b == 43 || b == 45 }
spec fn tz_wf(tr: Seq<Transition>, lt: Seq<LocalTimeType>) -> bool {
    lt.len() > 0
    && (forall|i: int| 0 <= i < tr.len() ==> (#[trigger] tr[i]).local_time_type_index < lt.len())
    && (forall|i: int, j: int| 0 <= i < j < tr.len() ==> (#[trigger] tr[i]).unix_leap_time < (#[trigger] tr[j]).unix_leap_time)
}
// separation hypothesis (stated, not proved: it is a property of the zone data): consecutive transitions lie further apart
// than the offset change of the earlier one, so a repeated hour ends before the next transition.  Real zoneinfo data satisfy it.
spec fn tz_sep(tr: Seq<Transition>, lt: Seq<LocalTimeType>) -> bool {
    forall|i: int| 0 <= i < tr.len() - 1 ==>
        (#[trigger] tr[i]).unix_leap_time + interval_type(tr, lt, i).ut_offset - interval_type(tr, lt, i + 1).ut_offset < tr[i + 1].unix_leap_time
}
// type in effect during interval k = [T[k-1], T[k])  (k = 0: before the first transition; k = len: after the last)
spec fn interval_type(tr: Seq<Transition>, lt: Seq<LocalTimeType>, k: int) -> LocalTimeType {
    if k == 0 { lt[0] } else { lt[tr[k - 1].local_time_type_index as int] }
}
// type o is *sound* for wall-clock time `local`: the instant local - o.offset lies in an interval governed by o.
// `incl` admits the single boundary second that ends a skipped or repeated interval (the property's documented exception).
spec fn sound(tr: Seq<Transition>, lt: Seq<LocalTimeType>, local: int, o: LocalTimeType, k: int, incl: bool) -> bool {
    0 <= k <= tr.len() && interval_type(tr, lt, k) == o && (k == 0 || tr[k - 1].unix_leap_time <= local - o.ut_offset)
    && (k == tr.len() || local - o.ut_offset < tr[k].unix_leap_time || (incl && local - o.ut_offset == tr[k].unix_leap_time))
}
// ---- exact classification (C05: occurs once -> exactly one result, twice -> both, inside a skipped interval -> none) ----
spec fn toff(tr: Seq<Transition>, lt: Seq<LocalTimeType>, j: int) -> int { interval_type(tr, lt, j).ut_offset as int }
// wall-clock window disturbed by transition j: [lo, hi] = [T[j] + min(before, after), T[j] + max(before, after)]
spec fn wlo(tr: Seq<Transition>, lt: Seq<LocalTimeType>, j: int) -> int { tr[j].unix_leap_time + (if toff(tr, lt, j) <= toff(tr, lt, j + 1) { toff(tr, lt, j) } else { toff(tr, lt, j + 1) }) }
spec fn whi(tr: Seq<Transition>, lt: Seq<LocalTimeType>, j: int) -> int { tr[j].unix_leap_time + (if toff(tr, lt, j) <= toff(tr, lt, j + 1) { toff(tr, lt, j + 1) } else { toff(tr, lt, j) }) }
// hypothesis on the zone data (stated, not proved): the disturbed windows of consecutive transitions are disjoint and ordered.
// Real zoneinfo data and the property's zone models satisfy it; it implies tz_sep.
spec fn tz_ordered(tr: Seq<Transition>, lt: Seq<LocalTimeType>) -> bool {
    forall|j: int| 0 <= j < tr.len() - 1 ==> #[trigger] whi(tr, lt, j) < wlo(tr, lt, j + 1)
}
proof fn ordered_implies_sep(tr: Seq<Transition>, lt: Seq<LocalTimeType>)
    requires tz_ordered(tr, lt)
    ensures tz_sep(tr, lt)
{
    assert forall|i: int| 0 <= i < tr.len() - 1 implies (#[trigger] tr[i]).unix_leap_time + interval_type(tr, lt, i).ut_offset - interval_type(tr, lt, i + 1).ut_offset < tr[i + 1].unix_leap_time by {
        assert(whi(tr, lt, i) < wlo(tr, lt, i + 1));
    }
}
proof fn window_chain(tr: Seq<Transition>, lt: Seq<LocalTimeType>, a: int, b: int)
    requires tz_ordered(tr, lt), 0 <= a < b < tr.len()
    ensures whi(tr, lt, a) < wlo(tr, lt, b)
    decreases b - a
{
    if a + 1 < b { window_chain(tr, lt, a, b - 1); assert(whi(tr, lt, b - 1) < wlo(tr, lt, b)); assert(wlo(tr, lt, b - 1) <= whi(tr, lt, b - 1)); }
    else { assert(whi(tr, lt, a) < wlo(tr, lt, a + 1)); }
}
// `local` is a wall-clock reading of an instant strictly inside interval j
spec fn strict(tr: Seq<Transition>, lt: Seq<LocalTimeType>, local: int, j: int) -> bool {
    0 <= j <= tr.len() && (j == 0 || tr[j - 1].unix_leap_time <= local - toff(tr, lt, j)) && (j == tr.len() || local - toff(tr, lt, j) < tr[j].unix_leap_time)
}
// no interval other than idx and idx+1 can produce `local` once every earlier window lies before it and it is not past window idx
proof fn others_not_strict(tr: Seq<Transition>, lt: Seq<LocalTimeType>, local: int, idx: int)
    requires tz_wf(tr, lt), tz_ordered(tr, lt), 0 <= idx < tr.len(), forall|j: int| 0 <= j < idx ==> #[trigger] whi(tr, lt, j) < local, local <= whi(tr, lt, idx)
    ensures forall|j: int| 0 <= j <= tr.len() && j != idx && j != idx + 1 ==> !#[trigger] strict(tr, lt, local, j)
{
    assert forall|j: int| 0 <= j <= tr.len() && j != idx && j != idx + 1 implies !#[trigger] strict(tr, lt, local, j) by {
        if j < idx { assert(whi(tr, lt, j) < local); }
        else { window_chain(tr, lt, idx, j - 1); assert(wlo(tr, lt, j - 1) <= tr[j - 1].unix_leap_time + toff(tr, lt, j)); }
    }
}
proof fn earlier_not_strict(tr: Seq<Transition>, lt: Seq<LocalTimeType>, local: int)
    requires tz_wf(tr, lt), forall|j: int| 0 <= j < tr.len() ==> #[trigger] whi(tr, lt, j) < local
    ensures forall|j: int| 0 <= j < tr.len() ==> !#[trigger] strict(tr, lt, local, j)
{
    assert forall|j: int| 0 <= j < tr.len() implies !#[trigger] strict(tr, lt, local, j) by { assert(whi(tr, lt, j) < local); }
}
spec fn exact_post(tr: Seq<Transition>, lt: Seq<LocalTimeType>, local: int, r: Result<MappedLocalTime<LocalTimeType>, Error>) -> bool {
    &&& r is Ok
    &&& (r->Ok_0 is None) ==> (forall|j: int| 0 <= j <= tr.len() ==> !#[trigger] strict(tr, lt, local, j))
    &&& (r->Ok_0 is Single) ==> (exists|k: int| #[trigger] sound(tr, lt, local, r->Ok_0->Single_0, k, true) && (forall|j: int| 0 <= j <= tr.len() && j != k ==> !#[trigger] strict(tr, lt, local, j)))
    &&& (r->Ok_0 is Ambiguous) ==> (exists|ka: int, kb: int| ka != kb && #[trigger] sound(tr, lt, local, r->Ok_0->Ambiguous_0, ka, true) && #[trigger] sound(tr, lt, local, r->Ok_0->Ambiguous_1, kb, true)
            && (forall|j: int| 0 <= j <= tr.len() && j != ka && j != kb ==> !#[trigger] strict(tr, lt, local, j)))
}
proof fn exact_none(tr: Seq<Transition>, lt: Seq<LocalTimeType>, local: int)
    requires forall|j: int| 0 <= j <= tr.len() ==> !#[trigger] strict(tr, lt, local, j)
    ensures exact_post(tr, lt, local, Ok(MappedLocalTime::None))
{}
proof fn exact_single(tr: Seq<Transition>, lt: Seq<LocalTimeType>, local: int, o: LocalTimeType, k: int)
    requires sound(tr, lt, local, o, k, true), forall|j: int| 0 <= j <= tr.len() && j != k ==> !#[trigger] strict(tr, lt, local, j)
    ensures exact_post(tr, lt, local, Ok(MappedLocalTime::Single(o)))
{
    let r: Result<MappedLocalTime<LocalTimeType>, Error> = Ok(MappedLocalTime::Single(o));
    assert(sound(tr, lt, local, r->Ok_0->Single_0, k, true));
}
proof fn exact_amb(tr: Seq<Transition>, lt: Seq<LocalTimeType>, local: int, a: LocalTimeType, ka: int, b: LocalTimeType, kb: int)
    requires ka != kb, sound(tr, lt, local, a, ka, true), sound(tr, lt, local, b, kb, true), forall|j: int| 0 <= j <= tr.len() && j != ka && j != kb ==> !#[trigger] strict(tr, lt, local, j)
    ensures exact_post(tr, lt, local, Ok(MappedLocalTime::Ambiguous(a, b)))
{
    let r: Result<MappedLocalTime<LocalTimeType>, Error> = Ok(MappedLocalTime::Ambiguous(a, b));
    assert(sound(tr, lt, local, r->Ok_0->Ambiguous_0, ka, true) && sound(tr, lt, local, r->Ok_0->Ambiguous_1, kb, true));
}
proof fn sorted_from_adjacent(tr: Seq<Transition>)
    requires forall|j: int| 0 <= j && j + 1 < tr.len() ==> (#[trigger] tr[j]).unix_leap_time < tr[j + 1].unix_leap_time
    ensures forall|i: int, j: int| 0 <= i < j < tr.len() ==> (#[trigger] tr[i]).unix_leap_time < (#[trigger] tr[j]).unix_leap_time
{
    assert forall|i: int, j: int| 0 <= i < j < tr.len() implies (#[trigger] tr[i]).unix_leap_time < (#[trigger] tr[j]).unix_leap_time by { sorted_step(tr, i, j); }
}
proof fn sorted_step(tr: Seq<Transition>, i: int, j: int)
    requires forall|k: int| 0 <= k && k + 1 < tr.len() ==> (#[trigger] tr[k]).unix_leap_time < tr[k + 1].unix_leap_time, 0 <= i < j < tr.len()
    ensures tr[i].unix_leap_time < tr[j].unix_leap_time
    decreases j - i
{ if i + 1 < j { sorted_step(tr, i, j - 1); assert(tr[j - 1].unix_leap_time < tr[j].unix_leap_time); } }
spec fn from_local_post(tr: Seq<Transition>, lt: Seq<LocalTimeType>, local: int, r: Result<MappedLocalTime<LocalTimeType>, Error>) -> bool {
    &&& r is Ok
    &&& (r->Ok_0 is Single) ==> (exists|k: int| #[trigger] sound(tr, lt, local, r->Ok_0->Single_0, k, true))
    &&& (r->Ok_0 is Ambiguous) ==>
            // earliest first: the earlier instant is the one with the larger offset; the two candidates are distinct
            r->Ok_0->Ambiguous_0.ut_offset > r->Ok_0->Ambiguous_1.ut_offset
            && (exists|k: int| #[trigger] sound(tr, lt, local, r->Ok_0->Ambiguous_0, k, true))
            && (exists|k: int| #[trigger] sound(tr, lt, local, r->Ok_0->Ambiguous_1, k, true))
}
proof fn post_single(tr: Seq<Transition>, lt: Seq<LocalTimeType>, local: int, o: LocalTimeType, k: int)
    requires sound(tr, lt, local, o, k, true)
    ensures from_local_post(tr, lt, local, Ok(MappedLocalTime::Single(o)))
{
    let r: Result<MappedLocalTime<LocalTimeType>, Error> = Ok(MappedLocalTime::Single(o));
    assert(sound(tr, lt, local, r->Ok_0->Single_0, k, true));
}
proof fn post_amb(tr: Seq<Transition>, lt: Seq<LocalTimeType>, local: int, a: LocalTimeType, ka: int, b: LocalTimeType, kb: int)
    requires sound(tr, lt, local, a, ka, true), sound(tr, lt, local, b, kb, true), a.ut_offset > b.ut_offset
    ensures from_local_post(tr, lt, local, Ok(MappedLocalTime::Ambiguous(a, b)))
{
    let r: Result<MappedLocalTime<LocalTimeType>, Error> = Ok(MappedLocalTime::Ambiguous(a, b));
    assert(sound(tr, lt, local, r->Ok_0->Ambiguous_0, ka, true));
    assert(sound(tr, lt, local, r->Ok_0->Ambiguous_1, kb, true));
}
proof fn post_none(tr: Seq<Transition>, lt: Seq<LocalTimeType>, local: int)
    ensures from_local_post(tr, lt, local, Ok(MappedLocalTime::None))
{}
'''

LOOP = '''for transition in it: self.transitions
                invariant
                    tz_wf(self.transitions@, self.local_time_types@), tz_sep(self.transitions@, self.local_time_types@), tz_ordered(self.transitions@, self.local_time_types@), tr == self.transitions@,
                    forall|j: int| 0 <= j < it.index@ ==> #[trigger] whi(tr, lt, j) < local_leap_time, lt == self.local_time_types@,
                    it.index@ <= tr.len(), local_leap_time as int == unix_secs(local_time), dtwf(local_time),
                    prev == interval_type(tr, lt, it.index@ as int),
                    it.index@ > 0 ==> tr[it.index@ - 1].unix_leap_time + prev.ut_offset < local_leap_time,
            {'''


def build(contracts):
    u = Unit('tz', contracts)
    u.lemma_owner = {'calendar': 'date', 'rust_div': 'timedelta'}
    u.raw(header(P.HEADER) + P.STD_SPECS + P.EXPECT + P.RUST_DIV_AX + P.CALENDAR_AX + '''
trait Offset: Sized + Clone {}
trait TimeZone: Sized + Clone { type Offset: Offset; }
#[derive(Copy, Clone)] struct Utc;
impl Offset for Utc {}
impl TimeZone for Utc { type Offset = Utc; }
''')
    u.struct('src/naive/internals.rs', 'YearFlags')
    u.struct('src/naive/date/mod.rs', 'NaiveDate', expect_fields='struct NaiveDate { yof: NonZeroI32, }')
    u.struct('src/naive/time/mod.rs', 'NaiveTime', expect_fields='struct NaiveTime { secs: u32, frac: u32, }')
    u.struct(FN, 'NaiveDateTime', expect_fields='struct NaiveDateTime { date: NaiveDate, time: NaiveTime, }')
    u.struct(FDT, 'DateTime', derive=None)
    u.struct('src/offset/fixed.rs', 'FixedOffset')
    u.struct(F, 'Transition', expect_fields='struct Transition { unix_leap_time: i64, local_time_type_index: usize, }')
    u.struct(F, 'TimeZoneName', derive='Clone, Copy, PartialEq, Eq', expect_fields='struct TimeZoneName { bytes: [u8; 8], }')
    u.struct(F, 'LocalTimeType', derive='Clone, Copy, PartialEq, Eq', expect_fields='struct LocalTimeType { ut_offset: i32, is_dst: bool, name: Option<TimeZoneName>, }')
    u.struct(F, 'LeapSecond', expect_fields='struct LeapSecond { unix_leap_time: i64, correction: i32, }')
    u.consts_all(F)
    u.consts_all('src/offset/local/tz_info/mod.rs')
    u.raw(clean_struct(src('src/offset/mod.rs').enum('LocalResult'), derive=None) + '\ntype MappedLocalTime<T> = LocalResult<T>;')
    u.raw(clean_struct(src(FR).enum('RuleDay'), derive='Clone, Copy'))
    u.struct(FR, 'AlternateTime', derive='Clone, Copy')
    u.raw(clean_struct(src(FR).enum('TransitionRule'), derive='Clone, Copy'))
    u.struct(F, 'TimeZoneRef', derive=None)
    u.raw(P.DATE_VIEW_AX + P.TIME_VIEW + P.DT_VIEW.replace('proof fn dt_carry', '#[verifier::external_body]\nproof fn dt_carry_unused').split('#[verifier::external_body]')[0] + SPEC)
    u.raw('''
// std slice::last and slice::binary_search_by_key(.., Transition::unix_leap_time) through their documented contracts
#[verifier::external_body]
fn last_transition<'a>(s: &'a [Transition]) -> (r: Option<&'a Transition>)
    ensures s@.len() == 0 ==> r is None, s@.len() > 0 ==> r is Some && *r->Some_0 == s@[s@.len() - 1]
{ unimplemented!() }
#[verifier::external_body]
fn bsearch_transitions(s: &[Transition], key: i64) -> (r: Result<usize, usize>)
    requires forall|i: int, j: int| 0 <= i < j < s@.len() ==> (#[trigger] s@[i]).unix_leap_time < (#[trigger] s@[j]).unix_leap_time
    ensures (r is Ok ==> r->Ok_0 < s@.len() && r->Ok_0 < usize::MAX && s@[r->Ok_0 as int].unix_leap_time == key),
            (r is Err ==> r->Err_0 <= s@.len() && (forall|i: int| 0 <= i < r->Err_0 ==> (#[trigger] s@[i]).unix_leap_time < key) && (forall|i: int| r->Err_0 <= i < s@.len() ==> (#[trigger] s@[i]).unix_leap_time > key))
{ unimplemented!() }
''')
    u.trusted.append('std slice::last, slice::binary_search_by_key (documented contracts, stubs last_transition / bsearch_transitions)')
    u.raw('impl TimeZoneName {')
    u.prove(F, 'new', 'impl TimeZoneName {', cid='TimeZoneName::new',
            loops=[("while i < len {", "            invariant len == input@.len(), 3 <= len <= 7, i <= len, bytes[0] as int == len,\n"
                    "                forall|j: int| 0 <= j < i ==> tzname_char(#[trigger] input@[j]) && bytes[j + 1] == input@[j],\n            decreases len - i,")])
    u.raw('}\nimpl LocalTimeType {')
    u.prove(F, 'new', 'impl LocalTimeType {', cid='LocalTimeType::new')
    u.prove(F, 'with_offset', 'impl LocalTimeType {', cid='LocalTimeType::with_offset')
    u.prove(F, 'offset', 'impl LocalTimeType {', cid='LocalTimeType::offset')
    u.raw('}\nimpl Transition {')
    u.prove(F, 'new', 'impl Transition {', cid='Transition::new')
    u.prove(F, 'unix_leap_time', 'impl Transition {', cid='Transition::unix_leap_time')
    u.raw('}')
    u.raw('impl NaiveDateTime {')
    u.stub(FN, 'and_utc', 'impl NaiveDateTime {', cid='NaiveDateTime::and_utc')
    u.raw('}\nimpl<Tz: TimeZone> DateTime<Tz> {')
    u.stub(FDT, 'timestamp', 'impl<Tz: TimeZone> DateTime<Tz> {', cid='DateTime::timestamp')
    u.raw('}\nimpl TransitionRule {')
    u.stub(FR, 'find_local_time_type_from_local', 'impl TransitionRule {')
    u.stub(FR, 'find_local_time_type', 'impl TransitionRule {')
    u.raw("}\nimpl<'a> TimeZoneRef<'a> {")
    W1 = "proof { post_single(tr, lt, local_leap_time as int, %s, it.index@ as int%s); others_not_strict(tr, lt, local_leap_time as int, it.index@ as int); exact_single(tr, lt, local_leap_time as int, %s, it.index@ as int%s); }"
    u.prove(F, 'find_local_time_type_from_local', IMPL, cid='TimeZoneRef::find_local_time_type_from_local',
            subst=[('crate::MappedLocalTime', 'MappedLocalTime', 'crate path shortened'),
                   ('for transition in self.transitions {', LOOP, 'R8 slice loop labelled and given an invariant')],
            hints=[("let mut prev = self.local_time_types[0];", "            let ghost tr = self.transitions@; let ghost lt = self.local_time_types@;\n            proof { ordered_implies_sep(tr, lt); }"),
                   ("let transition_end =", "                proof { let k = it.index@ as int; assert(interval_type(tr, lt, k) == prev); assert(interval_type(tr, lt, k + 1) == after_ltt); assert(toff(tr, lt, k) == prev.ut_offset && toff(tr, lt, k + 1) == after_ltt.ut_offset); }"),
                   ("Ok(MappedLocalTime::Single(offset_after_last))", "            proof { let tr0 = self.transitions@; let lt0 = self.local_time_types@; post_single(tr0, lt0, unix_secs(local_time), offset_after_last, tr0.len() as int);\n"
                    "              if tr0.len() > 0 { earlier_not_strict(tr0, lt0, unix_secs(local_time)); } exact_single(tr0, lt0, unix_secs(local_time), offset_after_last, tr0.len() as int); }")],
            hints_all=[("return Ok(MappedLocalTime::Single(prev));", W1 % ('prev', '', 'prev', '')),
                       ("return Ok(MappedLocalTime::Single(after_ltt));", W1 % ('after_ltt', ' + 1', 'after_ltt', ' + 1')),
                       ("return Ok(MappedLocalTime::Ambiguous(prev, after_ltt));", "proof { post_amb(tr, lt, local_leap_time as int, prev, it.index@ as int, after_ltt, it.index@ as int + 1); others_not_strict(tr, lt, local_leap_time as int, it.index@ as int); exact_amb(tr, lt, local_leap_time as int, prev, it.index@ as int, after_ltt, it.index@ as int + 1); }"),
                       ("return Ok(MappedLocalTime::None);", "proof { post_none(tr, lt, local_leap_time as int); others_not_strict(tr, lt, local_leap_time as int, it.index@ as int); exact_none(tr, lt, local_leap_time as int); }")])
    u.raw('''
#[verifier::external_body]
fn tzname_equal(a: &TimeZoneName, b: &TimeZoneName) -> (r: bool) { unimplemented!() }
''')
    u.raw('''
#[verifier::external_body]
fn bsearch_leaps(s: &[LeapSecond], key: i64) -> (r: Result<usize, usize>)
    ensures (r is Ok ==> r->Ok_0 < s@.len() && r->Ok_0 < usize::MAX), (r is Err ==> r->Err_0 <= s@.len())
{ unimplemented!() }
''')
    u.prove(F, 'unix_leap_time_to_unix_time', IMPL, cid='TimeZoneRef::unix_leap_time_to_unix_time',
            subst=[('self\n            .leap_seconds\n            .binary_search_by_key(&(unix_leap_time - 1), LeapSecond::unix_leap_time)', 'Self::bsearch_leaps(self.leap_seconds, unix_leap_time - 1)', 'std slice::binary_search_by_key through its contract stub (bounds only)')])
    u.prove(F, 'validate', IMPL, cid='TimeZoneRef::validate',
            subst=[('self.transitions.last()', 'last_transition(self.transitions)', 'std slice::last through its contract stub'),
                   ('(Some(x), Some(y)) => x.equal(y),', '(Some(x), Some(y)) => Self::tzname_equal(x, y),', 'TimeZoneName::equal (array comparison) through an uninterpreted stub')],
            loops=[("while i_transition < self.transitions.len() {", "            invariant local_time_types_size == self.local_time_types@.len(), local_time_types_size > 0, i_transition <= self.transitions@.len(),\n"
                    "                forall|j: int| 0 <= j < i_transition ==> (#[trigger] self.transitions@[j]).local_time_type_index < local_time_types_size,\n"
                    "                forall|j: int| 0 <= j < i_transition && j + 1 < self.transitions@.len() ==> (#[trigger] self.transitions@[j]).unix_leap_time < self.transitions@[j + 1].unix_leap_time,\n"
                    "            decreases self.transitions@.len() - i_transition,"),
                   ("while i_leap_second < self.leap_seconds.len() {", "            invariant i_leap_second <= self.leap_seconds@.len(),\n            decreases self.leap_seconds@.len() - i_leap_second,")],
            hints=[("let min_interval =", "        proof { sorted_from_adjacent(self.transitions@); }")])
    u.prove(F, 'unix_time_to_unix_leap_time', IMPL, cid='TimeZoneRef::unix_time_to_unix_leap_time',
            loops=[("while i < self.leap_seconds.len() {", "            invariant i == 0, self.leap_seconds@.len() == 0, unix_leap_time == unix_time,\n            decreases self.leap_seconds@.len() - i,")])
    u.prove(F, 'find_local_time_type', IMPL, cid='TimeZoneRef::find_local_time_type',
            hints=[("let extra_rule = match", "        proof { let tr = self.transitions@; let lt = self.local_time_types@; let n = tr.len() as int;\n"
                    "          assert(interval_type(tr, lt, 0) == lt[0]); if n > 0 { assert(interval_type(tr, lt, n) == lt[tr[n - 1].local_time_type_index as int]); } }")],
            subst=[('self.transitions.last()', 'last_transition(self.transitions)', 'std slice::last through its contract stub'),
                   ('self\n                        .transitions\n                        .binary_search_by_key(&unix_leap_time, Transition::unix_leap_time)', 'bsearch_transitions(self.transitions, unix_leap_time)', 'std slice::binary_search_by_key through its contract stub')],
            hints_all=[("return Ok(&self.local_time_types[local_time_type_index]);", "proof { assert(interval_type(self.transitions@, self.local_time_types@, index as int) == self.local_time_types@[local_time_type_index as int]); }")])
    u.raw('}')
    u.raw(P.FOOTER)
    return u
