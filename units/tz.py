"""C05/C16: the TZif transition-table lookups of src/offset/local/tz_info/timezone.rs on the real text.
find_local_time_type_from_local (table scan): every returned candidate is sound (wall -> instant -> wall is the identity),
Ambiguous lists the earlier instant first and its two members differ in offset, no arithmetic overflow for any
file-supplied transition time; validate() establishes the well-formedness the lookups rely on."""
from unit import Unit, header, src
from xtract import clean_struct
from specs import prelude as P

F = 'src/offset/local/tz_info/timezone.rs'
FR = 'src/offset/local/tz_info/rule.rs'
FN = 'src/naive/datetime/mod.rs'
FDT = 'src/datetime/mod.rs'
IMPL = "impl<'a> TimeZoneRef<'a> {"

SPEC = r'''
// trimmed model of tz_info::Error (only the variants these functions construct; payloads are static strings)
enum Error { FindLocalTimeType(&'static str), OutOfRange(&'static str), TimeZone(&'static str) }

spec fn tz_wf(tr: Seq<Transition>, lt: Seq<LocalTimeType>) -> bool {
    lt.len() > 0
    && (forall|i: int| 0 <= i < tr.len() ==> (#[trigger] tr[i]).local_time_type_index < lt.len())
    && (forall|i: int, j: int| 0 <= i < j < tr.len() ==> (#[trigger] tr[i]).unix_leap_time < (#[trigger] tr[j]).unix_leap_time)
}
// separation hypothesis (stated, not proved: it is a property of the zone data): consecutive transitions lie further apart
// than the offset change of the earlier one, so a repeated hour ends before the next transition.  Real zoneinfo data satisfy it.
spec fn tz_sep(tr: Seq<Transition>, lt: Seq<LocalTimeType>) -> bool {
    forall|i: int| 0 <= i < tr.len() - 1 ==>
        (#[trigger] tr[i]).unix_leap_time + interval_type(tr, lt, i).ut_offset - interval_type(tr, lt, i + 1).ut_offset < tr[i + 1].unix_leap_time
}
// type in effect during interval k = [T[k-1], T[k])  (k = 0: before the first transition; k = len: after the last)
spec fn interval_type(tr: Seq<Transition>, lt: Seq<LocalTimeType>, k: int) -> LocalTimeType {
    if k == 0 { lt[0] } else { lt[tr[k - 1].local_time_type_index as int] }
}
// type o is *sound* for wall-clock time `local`: the instant local - o.offset lies in an interval governed by o.
// `incl` admits the single boundary second that ends a skipped or repeated interval (the property's documented exception).
spec fn sound(tr: Seq<Transition>, lt: Seq<LocalTimeType>, local: int, o: LocalTimeType, k: int, incl: bool) -> bool {
    0 <= k <= tr.len() && interval_type(tr, lt, k) == o && (k == 0 || tr[k - 1].unix_leap_time <= local - o.ut_offset)
    && (k == tr.len() || local - o.ut_offset < tr[k].unix_leap_time || (incl && local - o.ut_offset == tr[k].unix_leap_time))
}
spec fn from_local_post(tr: Seq<Transition>, lt: Seq<LocalTimeType>, local: int, r: Result<MappedLocalTime<LocalTimeType>, Error>) -> bool {
    &&& r is Ok
    &&& (r->Ok_0 is Single) ==> (exists|k: int| #[trigger] sound(tr, lt, local, r->Ok_0->Single_0, k, true))
    &&& (r->Ok_0 is Ambiguous) ==>
            // earliest first: the earlier instant is the one with the larger offset; the two candidates are distinct
            r->Ok_0->Ambiguous_0.ut_offset > r->Ok_0->Ambiguous_1.ut_offset
            && (exists|k: int| #[trigger] sound(tr, lt, local, r->Ok_0->Ambiguous_0, k, true))
            && (exists|k: int| #[trigger] sound(tr, lt, local, r->Ok_0->Ambiguous_1, k, true))
}
proof fn post_single(tr: Seq<Transition>, lt: Seq<LocalTimeType>, local: int, o: LocalTimeType, k: int)
    requires sound(tr, lt, local, o, k, true)
    ensures from_local_post(tr, lt, local, Ok(MappedLocalTime::Single(o)))
{
    let r: Result<MappedLocalTime<LocalTimeType>, Error> = Ok(MappedLocalTime::Single(o));
    assert(sound(tr, lt, local, r->Ok_0->Single_0, k, true));
}
proof fn post_amb(tr: Seq<Transition>, lt: Seq<LocalTimeType>, local: int, a: LocalTimeType, ka: int, b: LocalTimeType, kb: int)
    requires sound(tr, lt, local, a, ka, true), sound(tr, lt, local, b, kb, true), a.ut_offset > b.ut_offset
    ensures from_local_post(tr, lt, local, Ok(MappedLocalTime::Ambiguous(a, b)))
{
    let r: Result<MappedLocalTime<LocalTimeType>, Error> = Ok(MappedLocalTime::Ambiguous(a, b));
    assert(sound(tr, lt, local, r->Ok_0->Ambiguous_0, ka, true));
    assert(sound(tr, lt, local, r->Ok_0->Ambiguous_1, kb, true));
}
proof fn post_none(tr: Seq<Transition>, lt: Seq<LocalTimeType>, local: int)
    ensures from_local_post(tr, lt, local, Ok(MappedLocalTime::None))
{}
'''

LOOP = '''for transition in it: self.transitions
                invariant
                    tz_wf(self.transitions@, self.local_time_types@), tz_sep(self.transitions@, self.local_time_types@), tr == self.transitions@, lt == self.local_time_types@,
                    it.index@ <= tr.len(), local_leap_time as int == unix_secs(local_time), dtwf(local_time),
                    prev == interval_type(tr, lt, it.index@ as int),
                    it.index@ > 0 ==> tr[it.index@ - 1].unix_leap_time + prev.ut_offset < local_leap_time,
            {'''


def build(contracts):
    u = Unit('tz', contracts)
    u.lemma_owner = {'calendar': 'date', 'rust_div': 'timedelta'}
    u.raw(header(P.HEADER) + P.STD_SPECS + P.EXPECT + P.RUST_DIV_AX + P.CALENDAR_AX + '''
trait Offset: Sized + Clone {}
trait TimeZone: Sized + Clone { type Offset: Offset; }
#[derive(Copy, Clone)] struct Utc;
impl Offset for Utc {}
impl TimeZone for Utc { type Offset = Utc; }
''')
    u.struct('src/naive/internals.rs', 'YearFlags')
    u.struct('src/naive/date/mod.rs', 'NaiveDate', expect_fields='struct NaiveDate { yof: NonZeroI32, }')
    u.struct('src/naive/time/mod.rs', 'NaiveTime', expect_fields='struct NaiveTime { secs: u32, frac: u32, }')
    u.struct(FN, 'NaiveDateTime', expect_fields='struct NaiveDateTime { date: NaiveDate, time: NaiveTime, }')
    u.struct(FDT, 'DateTime', derive=None)
    u.struct('src/offset/fixed.rs', 'FixedOffset')
    u.struct(F, 'Transition', expect_fields='struct Transition { unix_leap_time: i64, local_time_type_index: usize, }')
    u.struct(F, 'TimeZoneName', derive='Clone, Copy, PartialEq, Eq', expect_fields='struct TimeZoneName { bytes: [u8; 8], }')
    u.struct(F, 'LocalTimeType', derive='Clone, Copy, PartialEq, Eq', expect_fields='struct LocalTimeType { ut_offset: i32, is_dst: bool, name: Option<TimeZoneName>, }')
    u.struct(F, 'LeapSecond', expect_fields='struct LeapSecond { unix_leap_time: i64, correction: i32, }')
    u.raw(clean_struct(src('src/offset/mod.rs').enum('LocalResult'), derive=None) + '\ntype MappedLocalTime<T> = LocalResult<T>;')
    u.raw(clean_struct(src(FR).enum('RuleDay'), derive='Clone, Copy'))
    u.struct(FR, 'AlternateTime', derive='Clone, Copy')
    u.raw(clean_struct(src(FR).enum('TransitionRule'), derive='Clone, Copy'))
    u.struct(F, 'TimeZoneRef', derive=None)
    u.raw(P.DATE_VIEW_AX + P.TIME_VIEW + P.DT_VIEW.replace('proof fn dt_carry', '#[verifier::external_body]\nproof fn dt_carry_unused').split('#[verifier::external_body]')[0] + SPEC)
    u.raw('impl NaiveDateTime {')
    u.stub(FN, 'and_utc', 'impl NaiveDateTime {', cid='NaiveDateTime::and_utc')
    u.raw('}\nimpl<Tz: TimeZone> DateTime<Tz> {')
    u.stub(FDT, 'timestamp', 'impl<Tz: TimeZone> DateTime<Tz> {', cid='DateTime::timestamp')
    u.raw('}\nimpl TransitionRule {')
    u.stub(FR, 'find_local_time_type_from_local', 'impl TransitionRule {')
    u.raw("}\nimpl<'a> TimeZoneRef<'a> {")
    W1 = "proof { post_single(tr, lt, local_leap_time as int, %s, it.index@ as int%s); }"
    u.prove(F, 'find_local_time_type_from_local', IMPL, cid='TimeZoneRef::find_local_time_type_from_local',
            subst=[('crate::MappedLocalTime', 'MappedLocalTime', 'crate path shortened'),
                   ('for transition in self.transitions {', LOOP, 'R8 slice loop labelled and given an invariant')],
            hints=[("let mut prev = self.local_time_types[0];", "            let ghost tr = self.transitions@; let ghost lt = self.local_time_types@;"),
                   ("let transition_end =", "                proof { let k = it.index@ as int; assert(interval_type(tr, lt, k) == prev); assert(interval_type(tr, lt, k + 1) == after_ltt); }"),
                   ("Ok(MappedLocalTime::Single(offset_after_last))", "            proof { post_single(self.transitions@, self.local_time_types@, unix_secs(local_time), offset_after_last, self.transitions@.len() as int); }")],
            hints_all=[("return Ok(MappedLocalTime::Single(prev));", W1 % ('prev', '')),
                       ("return Ok(MappedLocalTime::Single(after_ltt));", W1 % ('after_ltt', ' + 1')),
                       ("return Ok(MappedLocalTime::Ambiguous(prev, after_ltt));", "proof { post_amb(tr, lt, local_leap_time as int, prev, it.index@ as int, after_ltt, it.index@ as int + 1); }"),
                       ("return Ok(MappedLocalTime::None);", "proof { post_none(tr, lt, local_leap_time as int); }")])
    u.raw('}')
    u.raw(P.FOOTER)
    return u
