"""C06: every constructor, accessor and arithmetic operation of TimeDelta against the integer-nanosecond view.
Real text: src/time_delta.rs (impl TimeDelta, the operator impls, div_mod_floor_64, MIN, MAX)."""
from unit import Unit, header
from specs import prelude as P

F = 'src/time_delta.rs'
IMPL = 'impl TimeDelta {'

DURATION = r'''
use core::time::Duration;
pub uninterp spec fn dur_secs(d: core::time::Duration) -> u64;
pub uninterp spec fn dur_nanos(d: core::time::Duration) -> u32;
pub assume_specification [core::time::Duration::as_secs] (d: &core::time::Duration) -> (r: u64) ensures r == dur_secs(*d);
pub assume_specification [core::time::Duration::subsec_nanos] (d: &core::time::Duration) -> (r: u32) ensures r == dur_nanos(*d), r < 1_000_000_000;
pub assume_specification [core::time::Duration::new] (secs: u64, nanos: u32) -> (r: core::time::Duration)
    requires nanos < 1_000_000_000 ensures dur_secs(r) == secs, dur_nanos(r) == nanos;
struct OutOfRangeError(());
'''

LEMMAS = r'''
// derived Ord on (secs, nanos) agrees with numeric order of the nanosecond count (the derive itself: Kani)
proof fn td_ord_is_numeric(a: TimeDelta, b: TimeDelta)
    requires 0 <= a.nanos < 1_000_000_000, 0 <= b.nanos < 1_000_000_000
    ensures (a.secs < b.secs || (a.secs == b.secs && a.nanos < b.nanos)) <==> td_ns(a) < td_ns(b),
            (a.secs == b.secs && a.nanos == b.nanos) <==> td_ns(a) == td_ns(b)
{}
proof fn trunc_div_is_rust(a: int, b: int)
    requires b > 0
    ensures trunc_div(a, b) == rust_div(a, b), trunc_rem(a, b) == rust_rem(a, b)
{ reveal(rust_div); reveal(rust_rem); rust_divrem(a, b); euclid(a, b); euclid(-a, b);
  if a < 0 { assert(a - (-((-a) / b)) * b == -((-a) % b)) by(nonlinear_arith) requires -a == b * ((-a) / b) + (-a) % b; }
  else { assert(a - (a / b) * b == a % b) by(nonlinear_arith) requires a == b * (a / b) + a % b; } }
'''


def build(contracts):
    u = Unit('timedelta', contracts)
    u.raw(header(P.HEADER) + P.STD_SPECS + P.EXPECT + P.RUST_DIV)
    u.consts_all(F)
    u.struct(F, 'TimeDelta', expect_fields='struct TimeDelta { secs: i64, nanos: i32, }')
    u.raw(P.TD_VIEW + DURATION + LEMMAS)
    # MIN / MAX: the constants themselves are obligations (values from the property text: -/+(2^63-1) ms)
    for name, ens in (('MIN', 'td_ns(MIN) == -LIM(), 0 <= MIN.nanos < 1_000_000_000, MIN.secs == -9223372036854776i64'),
                      ('MAX', 'td_ns(MAX) == LIM(), 0 <= MAX.nanos < 1_000_000_000, MAX.secs == 9223372036854775i64')):
        import re
        from xtract import clean_const, AnchorLost
        from unit import src
        t = clean_const(src(F).const(name))
        m = re.match(r'const (\w+): TimeDelta = (TimeDelta \{.*\});$', t, flags=re.S)
        if not m:
            raise AnchorLost('const %s shape' % name)
        u.raw('exec const %s: TimeDelta\n    ensures %s\n{ %s }\n' % (name, ens, m.group(2)))
        u.items.append(dict(name='TimeDelta::' + name, kind='const', file=F, line=0))
    u.prove(F, 'div_mod_floor_64', cid='div_mod_floor_64')
    u.raw('impl TimeDelta {')
    simple = ['new', 'weeks', 'try_weeks', 'days', 'try_days', 'hours', 'try_hours', 'minutes', 'try_minutes',
              'seconds', 'try_seconds', 'milliseconds', 'try_milliseconds', 'microseconds', 'nanoseconds',
              'num_weeks', 'num_days', 'num_hours', 'num_minutes', 'num_seconds', 'num_milliseconds',
              'subsec_millis', 'num_microseconds', 'subsec_micros', 'num_nanoseconds', 'subsec_nanos',
              'checked_add', 'checked_sub', 'abs', 'zero', 'is_zero', 'from_std', 'to_std', 'neg']
    for n in simple:
        hints = []
        u.prove(F, n, IMPL, cid='TimeDelta::' + n, hints=hints)
    u.prove(F, 'checked_mul', IMPL, cid='TimeDelta::checked_mul', hints=[
        ("let total_nanos", "        proof { assert(-2147483648int * 1_000_000_000 <= self.nanos as int * rhs as int <= 2147483648int * 1_000_000_000) by(nonlinear_arith) requires 0 <= self.nanos < 1_000_000_000, -2147483648 <= rhs <= 2147483647; }"),
        ("let secs: i128", "        proof { assert(-9223372036854775808int * 2147483648 <= self.secs as int * rhs as int <= 9223372036854775808int * 2147483648) by(nonlinear_arith) requires -9223372036854775808 <= self.secs <= 9223372036854775807, -2147483648 <= rhs <= 2147483647;\n"
                           "          assert(td_ns(*self) * rhs as int == (self.secs as int * rhs as int) * 1_000_000_000 + self.nanos as int * rhs as int) by(nonlinear_arith) requires td_ns(*self) == self.secs as int * 1_000_000_000 + self.nanos as int; }"),
    ])
    u.prove(F, 'checked_div', IMPL, cid='TimeDelta::checked_div', hints=[
        ("let secs = self.secs / rhs as i64;", "        proof { rust_divrem(self.secs as int, rhs as int); rust_divrem(self.nanos as int, rhs as int); }"),
        ("let extra_nanos", CHECKED_DIV_HINT),
        ("let (secs, nanos) = match nanos", CHECKED_DIV_HINT2),
        ("Some(TimeDelta { secs, nanos })", "        proof { assert(secs as int * 1_000_000_000 + nanos as int == v0); assert(0 <= nanos < 1_000_000_000); assert(-LIM() <= v0 <= LIM()); assert(iabs(v0 * rhs as int - td_ns(*self)) < 2 * iabs(rhs as int));\n"
         "          assert(td_ns(TimeDelta { secs, nanos }) * rhs as int == v0 * rhs as int) by(nonlinear_arith) requires td_ns(TimeDelta { secs, nanos }) == v0; }"),
    ])
    u.raw('}')
    # operator impls: emitted as inherent methods (R6), calls `x.checked_add(&rhs).expect(..)` use Option::expect
    u.raw('impl TimeDelta {')
    u.prove(F, 'neg', 'impl Neg for TimeDelta {', cid='TimeDelta::Neg__neg', rename='Neg__neg')
    u.prove(F, 'add', 'impl Add for TimeDelta {', cid='TimeDelta::Add__add', rename='Add__add')
    u.prove(F, 'sub', 'impl Sub for TimeDelta {', cid='TimeDelta::Sub__sub', rename='Sub__sub')
    u.prove(F, 'mul', 'impl Mul<i32> for TimeDelta {', cid='TimeDelta::Mul__mul', rename='Mul__mul')
    u.prove(F, 'div', 'impl Div<i32> for TimeDelta {', cid='TimeDelta::Div__div', rename='Div__div')
    u.raw('}')
    u.raw(P.FOOTER)
    return u


CHECKED_DIV_HINT = r'''        proof {
            assert(iabs(carry as int * 1_000_000_000) < iabs(rhs as int) * 1_000_000_000) by(nonlinear_arith) requires iabs(carry as int) < iabs(rhs as int);
            rust_divrem(carry as int * 1_000_000_000, rhs as int);
            let e = rust_div(carry as int * 1_000_000_000, rhs as int);
            assert(iabs(e) < 1_000_000_000) by(nonlinear_arith)
                requires carry as int * 1_000_000_000 == e * rhs as int + rust_rem(carry as int * 1_000_000_000, rhs as int),
                         iabs(rust_rem(carry as int * 1_000_000_000, rhs as int)) < iabs(rhs as int),
                         iabs(carry as int * 1_000_000_000) < iabs(rhs as int) * 1_000_000_000, rhs != 0,
                         (carry as int * 1_000_000_000 >= 0 ==> rust_rem(carry as int * 1_000_000_000, rhs as int) >= 0),
                         (carry as int * 1_000_000_000 <= 0 ==> rust_rem(carry as int * 1_000_000_000, rhs as int) <= 0);
        }'''

CHECKED_DIV_HINT2 = r'''        let ghost v0 = secs as int * 1_000_000_000 + nanos as int;
        proof {
            // exact decomposition: ns(self) = (secs*1e9 + nanos) * rhs + (r2 + r3) with |r2|,|r3| < |rhs|
            let k = rhs as int;
            let q1 = rust_div(self.secs as int, k); let c = rust_rem(self.secs as int, k);
            let q2 = rust_div(c * 1_000_000_000, k); let r2 = rust_rem(c * 1_000_000_000, k);
            let q3 = rust_div(self.nanos as int, k); let r3 = rust_rem(self.nanos as int, k);
            assert(secs as int == q1 && extra_nanos as int == q2 && nanos as int == q3 + q2);
            assert(iabs(q2 * k) <= iabs(c) * 1_000_000_000 && iabs(q3 * k) <= self.nanos as int);
            assert(iabs((q2 + q3) * k) < iabs(k) * 1_000_000_000) by(nonlinear_arith)
                requires iabs(q2 * k) <= iabs(c) * 1_000_000_000, iabs(q3 * k) <= self.nanos as int, iabs(c) < iabs(k), 0 <= self.nanos < 1_000_000_000;
            assert(iabs(q2 + q3) < 1_000_000_000) by(nonlinear_arith)
                requires iabs((q2 + q3) * k) < iabs(k) * 1_000_000_000, k != 0;
            assert(td_ns(*self) == (q1 * 1_000_000_000 + q2 + q3) * k + r2 + r3) by(nonlinear_arith)
                requires td_ns(*self) == self.secs as int * 1_000_000_000 + self.nanos as int,
                         self.secs as int == q1 * k + c, c * 1_000_000_000 == q2 * k + r2, self.nanos as int == q3 * k + r3;
            // range of the quotient: |(q1*1e9+q2+q3) * k| <= |ns(self)| + 2|k|  ==> within LIM after dividing
            let v = q1 * 1_000_000_000 + q2 + q3;
            assert(iabs(v * k - td_ns(*self)) < 2 * iabs(k));
            if iabs(k) == 1 {
                assert(r2 == 0 && r3 == 0);
                assert(v == td_ns(*self) || v == -td_ns(*self)) by(nonlinear_arith) requires v * k == td_ns(*self), k == 1 || k == -1;
            } else {
                assert(-LIM() <= v <= LIM()) by(nonlinear_arith)
                    requires iabs(v * k - td_ns(*self)) < 2 * iabs(k), -LIM() <= td_ns(*self) <= LIM(), iabs(k) >= 2, LIM() >= 4;
            }
        }'''
