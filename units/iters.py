"""C03: NaiveDateDaysIterator / NaiveDateWeeksIterator step by exactly 1 / 7 days, end at the range limit, exact size hint.
Trait-impl methods are emitted as inherent methods (R6)."""
from unit import Unit, header
from specs import prelude as P

FD = 'src/naive/date/mod.rs'
FTD = 'src/time_delta.rs'


def build(contracts):
    u = Unit('iters', contracts)
    u.lemma_owner = {'calendar': 'date', 'rust_div': 'timedelta'}
    u.raw(header(P.HEADER) + P.STD_SPECS + P.EXPECT + P.RUST_DIV_AX + P.CALENDAR_AX)
    u.struct('src/naive/internals.rs', 'YearFlags')
    u.struct(FD, 'NaiveDate', expect_fields='struct NaiveDate { yof: NonZeroI32, }')
    u.struct(FTD, 'TimeDelta', expect_fields='struct TimeDelta { secs: i64, nanos: i32, }')
    u.struct('src/naive/mod.rs', 'Days', expect_fields='struct Days(u64);')
    u.struct(FD, 'NaiveDateDaysIterator', derive=None, expect_fields='struct NaiveDateDaysIterator { value: NaiveDate, }')
    u.struct(FD, 'NaiveDateWeeksIterator', derive=None, expect_fields='struct NaiveDateWeeksIterator { value: NaiveDate, }')
    u.raw(P.DATE_VIEW_AX + P.TD_VIEW)
    u.raw('impl TimeDelta {')
    for n in ['num_days', 'num_weeks']:
        u.stub(FTD, n, 'impl TimeDelta {', cid='TimeDelta::' + n)
    u.stub_all(FTD, 'impl TimeDelta {', 'TimeDelta')
    u.raw('}\nimpl Days {')
    u.prove('src/naive/mod.rs', 'new', 'impl Days {', cid='Days::new')
    u.raw('}\nimpl NaiveDate {')
    for n in ['succ_opt', 'pred_opt', 'checked_add_days', 'checked_sub_days', 'signed_duration_since']:
        u.stub(FD, n, 'impl NaiveDate {', cid='NaiveDate::' + n)
    c = contracts['NaiveDate::MAX']
    u.raw('#[verifier::external_body]\nfn MAX() -> (r: NaiveDate)\n    ensures %s\n{ unimplemented!() }' % c['ensures'])
    u.assumed.append('NaiveDate::MAX')
    u.prove(FD, 'iter_days', 'impl NaiveDate {', cid='NaiveDate::iter_days')
    u.prove(FD, 'iter_weeks', 'impl NaiveDate {', cid='NaiveDate::iter_weeks')
    u.stub_all(FD, 'impl NaiveDate {', 'NaiveDate')
    mx = [('NaiveDate::MAX.', 'NaiveDate::MAX().', 'associated const read through its contract stub')]
    for ty in ['NaiveDateDaysIterator', 'NaiveDateWeeksIterator']:
        u.raw('}\nimpl %s {' % ty)
        sig_next = 'fn Iterator__next(&mut self) -> Option<NaiveDate>'
        u.prove(FD, 'next', 'impl Iterator for %s {' % ty, cid=ty + '::Iterator__next', replace_sig=sig_next)
        u.items[-1]['emitted'] = 'Iterator__next'
        u.prove(FD, 'size_hint', 'impl Iterator for %s {' % ty, cid=ty + '::Iterator__size_hint', rename='Iterator__size_hint', subst=mx,
                hints=[("(exact_size as usize", "        proof { dn_range_consts(); lemma_div_multiples_vanish(DN_MAX() - dn(self.value), 86_400_000_000_000int); " +
                        ("assert(((DN_MAX() - dn(self.value)) * 86_400_000_000_000int) / 604_800_000_000_000 == (DN_MAX() - dn(self.value)) / 7) by(nonlinear_arith) requires 86_400_000_000_000int == 86_400_000_000_000, DN_MAX() - dn(self.value) >= 0; " if 'Weeks' in ty else "") + "}")])
        u.prove(FD, 'next_back', 'impl DoubleEndedIterator for %s {' % ty, cid=ty + '::DoubleEndedIterator__next_back',
                replace_sig='fn DoubleEndedIterator__next_back(&mut self) -> Option<NaiveDate>')
        u.items[-1]['emitted'] = 'DoubleEndedIterator__next_back'
    u.raw('}')
    u.raw(P.FOOTER)
    return u
