"""C01/C03: the day-count arithmetic of NaiveDate on the real text of src/naive/date/mod.rs:
from_num_days_from_ce_opt, num_days_from_ce, add_days (fast path with its mask/shift code and slow path),
checked_add_days/sub_days, checked_add_signed/sub_signed, signed_duration_since, cycle_to_yo, yo_to_cycle,
div_mod_floor, the 401-cell YEAR_DELTAS table and the constants MIN_YEAR/MAX_YEAR -- against the proleptic
Gregorian day number.  Packed-date accessors are assumed with their Kani-proved contracts."""
from unit import Unit, header
from specs import prelude as P

F = 'src/naive/date/mod.rs'
FI = 'src/naive/internals.rs'
FT = 'src/time_delta.rs'
IMPL = 'impl NaiveDate {'


def table_lemma():
    cases = "\n        ".join("if i == %d { assert(YEAR_DELTAS[%d] as int == leaps_before(%d)); }" % (k, k, k) for k in range(401))
    return '''
proof fn table_ok()
    ensures forall|i: int| 0 <= i <= 400 ==> (#[trigger] YEAR_DELTAS[i]) as int == leaps_before(i)
{
    assert forall|i: int| 0 <= i <= 400 implies (#[trigger] YEAR_DELTAS[i]) as int == leaps_before(i) by {
        ''' + cases + '''
    }
}
'''


def build(contracts):
    u = Unit('date', contracts)
    u.rlimit = 120
    u.raw(header(P.HEADER) + P.STD_SPECS + P.EXPECT + P.RUST_DIV + P.CALENDAR)
    u.struct(FI, 'YearFlags', expect_fields='struct YearFlags(u8);')
    u.struct(F, 'NaiveDate', expect_fields='struct NaiveDate { yof: NonZeroI32, }')
    u.struct(FT, 'TimeDelta', expect_fields='struct TimeDelta { secs: i64, nanos: i32, }')
    u.struct('src/naive/mod.rs', 'Days', expect_fields='struct Days(u64);')
    u.raw(P.DATE_VIEW + P.TD_VIEW)
    u.raw('''
#[verifier::external_body]
proof fn flags400_facts(ym: int)
    requires %(requires)s
    ensures %(ensures)s
{ unimplemented!() }
''' % contracts['flags400_facts'])
    u.assumed.append('flags400_facts')
    # MIN_YEAR / MAX_YEAR: the value stated in the property text is a plain const for the other functions; the real
    # initialiser expression (which uses >>, not allowed in Verus consts) is extracted into a function whose result is an obligation
    import re as _re
    from unit import src as _src
    from xtract import clean_const as _cc, AnchorLost as _AL
    for cname, val, hint in (('MAX_YEAR', '262142', 'assert(i32::MAX >> 13u32 == 262143i32) by(bit_vector);'),
                             ('MIN_YEAR', '-262143', 'assert(i32::MIN >> 13u32 == -262144i32) by(bit_vector);')):
        t = _cc(_src(F).const(cname))
        m = _re.match(r'const %s: i32 = (.*);$' % cname, t, flags=_re.S)
        if not m:
            raise _AL('const %s shape' % cname)
        u.raw('const %s: i32 = %s;\nfn %s__value() -> (r: i32) ensures r == %s { %s %s }' % (cname, val, cname, cname, hint, m.group(1)))
        u.items.append(dict(name='const ' + cname, kind='exec', emitted=cname + '__value', file=F, line=0))
    u.const(F, 'ORDINAL_MASK')
    u.const(F, 'LEAP_YEAR_MASK')
    u.const(F, 'OL_MASK', replace=("const OL_MASK: i32 = ORDINAL_MASK | LEAP_YEAR_MASK;", "const OL_MASK: i32 = 0b1_1111_1111_1000;"))
    u.const(F, 'MAX_OL', replace=("const MAX_OL: i32 = 366 << 4;", "const MAX_OL: i32 = 5856;"))
    u.const(F, 'YEAR_DELTAS')
    u.raw(table_lemma())
    u.prove(F, 'div_mod_floor', cid='div_mod_floor')
    u.prove(F, 'yo_to_cycle', cid='yo_to_cycle', hints=[("year_mod_400 * 365", "    proof { table_ok(); }")])
    u.prove(F, 'cycle_to_yo', cid='cycle_to_yo', hints=[
        ("let delta = YEAR_DELTAS", "    proof { table_ok(); assert(year_mod_400 <= 400); if year_mod_400 > 0 { lb_step(year_mod_400 as int - 1); } if year_mod_400 < 400 { lb_step(year_mod_400 as int); } }")])
    u.raw('impl TimeDelta {')
    u.stub(FT, 'num_days', 'impl TimeDelta {', cid='TimeDelta::num_days')
    u.stub(FT, 'try_days', 'impl TimeDelta {', cid='TimeDelta::try_days')
    u.stub_all(FT, 'impl TimeDelta {', 'TimeDelta')
    u.raw('}\nimpl YearFlags {')
    u.stub(FI, 'from_year_mod_400', 'impl YearFlags {', cid='YearFlags::from_year_mod_400')
    u.raw('}\nimpl NaiveDate {')
    for n in ['yof', 'year', 'ordinal', 'leap_year', 'from_yof', 'from_ordinal_and_flags']:
        u.stub(F, n, IMPL, cid='NaiveDate::' + n)
    u.prove(F, 'from_num_days_from_ce_opt', IMPL, cid='NaiveDate::from_num_days_from_ce_opt', hints=[
        ("NaiveDate::from_ordinal_and_flags(year_div_400 * 400", "        proof { from_days(days as int - 365, year_div_400 as int, cycle as int, year_mod_400 as int, ordinal as int); }")])
    u.prove(F, 'add_days', IMPL, cid='NaiveDate::add_days', hints=[
        ("if let Some(ordinal) = ((self.yof() & ORDINAL_MASK) >> 4).checked_add(days)",
         "        let ghost y0 = v_yof(self) as i32;\n        proof { assert(((y0 & 0b1_1111_1111_0000i32) >> 4u32) == ((y0 as int) % 8192) / 16) by(bit_vector); }"),
        ("return Some(NaiveDate::from_yof(year_and_flags | (ordinal << 4)));",
         "                proof { let n = (year_and_flags | (ordinal << 4)) as i32;\n"
         "                  assert(((n as int) % 8192) / 16 == ordinal as int && (n as int) % 16 == (y0 as int) % 16 && (n as int) / 8192 == (y0 as int) / 8192) by(bit_vector)\n"
         "                    requires 0 < ordinal <= 366, n == ((y0 & !0b1_1111_1111_0000i32) | (ordinal << 4u32));\n"
         "                  flags400_facts(v_year(self) % 400);\n"
         "                  in_range(v_year(self), ordinal as int); }"),
        ("NaiveDate::from_ordinal_and_flags(year_div_400 * 400", "        proof { slow_path(v_year(self), v_ord(self), days as int, cycle_div_400y as int, cycle as int, year_mod_400 as int, ordinal as int); }")])
    u.prove(F, 'num_days_from_ce', IMPL, cid='NaiveDate::num_days_from_ce', hints=[
        ("ndays += ((year * 1461) >> 2)", "        proof { reveal(days_before_year); let a = (year * 1461) as i32; assert(0 <= year < 400 * 800);\n"
         "          assert(a >> 2u32 == a / 4) by(bit_vector) requires a >= 0;\n"
         "          assert(div_100 >> 2u32 == div_100 / 4) by(bit_vector) requires div_100 >= 0; }")])
    # the provided method of trait Datelike (what callers outside the crate get for NaiveDate), at Self = NaiveDate (R6)
    u.prove('src/traits.rs', 'num_days_from_ce', 'pub trait Datelike: Sized {', cid='NaiveDate::Datelike__num_days_from_ce',
            rename='Datelike__num_days_from_ce', hints=[
        ("ndays += ((year * 1461) >> 2)", "        proof { reveal(days_before_year); let a = (year * 1461) as i32; assert(0 <= year < 400 * 800);\n"
         "          assert(a >> 2u32 == a / 4) by(bit_vector) requires a >= 0;\n"
         "          assert(div_100 >> 2u32 == div_100 / 4) by(bit_vector) requires div_100 >= 0; }")])
    u.prove(F, 'signed_duration_since', IMPL, cid='NaiveDate::signed_duration_since', hints=[
        ("let days = (year1_div_400", "        proof { dn_range_consts(); dn_cycle(v_year(self), v_ord(self)); dn_cycle(v_year(rhs), v_ord(rhs)); dn_cycle(MIN_Y(), 1); dn_cycle(MAX_Y(), 365); in_range(v_year(self), v_ord(self)); in_range(v_year(rhs), v_ord(rhs)); }")])
    for n in ['checked_add_days', 'checked_sub_days', 'checked_add_signed', 'checked_sub_signed']:
        u.prove(F, n, IMPL, cid='NaiveDate::' + n, hints=[('{', "        proof { dn_range_consts(); in_range(v_year(self), v_ord(self)); }")] if False else [])
    u.prove(F, 'from_num_days_from_ce', IMPL, cid='NaiveDate::from_num_days_from_ce')
    # operator forms: checked form + expect (documented to panic exactly when the checked form refuses = the precondition)
    for impl_hdr, fn, cid in [('impl Add<TimeDelta> for NaiveDate {', 'add', 'Add__add'), ('impl Sub<TimeDelta> for NaiveDate {', 'sub', 'Sub__sub'),
                              ('impl Add<Days> for NaiveDate {', 'add', 'Add_Days__add'), ('impl Sub<Days> for NaiveDate {', 'sub', 'Sub_Days__sub'),
                              ('impl Sub<NaiveDate> for NaiveDate {', 'sub', 'Sub_NaiveDate__sub')]:
        u.prove(F, fn, impl_hdr, cid='NaiveDate::' + cid, rename=cid, subst=[('-> Self::Output', '-> NaiveDate', 'none')] if False else [],
                replace_sig=('fn %s(self, days: Days) -> NaiveDate' % fn) if 'Days' in cid else None)
    u.prove(F, 'add_assign', 'impl AddAssign<TimeDelta> for NaiveDate {', cid='NaiveDate::AddAssign__add_assign', rename='AddAssign__add_assign',
            subst=[('self.add(rhs)', 'self.Add__add(rhs)', 'R6 trait call re-pointed')])
    u.prove(F, 'sub_assign', 'impl SubAssign<TimeDelta> for NaiveDate {', cid='NaiveDate::SubAssign__sub_assign', rename='SubAssign__sub_assign',
            subst=[('self.sub(rhs)', 'self.Sub__sub(rhs)', 'R6 trait call re-pointed')])
    u.raw('}')
    u.raw(P.FOOTER)
    return u
