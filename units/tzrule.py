"""C05/C16: calendar helpers of the POSIX TZ rule code (src/offset/local/tz_info/rule.rs) on the real text:
is_leap_year, days_since_unix_epoch (truncating divisions of negative years included), RuleDay constructors,
RuleDay::transition_date (Jn / n / Mm.w.d incl. 'last' week), RuleDay::unix_time, AlternateTime::new."""
from unit import Unit, header, src
from xtract import clean_struct
from specs import prelude as P

F = 'src/offset/local/tz_info/rule.rs'
FM = 'src/offset/local/tz_info/mod.rs'
FZ = 'src/offset/local/tz_info/timezone.rs'

SPEC = r'''
enum Error { OutOfRange(&'static str), TransitionRule(&'static str) }
spec fn epoch_day(y: int, m: int, d: int) -> int { day_number(y, cum_days(y, m) + d) - UNIX_DAY() }
// the two closed forms used by days_since_unix_epoch, proved by induction on the year (one year step = year_len)
proof fn neg_mod_zero(y: int, d: int)
    requires d > 0
    ensures ((-y) % d == 0) == (y % d == 0)
{
    lemma_fundamental_div_mod(y, d); lemma_fundamental_div_mod(-y, d); lemma_mod_bound(y, d); lemma_mod_bound(-y, d);
    if y % d == 0 { let q = y / d; assert(-y == d * (-q) + 0) by(nonlinear_arith) requires y == d * q; lemma_fundamental_div_mod_converse(-y, d, -q, 0); }
    if (-y) % d == 0 { let q = (-y) / d; assert(y == d * (-q) + 0) by(nonlinear_arith) requires -y == d * q; lemma_fundamental_div_mod_converse(y, d, -q, 0); }
}
// shifting by a multiple of d does not change divisibility; c - y is divisible iff y is
proof fn mod_shift(y: int, k: int, d: int)
    requires d > 0
    ensures ((y - d * k) % d == 0) == (y % d == 0), ((d * k - y) % d == 0) == (y % d == 0)
{
    lemma_mod_multiples_vanish(-k, y, d); assert(d * (-k) + y == y - d * k) by(nonlinear_arith);
    lemma_mod_multiples_vanish(k, -y, d); assert(d * k + (-y) == d * k - y);
    neg_mod_zero(y, d);
}
proof fn rem_zero_iff(a: int, b: int)
    requires b > 0
    ensures (rust_rem(a, b) == 0) == (a % b == 0)
{ reveal(rust_rem); if a < 0 { neg_mod_zero(a, b); } }
proof fn div_step(a: int, d: int)
    requires d > 0
    ensures (a + 1) / d - a / d == (if (a + 1) % d == 0 { 1int } else { 0 })
{
    lemma_fundamental_div_mod(a, d); lemma_fundamental_div_mod(a + 1, d); lemma_mod_bound(a, d); lemma_mod_bound(a + 1, d);
    let q = a / d; let r = a % d;
    assert(q * d == d * q) by(nonlinear_arith);
    if r + 1 < d { lemma_fundamental_div_mod_converse(a + 1, d, q, r + 1); }
    else { assert((q + 1) * d == d * q + d) by(nonlinear_arith); lemma_fundamental_div_mod_converse(a + 1, d, q + 1, 0); }
}
proof fn trunc_div_step(a: int, d: int)
    requires d > 0
    ensures trunc_div(a + 1, d) - trunc_div(a, d) == (if a >= 0 { if (a + 1) % d == 0 { 1int } else { 0 } } else { if (-a) % d == 0 { 1int } else { 0 } })
{
    if a >= 0 { div_step(a, d); } else { div_step(-a - 1, d); }
}
spec fn leaps_since_1970(y: int) -> int { (y - 1968) / 4 - (y - 1900) / 100 + (y - 1600) / 400 }
proof fn dby_from_1970(y: int)
    requires y >= 1970
    ensures days_before_year(y) == 719162 + 365 * (y - 1970) + leaps_since_1970(y) - (if is_leap(y) { 1int } else { 0 })
    decreases y - 1970
{
    if y == 1970 { assert(days_before_year(1970) == 719162) by { reveal(days_before_year); } }
    else {
        dby_from_1970(y - 1); dby_step(y - 1);
        div_step(y - 1 - 1968, 4); div_step(y - 1 - 1900, 100); div_step(y - 1 - 1600, 400);
        mod_shift(y, 492, 4); mod_shift(y, 19, 100); mod_shift(y, 4, 400);
    }
}
spec fn leaps_before_1970(y: int) -> int { trunc_div(y - 1972, 4) - trunc_div(y - 2000, 100) + trunc_div(y - 2000, 400) }
proof fn dby_before_1970(y: int)
    requires y <= 1970
    ensures days_before_year(y) == 719162 + 365 * (y - 1970) + leaps_before_1970(y)
    decreases 1970 - y
{
    if y == 1970 { assert(days_before_year(1970) == 719162) by { reveal(days_before_year); } }
    else {
        dby_before_1970(y + 1); dby_step(y);
        trunc_div_step(y - 1972, 4); trunc_div_step(y - 2000, 100); trunc_div_step(y - 2000, 400);
        mod_shift(y, 493, 4); mod_shift(y, 20, 100); mod_shift(y, 5, 400);
    }
}
proof fn trunc_is_rust(a: int, b: int)
    requires b > 0
    ensures trunc_div(a, b) == rust_div(a, b)
{ reveal(rust_div); }
proof fn cum_days_vals(y: int)
    ensures cum_days(y, 1) == 0, cum_days(y, 2) == 31, cum_days(y, 3) == 59 + (if is_leap(y) { 1int } else { 0 }), cum_days(y, 4) == cum_days(y, 3) + 31,
            cum_days(y, 5) == cum_days(y, 3) + 61, cum_days(y, 6) == cum_days(y, 3) + 92, cum_days(y, 7) == cum_days(y, 3) + 122, cum_days(y, 8) == cum_days(y, 3) + 153,
            cum_days(y, 9) == cum_days(y, 3) + 184, cum_days(y, 10) == cum_days(y, 3) + 214, cum_days(y, 11) == cum_days(y, 3) + 245, cum_days(y, 12) == cum_days(y, 3) + 275
{ reveal_with_fuel(cum_days, 14); }
proof fn epoch_day_bound(y: int, m: int, d: int)
    requires -2147483648 <= y <= 2147483647, 1 <= m <= 12, -1000 <= d <= 1000
    ensures -800_000_000_000 < epoch_day(y, m, d) < 800_000_000_000
{
    cum_days_vals(y);
    assert(days_before_year(0) == -366) by { reveal(days_before_year); }
    if y >= 0 { dby_mono(0, y); } else { dby_mono(y, 0); }
}
spec fn rd_wf(r: RuleDay) -> bool {
    match r { RuleDay::Julian1WithoutLeap(n) => 1 <= n <= 365, RuleDay::Julian0WithLeap(n) => n <= 365,
              RuleDay::MonthWeekday { month, week, week_day } => 1 <= month <= 12 && 1 <= week <= 5 && week_day <= 6 }
}
// weekday of an epoch day, Sunday = 0 (1970-01-01 was a Thursday)
spec fn wd_sun0(e: int) -> int { (e + 4) % 7 }
// (m, d) is the date the rule day denotes in year y
spec fn rd_date_ok(r: RuleDay, y: int, m: int, d: int) -> bool {
    match r {
        // Jn: day n of a 365-day year, 29 February is never counted
        RuleDay::Julian1WithoutLeap(n) => 1 <= d <= month_len(1, m) && cum_days(1, m) + d == n as int,
        // n: zero-based day of the year, leap day counted
        RuleDay::Julian0WithLeap(n) => 1 <= d && cum_days(y, m) + d == n as int + 1 && (d <= month_len(y, m) || (m == 12 && d == 32 && !is_leap(y) && n == 365)),
        // Mm.w.d: the w-th `week_day` of month m, w = 5 meaning the last one
        RuleDay::MonthWeekday { month, week, week_day } =>
            m == month as int && 1 <= d <= month_len(y, m) && wd_sun0(epoch_day(y, m, d)) == week_day as int
            && (if week < 5 { 7 * (week as int - 1) < d <= 7 * week as int } else { d > month_len(y, m) - 7 && d > 21 }),
    }
}
'''

LEMMA = r'''

// ---- from_timespec: days since 2000-03-01 decomposed into 400/100/4/1-year cycles ----
proof fn march_closed(y: int)
    ensures epoch_day(y, 3, 1) == 365 * y + y / 4 - y / 100 + y / 400 - 719468,
            epoch_day(y + 1, 1, 1) == epoch_day(y, 3, 1) + 306, epoch_day(y + 1, 2, 1) == epoch_day(y, 3, 1) + 337
{ reveal(days_before_year); cum_days_vals(y); cum_days_vals(y + 1); dby_step(y); }
proof fn cycles_decomp(c400: int, c100: int, c4: int, ry: int)
    requires 0 <= c100 <= 3, 0 <= c4 <= 24, 0 <= ry <= 3
    ensures epoch_day(2000 + 400 * c400 + 100 * c100 + 4 * c4 + ry, 3, 1) == 11017 + 146097 * c400 + 36524 * c100 + 1461 * c4 + 365 * ry
{
    let y = 2000 + 400 * c400 + 100 * c100 + 4 * c4 + ry;
    march_closed(y);
    lemma_fundamental_div_mod_converse(y, 4, 500 + 100 * c400 + 25 * c100 + c4, ry);
    lemma_fundamental_div_mod_converse(y, 100, 20 + 4 * c400 + c100, 4 * c4 + ry);
    lemma_fundamental_div_mod_converse(y, 400, 5 + c400, 100 * c100 + 4 * c4 + ry);
}
// the 366th day of a March-based year exists only when the following calendar year is a leap year
proof fn last_day_is_leap(c400: int, c100: int, c4: int)
    requires 0 <= c100 <= 3, 0 <= c4 <= 24, c4 == 24 ==> c100 == 3
    ensures is_leap(2000 + 400 * c400 + 100 * c100 + 4 * c4 + 4)
{
    let y = 2000 + 400 * c400 + 100 * c100 + 4 * c4 + 4;
    lemma_fundamental_div_mod_converse(y, 4, 501 + 100 * c400 + 25 * c100 + c4, 0);
    if c4 < 24 { lemma_fundamental_div_mod_converse(y, 100, 20 + 4 * c400 + c100, 4 * c4 + 4); }
    else { lemma_fundamental_div_mod_converse(y, 400, 6 + c400, 0); }
}

proof fn cycles_lemma(c400: int, rd0: int, c100: int, rd1: int, c4: int, rd2: int, ry: int, rd3: int)
    requires 0 <= rd0 < 146097, c100 == (if rd0 / 36524 <= 3 { rd0 / 36524 } else { 3 }), rd1 == rd0 - c100 * 36524,
             c4 == (if rd1 / 1461 <= 24 { rd1 / 1461 } else { 24 }), rd2 == rd1 - c4 * 1461,
             ry == (if rd2 / 365 <= 3 { rd2 / 365 } else { 3 }), rd3 == rd2 - ry * 365
    ensures 0 <= c100 <= 3, 0 <= c4 <= 24, 0 <= ry <= 3, 0 <= rd3 <= 365,
            rd3 == 365 ==> is_leap(2000 + 400 * c400 + 100 * c100 + 4 * c4 + ry + 1),
            epoch_day(2000 + 400 * c400 + 100 * c100 + 4 * c4 + ry, 3, 1) + rd3 == 11017 + 146097 * c400 + rd0
{
    assert(0 <= rd1 <= 36524);
    assert(c100 < 3 ==> rd1 < 36524);
    assert(0 <= rd2 <= 1460);
    assert(c4 == 24 && rd2 == 1460 ==> rd1 == 36524);
    assert(rd3 == 365 ==> ry == 3 && rd2 == 1460);
    cycles_decomp(c400, c100, c4, ry);
    if rd3 == 365 { last_day_is_leap(c400, c100, c4); }
}
proof fn hms_lemma(rs: int)
    requires 0 <= rs < 86400
    ensures (rs / 3600) * 3600 + ((rs / 60) % 60) * 60 + rs % 60 == rs, 0 <= rs / 3600 < 24, 0 <= (rs / 60) % 60 < 60, 0 <= rs % 60 < 60
{}
// cumulative month lengths of a March-based year (February last, counted with 29 days)
spec fn mcum(i: int) -> int {
    if i <= 0 { 0 } else if i == 1 { 31 } else if i == 2 { 61 } else if i == 3 { 92 } else if i == 4 { 122 } else if i == 5 { 153 } else if i == 6 { 184 }
    else if i == 7 { 214 } else if i == 8 { 245 } else if i == 9 { 275 } else if i == 10 { 306 } else if i == 11 { 337 } else { 366 }
}
proof fn march_month(y0: int, m0: int, rd: int, rd3: int)
    requires 0 <= m0 <= 11, 0 <= rd, rd + mcum(m0) == rd3, rd3 < mcum(m0 + 1), rd3 <= 365, rd3 == 365 ==> is_leap(y0 + 1)
    ensures ({ let y = if m0 <= 9 { y0 } else { y0 + 1 }; let m = if m0 <= 9 { m0 + 3 } else { m0 - 9 };
               epoch_day(y, m, 1 + rd) == epoch_day(y0, 3, 1) + rd3 && 1 + rd <= month_len(y, m) })
{ cum_days_vals(y0); march_closed(y0); }
// the Err bounds of from_timespec's contract are the first second of year i32::MIN and of year i32::MAX + 1
proof fn year_range_consts()
    ensures epoch_day(-2147483648, 1, 1) * 86400 == -67768100567971200, epoch_day(2147483648, 1, 1) * 86400 == 67767976233532800
{ reveal(days_before_year); }
proof fn year_range_err(y: int, m: int, d: int, rs: int, t: int)
    requires 1 <= m <= 12, 1 <= d <= month_len(y, m), 0 <= rs < 86400, t == epoch_day(y, m, d) * 86400 + rs
    ensures y > 2147483647 ==> t >= 67767976233532800,
            y < -2147483648 ==> t < -67768100567971200
{
    cum_days_vals(y); year_range_consts();
    if y > 2147483647 { dby_mono(2147483648, y); }
    if y < -2147483648 { dby_mono(y + 1, -2147483648); dby_step(y); }
}
spec fn days_since_unix_epoch_spec(y: int, m: int) -> int { epoch_day(y, m, 1) }
proof fn mw_lemma(y: int, m: int, week: int, week_day: int, e1: int, first_wd: int, first_occ: int, dim: int)
    requires 1 <= m <= 12, 1 <= week <= 5, 0 <= week_day <= 6, e1 == epoch_day(y, m, 1), first_wd == (4 + e1) % 7, first_occ == 1 + (week_day - first_wd) % 7, dim == month_len(y, m)
    ensures ({ let md0 = first_occ + (week - 1) * 7; let md = if md0 > dim { md0 - 7 } else { md0 };
               1 <= md <= dim && wd_sun0(epoch_day(y, m, md)) == week_day
               && (if week < 5 { 7 * (week - 1) < md <= 7 * week } else { md > dim - 7 && md > 21 }) })
{
    let md0 = first_occ + (week - 1) * 7; let md = if md0 > dim { md0 - 7 } else { md0 };
    assert(epoch_day(y, m, md) == e1 + md - 1);
    assert(28 <= dim <= 31);
    assert(1 <= first_occ <= 7);
}
'''

BSEARCH = r'''
#[verifier::external_body]
fn min_i64(a: i64, b: i64) -> (r: i64) ensures r == (if a <= b { a } else { b }) { unimplemented!() }

// std slice::binary_search on a sorted array, through its documented contract
#[verifier::external_body]
fn bsearch12(a: &[i64; 12], x: i64) -> (r: Result<usize, usize>)
    requires forall|i: int, j: int| 0 <= i < j < 12 ==> a[i] < a[j]
    ensures (r is Ok ==> r->Ok_0 < 12 && a[r->Ok_0 as int] == x),
            (r is Err ==> r->Err_0 <= 12 && (forall|i: int| 0 <= i < r->Err_0 ==> a[i] < x) && (forall|i: int| r->Err_0 <= i < 12 ==> a[i] > x))
{ unimplemented!() }
'''


def build(contracts):
    u = Unit('tzrule', contracts)
    u.lemma_owner = {'calendar': 'date', 'rust_div': 'timedelta'}
    u.rlimit = 150
    u.raw(header(P.HEADER) + P.STD_SPECS + P.EXPECT + P.RUST_DIV_AX + P.CALENDAR_AX)
    u.raw('''
trait Offset: Sized + Clone {}
trait TimeZone: Sized + Clone { type Offset: Offset; }
#[derive(Copy, Clone)] struct Utc;
impl Offset for Utc {}
impl TimeZone for Utc { type Offset = Utc; }
''')
    u.struct('src/naive/internals.rs', 'YearFlags')
    u.struct('src/naive/date/mod.rs', 'NaiveDate', expect_fields='struct NaiveDate { yof: NonZeroI32, }')
    u.struct('src/naive/time/mod.rs', 'NaiveTime', expect_fields='struct NaiveTime { secs: u32, frac: u32, }')
    u.struct('src/naive/datetime/mod.rs', 'NaiveDateTime', expect_fields='struct NaiveDateTime { date: NaiveDate, time: NaiveTime, }')
    u.struct('src/datetime/mod.rs', 'DateTime', derive=None)
    u.struct('src/offset/fixed.rs', 'FixedOffset')
    u.struct('src/time_delta.rs', 'TimeDelta')
    u.raw(clean_struct(src('src/offset/mod.rs').enum('LocalResult'), derive=None) + '\ntype MappedLocalTime<T> = LocalResult<T>;')
    u.raw(P.DATE_VIEW_AX + P.TD_VIEW + P.TIME_VIEW + P.stubify(P.DT_VIEW))
    u.struct(FZ, 'TimeZoneName', derive='Clone, Copy, PartialEq, Eq')
    u.struct(FZ, 'LocalTimeType', derive='Clone, Copy, PartialEq, Eq')
    u.raw(clean_struct(src(F).enum('RuleDay'), derive='Clone, Copy, PartialEq, Eq'))
    u.struct(F, 'AlternateTime', derive='Clone, Copy')
    u.raw(SPEC + LEMMA + BSEARCH)
    u.trusted.append('std slice::binary_search (documented contract, stub bsearch12)')
    u.trusted.append('core::cmp::Ord::min on i64 (stub min_i64)')
    u.consts_all(F)
    u.consts_all(FM)
    u.const(FM, 'DAY_IN_MONTHS_NORMAL_YEAR')
    u.const(FM, 'CUMUL_DAY_IN_MONTHS_NORMAL_YEAR')
    u.const(FZ, 'SECONDS_PER_WEEK')
    u.const(F, 'DAY_IN_MONTHS_LEAP_YEAR_FROM_MARCH')
    u.prove(F, 'is_leap_year', cid='is_leap_year', hints=[("year % 400 == 0", "    proof { rem_zero_iff(year as int, 400); rem_zero_iff(year as int, 4); rem_zero_iff(year as int, 100); }")])
    u.prove(F, 'days_since_unix_epoch', cid='days_since_unix_epoch',
            hints=[("let mut result = (year - 1970) * 365;", "    proof { cum_days_vals(year as int); if year >= 1970 { dby_from_1970(year as int); assert(leaps_since_1970(year as int) == (year as int - 1968) / 4 - (year as int - 1900) / 100 + (year as int - 1600) / 400); } else { dby_before_1970(year as int); rust_divrem(year as int - 1972, 4); rust_divrem(year as int - 2000, 100); rust_divrem(year as int - 2000, 400); trunc_is_rust(year as int - 1972, 4); trunc_is_rust(year as int - 2000, 100); trunc_is_rust(year as int - 2000, 400); } }")])
    u.raw('impl RuleDay {')
    for n in ['julian_1', 'julian_0', 'month_weekday']:
        u.prove(F, n, 'impl RuleDay {', cid='RuleDay::' + n)
    u.prove(F, 'transition_date', 'impl RuleDay {', cid='RuleDay::transition_date',
            subst=[('CUMUL_DAY_IN_MONTHS_NORMAL_YEAR.binary_search(&(year_day - 1))', 'bsearch12(&CUMUL_DAY_IN_MONTHS_NORMAL_YEAR, year_day - 1)', 'std binary_search through its contract stub'),
                   ('cumul_day_in_months.binary_search(&year_day)', 'bsearch12(&cumul_day_in_months, year_day)', 'std binary_search through its contract stub')],
            hints=[("match *self {", "        proof { cum_days_vals(year as int); cum_days_vals(1); }"),
                   ("let month = match bsearch12(&CUMUL_DAY_IN_MONTHS_NORMAL_YEAR", "                proof { assert(CUMUL_DAY_IN_MONTHS_NORMAL_YEAR[0] == cum_days(1, 1)); assert(CUMUL_DAY_IN_MONTHS_NORMAL_YEAR[1] == cum_days(1, 2)); assert(CUMUL_DAY_IN_MONTHS_NORMAL_YEAR[2] == cum_days(1, 3)); assert(CUMUL_DAY_IN_MONTHS_NORMAL_YEAR[3] == cum_days(1, 4)); assert(CUMUL_DAY_IN_MONTHS_NORMAL_YEAR[4] == cum_days(1, 5)); assert(CUMUL_DAY_IN_MONTHS_NORMAL_YEAR[5] == cum_days(1, 6)); assert(CUMUL_DAY_IN_MONTHS_NORMAL_YEAR[6] == cum_days(1, 7)); assert(CUMUL_DAY_IN_MONTHS_NORMAL_YEAR[7] == cum_days(1, 8)); assert(CUMUL_DAY_IN_MONTHS_NORMAL_YEAR[8] == cum_days(1, 9)); assert(CUMUL_DAY_IN_MONTHS_NORMAL_YEAR[9] == cum_days(1, 10)); assert(CUMUL_DAY_IN_MONTHS_NORMAL_YEAR[10] == cum_days(1, 11)); assert(CUMUL_DAY_IN_MONTHS_NORMAL_YEAR[11] == cum_days(1, 12)); }"),
                   ("let month = match bsearch12(&cumul_day_in_months", "                proof { assert(cumul_day_in_months[0] == cum_days(year as int, 1)); assert(cumul_day_in_months[1] == cum_days(year as int, 2)); assert(cumul_day_in_months[2] == cum_days(year as int, 3)); assert(cumul_day_in_months[3] == cum_days(year as int, 4)); assert(cumul_day_in_months[4] == cum_days(year as int, 5)); assert(cumul_day_in_months[5] == cum_days(year as int, 6)); assert(cumul_day_in_months[6] == cum_days(year as int, 7)); assert(cumul_day_in_months[7] == cum_days(year as int, 8)); assert(cumul_day_in_months[8] == cum_days(year as int, 9)); assert(cumul_day_in_months[9] == cum_days(year as int, 10)); assert(cumul_day_in_months[10] == cum_days(year as int, 11)); assert(cumul_day_in_months[11] == cum_days(year as int, 12)); }"),
                   ("let week_day_of_first_month_day =", "                proof { epoch_day_bound(year as int, month as int, 1); }"),
                   ("let mut month_day =\n", "                proof { mw_lemma(year as int, month as int, week as int, week_day as int, days_since_unix_epoch_spec(year as int, month as int), week_day_of_first_month_day as int, first_week_day_occurrence_in_month as int, day_in_month as int); }")])
    u.prove(F, 'unix_time', 'impl RuleDay {', cid='RuleDay::unix_time',
            hints=[("days_since_unix_epoch(year, month, month_day) * SECONDS_PER_DAY", "        proof { epoch_day_bound(year as int, month as int, month_day as int); }")])
    u.raw('}')
    u.struct(F, 'UtcDateTime', derive='Clone, Copy')
    u.raw('impl UtcDateTime {')
    u.prove(F, 'from_timespec', 'impl UtcDateTime {', cid='UtcDateTime::from_timespec',
            hints=[("let mut remaining_days = seconds / SECONDS_PER_DAY;", "        proof { rust_divrem(seconds as int, 86400); }"),
                   ("let mut cycles_400_years = remaining_days / DAYS_PER_400_YEARS;", "        let ghost days0 = remaining_days as int;\n        proof { rust_divrem(remaining_days as int, 146097); assert(seconds == days0 * 86400 + remaining_seconds); }"),
                   ("let cycles_100_years =", "        proof { assert(DAYS_PER_400_YEARS == 146097 && DAYS_PER_100_YEARS == 36524 && DAYS_PER_4_YEARS == 1461 && DAYS_PER_NORMAL_YEAR == 365); assert(0 <= remaining_days < 146097); assert(days0 == cycles_400_years * 146097 + remaining_days); }\n        let ghost rd0 = remaining_days as int;"),
                   ("let cycles_4_years =", "        proof { assert(0 <= remaining_days <= 36524); }\n        let ghost rd1 = remaining_days as int;"),
                   ("let remaining_years =", "        proof { assert(0 <= remaining_days <= 1460); }\n        let ghost rd2 = remaining_days as int;"),
                   ("let mut year = OFFSET_YEAR", "        proof { assert(0 <= remaining_days <= 365); }\n        let ghost rd3 = remaining_days as int;"),
                   ("let mut month = 0;", "        let ghost y0 = year as int;\n        proof { cycles_lemma(cycles_400_years as int, rd0, cycles_100_years as int, rd1, cycles_4_years as int, rd2, remaining_years as int, rd3); }"),
                   ("if remaining_days < days {", "            proof { assert(days == mcum(month as int + 1) - mcum(month as int)); }"),
                   ("month += 2;", "        let ghost m0 = month as int;\n        proof { march_month(y0, m0, remaining_days as int, rd3); }"),
                   ("let hour = remaining_seconds / SECONDS_PER_HOUR;", "        proof { assert(epoch_day(year as int, month as int, month_day as int) == 11017 + days0); assert(1 <= month_day <= month_len(year as int, month as int)); hms_lemma(remaining_seconds as int); assert(0 <= remaining_seconds < 86400); }"),
                   ("let minute = (remaining_seconds", "        proof { assert(hour == remaining_seconds as int / 3600); }"),
                   ("let second = remaining_seconds %", "        proof { assert(minute == (remaining_seconds as int / 60) % 60); }"),
                   ("let year = match year >=", "        proof { assert(second == remaining_seconds as int % 60); assert(hour * 3600 + minute * 60 + second == remaining_seconds); assert(unix_time == epoch_day(year as int, month as int, month_day as int) * 86400 + remaining_seconds); year_range_err(year as int, month as int, month_day as int, remaining_seconds as int, unix_time as int); }")],
            subst=[('Ord::min(', 'min_i64(', 'Ord::min on i64 through its contract stub'),
                   ('while month < DAY_IN_MONTHS_LEAP_YEAR_FROM_MARCH.len() {', 'while month < DAY_IN_MONTHS_LEAP_YEAR_FROM_MARCH.len()\n            invariant 0 <= month <= 12, 0 <= remaining_days <= 366, remaining_days + mcum(month as int) == rd3, rd3 <= 365,\n            ensures month <= 11, 0 <= remaining_days, remaining_days + mcum(month as int) == rd3, rd3 < mcum(month as int + 1),\n            decreases 12 - month\n        {', 'loop invariant attached')])
    u.raw('}\nimpl AlternateTime {')
    u.prove(F, 'new', 'impl AlternateTime {', cid='AlternateTime::new')
    u.prove(F, 'find_local_time_type', 'impl AlternateTime {', cid='AlternateTime::find_local_time_type',
            subst=[('Ord::cmp(&current_year_dst_start_unix_time, &current_year_dst_end_unix_time)', 'current_year_dst_start_unix_time.cmp(&current_year_dst_end_unix_time)', 'Ord::cmp written as a method call')])
    u.prove(F, 'find_local_time_type_from_local', 'impl AlternateTime {', cid='AlternateTime::find_local_time_type_from_local',
            subst=[('crate::MappedLocalTime', 'MappedLocalTime', 'crate path shortened'),
                   ('local_time.year()', 'local_time.Datelike__year()', 'R6 trait call re-pointed')],
            hints=[("let current_year = local_time", "        proof { succ_pred_dn_form(v_year(local_time.date), v_ord(local_time.date)); }")])
    u.raw('}\nimpl NaiveDateTime {')
    u.stub('src/naive/datetime/mod.rs', 'and_utc', 'impl NaiveDateTime {', cid='NaiveDateTime::and_utc')
    u.stub('src/naive/datetime/mod.rs', 'year', 'impl Datelike for NaiveDateTime {', cid='NaiveDateTime::Datelike__year', rename='Datelike__year')
    u.raw('}\nimpl<Tz: TimeZone> DateTime<Tz> {')
    u.stub('src/datetime/mod.rs', 'timestamp', 'impl<Tz: TimeZone> DateTime<Tz> {', cid='DateTime::timestamp')
    u.raw('}')
    u.raw(P.FOOTER)
    return u
