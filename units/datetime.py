"""C02 + C03/C04/C07 date-time level: DateTime<Utc> timestamp constructors/accessors and NaiveDateTime
add/sub/difference/offset shifts, on the real text of src/datetime/mod.rs and src/naive/datetime/mod.rs,
over the contracts of the date unit (C01), time unit (C07) and TimeDelta unit (C06)."""
from unit import Unit, header, src
from specs import prelude as P

FD = 'src/naive/date/mod.rs'
FT = 'src/naive/time/mod.rs'
FN = 'src/naive/datetime/mod.rs'
FDT = 'src/datetime/mod.rs'
FTD = 'src/time_delta.rs'
FO = 'src/offset/fixed.rs'
IMPL = 'impl NaiveDateTime {'
GEN = 'impl<Tz: TimeZone> DateTime<Tz> {'
UTC = 'impl DateTime<Utc> {'

TRAITS = r'''
// trimmed trait pair: only the associated type is needed by the functions under contract
trait Offset: Sized + Clone {
    // the real trait method; its result is a FixedOffset value, whose type invariant (|offset| < 24 h, enforced by the only
    // constructors east_opt / west_opt) is stated as the postcondition every implementation owes
    spec fn fix_spec(&self) -> FixedOffset;
    fn fix(&self) -> (r: FixedOffset)
        ensures r == self.fix_spec(), offwf(r);
}
trait TimeZone: Sized + Clone {
    type Offset: Offset;
    fn from_offset(offset: &Self::Offset) -> Self;
    fn offset_from_utc_datetime(&self, utc: &NaiveDateTime) -> Self::Offset;
    // provided method of the real trait: declared here with its contract; its real default body is proved below as the free
    // function TimeZone__from_utc_datetime (Verus rejects a default body that calls a function generic over the same trait)
    fn from_utc_datetime(&self, utc: &NaiveDateTime) -> (r: DateTime<Self>)
        ensures r.datetime == *utc;
}
#[derive(Copy, Clone)] struct Utc;
impl Offset for Utc {
    spec fn fix_spec(&self) -> FixedOffset { FixedOffset { local_minus_utc: 0 } }
    #[verifier::external_body] fn fix(&self) -> (r: FixedOffset) { unimplemented!() }
}
'''

LEMMAS = r'''
// C02 round trip both ways, as lemmas over the contracts
proof fn ts_roundtrip(x: NaiveDateTime, secs: int)
    requires dtwf(x), dn(x.date) == secs / 86400 + UNIX_DAY(), x.time.secs as int == secs % 86400
    ensures unix_secs(x) == secs
{}
// C03: b + (a - b) = a for non-leap date-times (difference is the exact distance, addition is exact)
proof fn add_diff_inverse(a: NaiveDateTime, b: NaiveDateTime, r: Option<NaiveDateTime>)
    requires dtwf(a), dtwf(b), nonleap(a.time), nonleap(b.time), DN_MIN() <= dn(a.date) <= DN_MAX(),
             dt_add_post(b, instant(a) - instant(b), r)
    ensures r.is_some(), instant(r.unwrap()) == instant(a)
{
    assert(tpos(a.time) < DAYNS());
    assert(dn(a.date) * DAYNS() <= instant(a) < (dn(a.date) + 1) * DAYNS());
    assert(DN_MIN() * DAYNS() <= dn(a.date) * DAYNS()) by(nonlinear_arith) requires DN_MIN() <= dn(a.date), DAYNS() > 0;
    assert((dn(a.date) + 1) * DAYNS() <= (DN_MAX() + 1) * DAYNS()) by(nonlinear_arith) requires dn(a.date) <= DN_MAX(), DAYNS() > 0;
}
'''


def build(contracts):
    u = Unit('datetime', contracts)
    u.trusted.append('Offset::fix returns a FixedOffset with |offset| < 24 h for EVERY implementation of the trait (stated as the trait method\'s postcondition: it is the type invariant of FixedOffset, whose only constructors east_opt / west_opt enforce it)')
    u.rlimit = 120
    u.raw(header(P.HEADER) + P.STD_SPECS + P.EXPECT + P.RUST_DIV_AX + P.CALENDAR_AX + TRAITS)
    u.lemma_owner = {'calendar': 'date', 'rust_div': 'timedelta'}
    u.struct('src/naive/internals.rs', 'YearFlags')
    u.struct(FD, 'NaiveDate', expect_fields='struct NaiveDate { yof: NonZeroI32, }')
    u.struct(FTD, 'TimeDelta', expect_fields='struct TimeDelta { secs: i64, nanos: i32, }')
    u.struct(FT, 'NaiveTime', expect_fields='struct NaiveTime { secs: u32, frac: u32, }')
    u.struct(FN, 'NaiveDateTime', expect_fields='struct NaiveDateTime { date: NaiveDate, time: NaiveTime, }')
    u.struct(FO, 'FixedOffset', expect_fields='struct FixedOffset { local_minus_utc: i32, }')
    u.struct('src/naive/mod.rs', 'Days', expect_fields='struct Days(u64);')
    u.struct(FDT, 'DateTime', derive=None, expect_fields='struct DateTime<Tz: TimeZone> { datetime: NaiveDateTime, offset: Tz::Offset, }')
    u.raw('''impl<Tz: TimeZone> Copy for DateTime<Tz> where <Tz as TimeZone>::Offset: Copy {}
impl<Tz: TimeZone> Clone for DateTime<Tz> where <Tz as TimeZone>::Offset: Clone {
    #[verifier::external_body] fn clone(&self) -> Self { unimplemented!() }
}''')
    from xtract import clean_struct as _cs
    u.raw(_cs(src('src/offset/mod.rs').enum('LocalResult'), derive=None) + '\ntype MappedLocalTime<T> = LocalResult<T>;')
    u.raw(P.DATE_VIEW_AX + P.TD_VIEW + P.TIME_VIEW + P.DT_VIEW + LEMMAS)
    u.raw('''impl TimeZone for Utc {
    type Offset = Utc;
    #[verifier::external_body] fn from_offset(offset: &Utc) -> Utc { unimplemented!() }
    #[verifier::external_body] fn offset_from_utc_datetime(&self, utc: &NaiveDateTime) -> Utc { unimplemented!() }
    #[verifier::external_body] fn from_utc_datetime(&self, utc: &NaiveDateTime) -> (r: DateTime<Utc>) { unimplemented!() }
}''')
    # no impl in the crate overrides the provided method (otherwise its contract would be an unchecked assumption)
    import glob as _g, os as _os, re as _re
    from xtract import REPO as _REPO, AnchorLost as _AL
    for _f in _g.glob(_os.path.join(_REPO, 'src', '**', '*.rs'), recursive=True):
        if _f.endswith('offset/mod.rs'):
            continue
        _t = open(_f).read()
        if _re.search(r'fn from_utc_datetime\s*\(', _t):
            raise _AL('an impl overrides TimeZone::from_utc_datetime in ' + _f)
        for _m in _re.finditer(r'impl(?:<[^>]*>)?\s+TimeZone\s+for\s+[^{]*\{', _t):
            from xtract import match_close as _mc
            _blk = _t[_m.end() - 1:_mc(_t, _m.end() - 1)]
            if _re.search(r'fn (timestamp_opt|timestamp_millis_opt|timestamp_micros|timestamp_nanos)\s*\(', _blk):
                raise _AL('an impl overrides a provided TimeZone::timestamp_* method in ' + _f)
    u.const(FDT, 'UNIX_EPOCH_DAY')
    u.raw('''
use core::time::Duration;
#[derive(Debug)] struct OutOfRangeError(());
pub uninterp spec fn dur_secs(d: core::time::Duration) -> u64;
pub uninterp spec fn dur_nanos(d: core::time::Duration) -> u32;
''')
    u.const(FTD, 'NANOS_PER_SEC')
    u.raw('impl TimeDelta {')
    for n in ['try_seconds', 'checked_add', 'checked_sub', 'try_days', 'num_days', 'num_seconds', 'subsec_nanos', 'new', 'neg', 'seconds', 'days', 'from_std']:
        u.stub(FTD, n, 'impl TimeDelta {', cid='TimeDelta::' + n)
    u.stub_all(FTD, 'impl TimeDelta {', 'TimeDelta')
    u.raw('}\nimpl NaiveDate {')
    # every NaiveDate function of the contract table that date-time code may call (so that an edited body calling another
    # of them still type-checks and is decided by the proof instead of becoming a tool error)
    for n in ['from_num_days_from_ce_opt', 'num_days_from_ce', 'checked_add_signed', 'checked_sub_signed', 'signed_duration_since',
              'checked_add_days', 'checked_sub_days', 'succ_opt', 'pred_opt', 'add_days', 'from_ymd_opt', 'from_yo_opt', 'year', 'ordinal']:
        u.stub(FD, n, 'impl NaiveDate {', cid='NaiveDate::' + n)
    for cname in ['BEFORE_MIN', 'AFTER_MAX']:
        c = contracts['NaiveDate::' + cname]
        u.raw('#[verifier::external_body]\nfn %s() -> (r: NaiveDate)\n    ensures %s\n{ unimplemented!() }' % (cname, c['ensures']))
        u.assumed.append('NaiveDate::' + cname)
    u.prove(FD, 'and_time', 'impl NaiveDate {', cid='NaiveDate::and_time')
    u.stub_all(FD, 'impl NaiveDate {', 'NaiveDate')
    u.raw('}\nimpl NaiveTime {')
    for n in ['from_num_seconds_from_midnight_opt', 'num_seconds_from_midnight', 'nanosecond', 'overflowing_add_signed',
              'overflowing_sub_signed', 'signed_duration_since', 'overflowing_add_offset', 'overflowing_sub_offset']:
        u.stub(FT, n, 'impl NaiveTime {', cid='NaiveTime::' + n)
    u.stub_all(FT, 'impl NaiveTime {', 'NaiveTime')
    u.raw('}\nimpl NaiveDateTime {')
    for n in ['new', 'date', 'time', 'and_utc', 'signed_duration_since', 'checked_add_days', 'checked_sub_days']:
        u.prove(FN, n, IMPL, cid='NaiveDateTime::' + n)
    carry = ("let remainder = try_opt!(TimeDelta::try_seconds(remainder));",
             "        proof { dn_range_consts(); succ_pred_dn_form(v_year(self.date), v_ord(self.date)); if !add_model(self.time, %s).0 { dt_carry(dn(self.date), add_model(self.time, %s).1, tpos(time), %s); } }")
    u.prove(FN, 'checked_add_signed', IMPL, cid='NaiveDateTime::checked_add_signed',
            hints=[(carry[0], carry[1] % ('td_ns(rhs)', 'td_ns(rhs)', 'remainder as int'))])
    u.prove(FN, 'checked_sub_signed', IMPL, cid='NaiveDateTime::checked_sub_signed',
            hints=[(carry[0], carry[1] % ('-td_ns(rhs)', '-td_ns(rhs)', '-(remainder as int)'))])
    for n in ['checked_add_offset', 'checked_sub_offset']:
        u.prove(FN, n, IMPL, cid='NaiveDateTime::' + n)
    sent = [('NaiveDate::BEFORE_MIN', 'NaiveDate::BEFORE_MIN()', 'associated const read through its contract stub'),
            ('NaiveDate::AFTER_MAX', 'NaiveDate::AFTER_MAX()', 'associated const read through its contract stub')]
    for n in ['overflowing_add_offset', 'overflowing_sub_offset']:
        u.prove(FN, n, IMPL, cid='NaiveDateTime::' + n, subst=sent)
    u.prove(FN, 'add', 'impl Add<TimeDelta> for NaiveDateTime {', cid='NaiveDateTime::Add__add', rename='Add__add')
    u.prove(FN, 'sub', 'impl Sub<TimeDelta> for NaiveDateTime {', cid='NaiveDateTime::Sub__sub', rename='Sub__sub')
    u.prove(FN, 'add', 'impl Add<Duration> for NaiveDateTime {', cid='NaiveDateTime::Add_Duration__add', rename='Add_Duration__add')
    u.prove(FN, 'sub', 'impl Sub<Duration> for NaiveDateTime {', cid='NaiveDateTime::Sub_Duration__sub', rename='Sub_Duration__sub')
    u.prove(FN, 'add_assign', 'impl AddAssign<TimeDelta> for NaiveDateTime {', cid='NaiveDateTime::AddAssign__add_assign', rename='AddAssign__add_assign',
            subst=[('self.add(rhs)', 'self.Add__add(rhs)', 'R6 trait call re-pointed')])
    u.prove(FN, 'sub_assign', 'impl SubAssign<TimeDelta> for NaiveDateTime {', cid='NaiveDateTime::SubAssign__sub_assign', rename='SubAssign__sub_assign',
            subst=[('self.sub(rhs)', 'self.Sub__sub(rhs)', 'R6 trait call re-pointed')])
    u.prove(FN, 'sub', 'impl Sub<NaiveDateTime> for NaiveDateTime {', cid='NaiveDateTime::Sub_NaiveDateTime__sub', rename='Sub_NaiveDateTime__sub')
    u.raw('}\nimpl<Tz: TimeZone> DateTime<Tz> {')
    for n in ['from_naive_utc_and_offset', 'naive_utc', 'timestamp', 'timestamp_subsec_nanos', 'timestamp_subsec_millis', 'timestamp_subsec_micros',
              'timestamp_millis', 'timestamp_micros', 'timestamp_nanos_opt']:
        u.prove(FDT, n, GEN, cid='DateTime::' + n)
    TZSUB = [('TimeZone::from_offset(&self.offset)', 'Tz::from_offset(&self.offset)', 'trait-qualified call written with the type parameter')]
    u.prove(FDT, 'timezone', GEN, cid='DateTime::timezone', subst=TZSUB)
    u.prove(FDT, 'with_timezone', GEN, cid='DateTime::with_timezone')
    u.prove(FDT, 'to_utc', GEN, cid='DateTime::to_utc')
    u.prove(FDT, 'checked_add_signed', GEN, cid='DateTime::checked_add_signed')
    u.prove(FDT, 'checked_sub_signed', GEN, cid='DateTime::checked_sub_signed')
    u.prove(FDT, 'overflowing_naive_local', GEN, cid='DateTime::overflowing_naive_local')
    u.prove(FDT, 'signed_duration_since', GEN, cid='DateTime::signed_duration_since',
            replace_sig='fn signed_duration_since<Tz2: TimeZone>(self, rhs: &DateTime<Tz2>) -> TimeDelta',
            subst=[('rhs.borrow().datetime', 'rhs.datetime', 'R6 `impl Borrow<DateTime<Tz2>>` argument taken as the borrowed `&DateTime<Tz2>` it yields')])
    u.prove(FDT, 'sub', 'impl<Tz: TimeZone> Sub<DateTime<Tz>> for DateTime<Tz> {', cid='DateTime::Sub_DateTime__sub', rename='Sub_DateTime__sub',
            subst=[('self.signed_duration_since(rhs)', 'self.signed_duration_since(&rhs)', 'R6 by-value argument borrowed for the `impl Borrow` parameter')])
    u.prove(FDT, 'add_assign', 'impl<Tz: TimeZone> AddAssign<TimeDelta> for DateTime<Tz> {', cid='DateTime::AddAssign__add_assign', rename='AddAssign__add_assign')
    u.prove(FDT, 'sub_assign', 'impl<Tz: TimeZone> SubAssign<TimeDelta> for DateTime<Tz> {', cid='DateTime::SubAssign__sub_assign', rename='SubAssign__sub_assign')
    u.prove(FDT, 'add', 'impl<Tz: TimeZone> Add<TimeDelta> for DateTime<Tz> {', cid='DateTime::Add__add', rename='Add__add')
    u.prove(FDT, 'sub', 'impl<Tz: TimeZone> Sub<TimeDelta> for DateTime<Tz> {', cid='DateTime::Sub__sub', rename='Sub__sub')
    u.prove(FDT, 'add', 'impl<Tz: TimeZone> Add<Duration> for DateTime<Tz> {', cid='DateTime::Add_Duration__add', rename='Add_Duration__add')
    u.prove(FDT, 'sub', 'impl<Tz: TimeZone> Sub<Duration> for DateTime<Tz> {', cid='DateTime::Sub_Duration__sub', rename='Sub_Duration__sub')
    u.prove(FDT, 'add_assign', 'impl<Tz: TimeZone> AddAssign<Duration> for DateTime<Tz> {', cid='DateTime::AddAssign_Duration__add_assign', rename='AddAssign_Duration__add_assign',
            subst=[('*self += rhs;', 'self.AddAssign__add_assign(rhs);', 'R6 compound operator re-pointed to the proved AddAssign<TimeDelta> body')])
    u.prove(FDT, 'sub_assign', 'impl<Tz: TimeZone> SubAssign<Duration> for DateTime<Tz> {', cid='DateTime::SubAssign_Duration__sub_assign', rename='SubAssign_Duration__sub_assign',
            subst=[('*self -= rhs;', 'self.SubAssign__sub_assign(rhs);', 'R6 compound operator re-pointed to the proved SubAssign<TimeDelta> body')])
    u.raw('}')
    u.prove('src/offset/mod.rs', 'from_utc_datetime', 'pub trait TimeZone: Sized + Clone {', cid='TimeZone::from_utc_datetime', rename='TimeZone__from_utc_datetime',
            replace_sig='fn TimeZone__from_utc_datetime<Tz: TimeZone>(this: &Tz, utc: &NaiveDateTime) -> DateTime<Tz>',
            subst=[('self.offset_from_utc_datetime(utc)', 'this.offset_from_utc_datetime(utc)', 'R6 provided trait method proved as a free generic function (self -> this)')])
    u.raw('impl DateTime<Utc> {')
    for n in ['from_timestamp', 'from_timestamp_millis', 'from_timestamp_micros', 'from_timestamp_nanos']:
        hints = []
        if n == 'from_timestamp_nanos':
            hints = [("expect(Self::from_timestamp(secs, nsecs)", "        proof { dn_range_consts(); }")]
        u.prove(FDT, n, UTC, cid='DateTime::' + n, hints=hints)
    u.raw('}')
    u.raw('impl NaiveDateTime {')
    for n in ['from_timestamp_millis', 'from_timestamp_micros', 'from_timestamp_nanos', 'from_timestamp_opt', 'timestamp', 'timestamp_millis', 'timestamp_micros',
              'timestamp_nanos_opt', 'timestamp_subsec_nanos', 'timestamp_subsec_millis', 'timestamp_subsec_micros']:
        u.prove(FN, n, IMPL, cid='NaiveDateTime::' + n)
    u.raw('}')
    # TimeZone::timestamp_opt / timestamp_millis_opt / timestamp_micros / timestamp_nanos: provided methods, proved on their default bodies as free generic functions
    for n, args in [('timestamp_opt', 'secs: i64, nsecs: u32'), ('timestamp_millis_opt', 'millis: i64'), ('timestamp_micros', 'micros: i64')]:
        u.prove('src/offset/mod.rs', n, 'pub trait TimeZone: Sized + Clone {', cid='TimeZone::' + n, rename='TimeZone__' + n,
                replace_sig='fn TimeZone__%s<Tz: TimeZone>(this: &Tz, %s) -> MappedLocalTime<DateTime<Tz>>' % (n, args),
                subst=[('self.from_utc_datetime(', 'this.from_utc_datetime(', 'R6 provided trait method proved as a free generic function (self -> this)')])
    u.prove('src/offset/mod.rs', 'timestamp_nanos', 'pub trait TimeZone: Sized + Clone {', cid='TimeZone::timestamp_nanos', rename='TimeZone__timestamp_nanos',
            replace_sig='fn TimeZone__timestamp_nanos<Tz: TimeZone>(this: &Tz, nanos: i64) -> DateTime<Tz>',
            subst=[('self.from_utc_datetime(', 'this.from_utc_datetime(', 'R6 provided trait method proved as a free generic function (self -> this)')])
    u.raw(P.FOOTER)
    return u
